//! A "zoo" of every built-in drawable family, constructed from the integer arguments of a case
//! line, with one colour type (Rgb565). Used by the implementation-side search suites of the
//! cross-cutting properties (C02 bounding boxes, C07 translation, C08 totality).
//!
//! Case syntax (after the suite name):   <family> <geometry ints...> S <fill> <stroke> <width> <align>
//!   rect x y w h | circle x y d | ellipse x y w h | rrect x y w h tlw tlh trw trh brw brh blw blh
//!   tri x1 y1 x2 y2 x3 y3 | line x1 y1 x2 y2 | poly tx ty n x1 y1 ... | arc x y d start sweep
//!   sector x y d start sweep | image x y w h seed | subimage x y w h seed ax ay aw ah
//!   text x y font align baseline lh_kind lh_val deco strid
//! fill/stroke: 0 = none, 1 = present; align: 0 inside 1 center 2 outside; an optional 5th style token 1 = dotted stroke.
//! Angles in degrees.
//! For image/text the "S ..." part is absent.
use embedded_graphics::{
    geometry::AnchorPoint,
    image::{Image, ImageRaw, ImageRawBE},
    mono_font::{ascii, iso_8859_1, MonoFont, MonoTextStyleBuilder},
    pixelcolor::Rgb565,
    prelude::*,
    primitives::*,
    text::{Alignment, Baseline, LineHeight, Text, TextStyleBuilder},
    Pixel,
};

pub const FILL: Rgb565 = Rgb565::new(31, 0, 0);
pub const STROKE: Rgb565 = Rgb565::new(0, 63, 0);
pub const TEXT: Rgb565 = Rgb565::new(0, 0, 31);
pub const BG: Rgb565 = Rgb565::new(31, 63, 0);
pub const UL: Rgb565 = Rgb565::new(0, 63, 31);
pub const ST: Rgb565 = Rgb565::new(31, 0, 31);

pub const STRINGS: [&str; 12] = [
    "", "A", "Ag", "Hello, World", "ab\ncd", "ab\r\ncd", "\n", "x\n\ny", "tail\n", "\u{1}\u{7f}é€😀", " a  b ", "line one\nl2\nthe third line",
];
pub const FONTS: [&MonoFont<'static>; 8] = [
    &ascii::FONT_4X6, &ascii::FONT_6X10, &ascii::FONT_9X15, &ascii::FONT_9X18_BOLD, &ascii::FONT_10X20,
    &iso_8859_1::FONT_5X8, &iso_8859_1::FONT_7X13_ITALIC, &iso_8859_1::FONT_6X13,
];

fn i(s: &str) -> i32 {
    s.parse::<i64>().unwrap() as i32
}
fn u(s: &str) -> u32 {
    s.parse::<i64>().unwrap() as u32
}

#[derive(Clone, Debug)]
pub enum Geo {
    Rect(Rectangle),
    Circle(Circle),
    Ellipse(Ellipse),
    RRect(RoundedRectangle),
    Tri(Triangle),
    Line(Line),
    Poly(Point, Vec<Point>),
    Arc(Arc),
    Sector(Sector),
    Image { pos: Point, size: Size, data: Vec<u8>, sub: Option<Rectangle> },
    Text { pos: Point, font: usize, align: u8, baseline: u8, lh: LineHeight, deco: u8, s: usize },
}

#[derive(Clone, Debug)]
pub struct Zoo {
    pub geo: Geo,
    pub style: PrimitiveStyle<Rgb565>,
}

pub fn style(a: &[&str]) -> PrimitiveStyle<Rgb565> {
    let mut b = PrimitiveStyleBuilder::new();
    if a[0] == "1" {
        b = b.fill_color(FILL);
    }
    if a[1] == "1" {
        b = b.stroke_color(STROKE);
    }
    b = b.stroke_width(u(a[2]));
    b = b.stroke_alignment(match a[3] {
        "0" => StrokeAlignment::Inside,
        "1" => StrokeAlignment::Center,
        _ => StrokeAlignment::Outside,
    });
    // optional 5th token: 1 = dotted stroke style (only the rectangle renders it differently)
    if a.len() > 4 && a[4] == "1" {
        b = b.stroke_style(StrokeStyle::Dotted);
    }
    b.build()
}

fn pseudo_bytes(n: usize, seed: u32) -> Vec<u8> {
    let mut x = seed.wrapping_mul(2654435761).wrapping_add(12345);
    (0..n)
        .map(|_| {
            x ^= x << 13;
            x ^= x >> 17;
            x ^= x << 5;
            (x >> 8) as u8
        })
        .collect()
}

impl Zoo {
    pub fn parse(a: &[&str]) -> Zoo {
        let fam = a[0];
        let g = &a[1..];
        let spos = a.iter().position(|t| *t == "S");
        let st = spos.map(|p| style(&a[p + 1..])).unwrap_or_default();
        let geo = match fam {
            "rect" => Geo::Rect(Rectangle::new(Point::new(i(g[0]), i(g[1])), Size::new(u(g[2]), u(g[3])))),
            "circle" => Geo::Circle(Circle::new(Point::new(i(g[0]), i(g[1])), u(g[2]))),
            "ellipse" => Geo::Ellipse(Ellipse::new(Point::new(i(g[0]), i(g[1])), Size::new(u(g[2]), u(g[3])))),
            "rrect" => Geo::RRect(RoundedRectangle::new(
                Rectangle::new(Point::new(i(g[0]), i(g[1])), Size::new(u(g[2]), u(g[3]))),
                CornerRadii {
                    top_left: Size::new(u(g[4]), u(g[5])),
                    top_right: Size::new(u(g[6]), u(g[7])),
                    bottom_right: Size::new(u(g[8]), u(g[9])),
                    bottom_left: Size::new(u(g[10]), u(g[11])),
                },
            )),
            "tri" => Geo::Tri(Triangle::new(Point::new(i(g[0]), i(g[1])), Point::new(i(g[2]), i(g[3])), Point::new(i(g[4]), i(g[5])))),
            "line" => Geo::Line(Line::new(Point::new(i(g[0]), i(g[1])), Point::new(i(g[2]), i(g[3])))),
            "poly" => {
                let n = g[2].parse::<usize>().unwrap();
                let v = (0..n).map(|k| Point::new(i(g[3 + 2 * k]), i(g[4 + 2 * k]))).collect();
                Geo::Poly(Point::new(i(g[0]), i(g[1])), v)
            }
            "arc" => Geo::Arc(Arc::new(Point::new(i(g[0]), i(g[1])), u(g[2]), (i(g[3]) as f32).deg(), (i(g[4]) as f32).deg())),
            "sector" => Geo::Sector(Sector::new(Point::new(i(g[0]), i(g[1])), u(g[2]), (i(g[3]) as f32).deg(), (i(g[4]) as f32).deg())),
            "image" | "subimage" => {
                let size = Size::new(u(g[2]), u(g[3]));
                let data = pseudo_bytes((size.width * size.height * 2) as usize, u(g[4]));
                let sub = if fam == "subimage" {
                    Some(Rectangle::new(Point::new(i(g[5]), i(g[6])), Size::new(u(g[7]), u(g[8]))))
                } else {
                    None
                };
                Geo::Image { pos: Point::new(i(g[0]), i(g[1])), size, data, sub }
            }
            "text" => Geo::Text {
                pos: Point::new(i(g[0]), i(g[1])),
                font: g[2].parse::<usize>().unwrap() % FONTS.len(),
                align: g[3].parse().unwrap(),
                baseline: g[4].parse().unwrap(),
                lh: if g[5] == "0" { LineHeight::Pixels(u(g[6])) } else { LineHeight::Percent(u(g[6])) },
                deco: g[7].parse().unwrap(),
                s: g[8].parse::<usize>().unwrap() % STRINGS.len(),
            },
            _ => panic!("unknown family {}", fam),
        };
        Zoo { geo, style: st }
    }

    pub fn is_styled_primitive(&self) -> bool {
        !matches!(self.geo, Geo::Image { .. } | Geo::Text { .. })
    }

    /// draw() on any target with Rgb565 colour; returns the target's result (and text's next position)
    pub fn draw<D: DrawTarget<Color = Rgb565>>(&self, t: &mut D) -> Result<Option<Point>, D::Error> {
        let st = self.style;
        match &self.geo {
            Geo::Rect(p) => p.into_styled(st).draw(t).map(|_| None),
            Geo::Circle(p) => p.into_styled(st).draw(t).map(|_| None),
            Geo::Ellipse(p) => p.into_styled(st).draw(t).map(|_| None),
            Geo::RRect(p) => p.into_styled(st).draw(t).map(|_| None),
            Geo::Tri(p) => p.into_styled(st).draw(t).map(|_| None),
            Geo::Line(p) => p.into_styled(st).draw(t).map(|_| None),
            Geo::Poly(tr, v) => Polyline::new(v).translate(*tr).into_styled(st).draw(t).map(|_| None),
            Geo::Arc(p) => p.into_styled(st).draw(t).map(|_| None),
            Geo::Sector(p) => p.into_styled(st).draw(t).map(|_| None),
            Geo::Image { pos, size, data, sub } => {
                let raw: ImageRawBE<Rgb565> = ImageRaw::new(data, *size).unwrap();
                match sub {
                    None => Image::new(&raw, *pos).draw(t).map(|_| None),
                    Some(area) => {
                        let s = raw.sub_image(area);
                        Image::new(&s, *pos).draw(t).map(|_| None)
                    }
                }
            }
            Geo::Text { .. } => self.with_text(|txt| txt.draw(t).map(Some)),
        }
    }

    fn with_text<R>(&self, f: impl FnOnce(&Text<'_, embedded_graphics::mono_font::MonoTextStyle<'static, Rgb565>>) -> R) -> R {
        if let Geo::Text { pos, font, align, baseline, lh, deco, s } = &self.geo {
            let mut b = MonoTextStyleBuilder::new().font(FONTS[*font]);
            if deco & 1 != 0 {
                b = b.text_color(TEXT);
            }
            if deco & 2 != 0 {
                b = b.background_color(BG);
            }
            if deco & 4 != 0 {
                b = b.underline_with_color(UL);
            }
            if deco & 8 != 0 {
                b = b.strikethrough_with_color(ST);
            }
            let cs = b.build();
            let ts = TextStyleBuilder::new()
                .alignment(match align % 3 {
                    0 => Alignment::Left,
                    1 => Alignment::Center,
                    _ => Alignment::Right,
                })
                .baseline(match baseline % 4 {
                    0 => Baseline::Top,
                    1 => Baseline::Bottom,
                    2 => Baseline::Middle,
                    _ => Baseline::Alphabetic,
                })
                .line_height(*lh)
                .build();
            let txt = Text::with_text_style(STRINGS[*s], *pos, cs, ts);
            f(&txt)
        } else {
            unreachable!()
        }
    }

    pub fn bounding_box(&self) -> Rectangle {
        let st = self.style;
        match &self.geo {
            Geo::Rect(p) => p.into_styled(st).bounding_box(),
            Geo::Circle(p) => p.into_styled(st).bounding_box(),
            Geo::Ellipse(p) => p.into_styled(st).bounding_box(),
            Geo::RRect(p) => p.into_styled(st).bounding_box(),
            Geo::Tri(p) => p.into_styled(st).bounding_box(),
            Geo::Line(p) => p.into_styled(st).bounding_box(),
            Geo::Poly(tr, v) => Polyline::new(v).translate(*tr).into_styled(st).bounding_box(),
            Geo::Arc(p) => p.into_styled(st).bounding_box(),
            Geo::Sector(p) => p.into_styled(st).bounding_box(),
            Geo::Image { pos, size, data, sub } => {
                let raw: ImageRawBE<Rgb565> = ImageRaw::new(data, *size).unwrap();
                match sub {
                    None => Image::new(&raw, *pos).bounding_box(),
                    Some(area) => {
                        let s = raw.sub_image(area);
                        Image::new(&s, *pos).bounding_box()
                    }
                }
            }
            Geo::Text { .. } => self.with_text(|t| t.bounding_box()),
        }
    }

    /// bounding box of the unstyled primitive (None for image/text)
    pub fn primitive_bounding_box(&self) -> Option<Rectangle> {
        Some(match &self.geo {
            Geo::Rect(p) => p.bounding_box(),
            Geo::Circle(p) => p.bounding_box(),
            Geo::Ellipse(p) => p.bounding_box(),
            Geo::RRect(p) => p.bounding_box(),
            Geo::Tri(p) => p.bounding_box(),
            Geo::Line(p) => p.bounding_box(),
            Geo::Poly(tr, v) => Polyline::new(v).translate(*tr).bounding_box(),
            Geo::Arc(p) => p.bounding_box(),
            Geo::Sector(p) => p.bounding_box(),
            _ => return None,
        })
    }

    /// the styled primitive's pixels() (None for image/text)
    pub fn pixels(&self, cap: usize) -> Option<Vec<Pixel<Rgb565>>> {
        let st = self.style;
        Some(match &self.geo {
            Geo::Rect(p) => p.into_styled(st).pixels().take(cap).collect(),
            Geo::Circle(p) => p.into_styled(st).pixels().take(cap).collect(),
            Geo::Ellipse(p) => p.into_styled(st).pixels().take(cap).collect(),
            Geo::RRect(p) => p.into_styled(st).pixels().take(cap).collect(),
            Geo::Tri(p) => p.into_styled(st).pixels().take(cap).collect(),
            Geo::Line(p) => p.into_styled(st).pixels().take(cap).collect(),
            Geo::Poly(tr, v) => Polyline::new(v).translate(*tr).into_styled(st).pixels().take(cap).collect(),
            Geo::Arc(p) => p.into_styled(st).pixels().take(cap).collect(),
            Geo::Sector(p) => p.into_styled(st).pixels().take(cap).collect(),
            _ => return None,
        })
    }

    /// points() of the unstyled primitive (None where the primitive has no PointsIter / for image, text)
    pub fn points(&self, cap: usize) -> Option<Vec<Point>> {
        Some(match &self.geo {
            Geo::Rect(p) => p.points().take(cap).collect(),
            Geo::Circle(p) => p.points().take(cap).collect(),
            Geo::Ellipse(p) => p.points().take(cap).collect(),
            Geo::RRect(p) => p.points().take(cap).collect(),
            Geo::Tri(p) => p.points().take(cap).collect(),
            Geo::Line(p) => p.points().take(cap).collect(),
            Geo::Poly(tr, v) => Polyline::new(v).translate(*tr).points().take(cap).collect(),
            Geo::Arc(p) => p.points().take(cap).collect(),
            Geo::Sector(p) => p.points().take(cap).collect(),
            _ => return None,
        })
    }

    /// contains() for the primitives that implement ContainsPoint
    pub fn contains(&self, q: Point) -> Option<bool> {
        Some(match &self.geo {
            Geo::Rect(p) => p.contains(q),
            Geo::Circle(p) => p.contains(q),
            Geo::Ellipse(p) => p.contains(q),
            Geo::RRect(p) => p.contains(q),
            Geo::Tri(p) => p.contains(q),
            Geo::Sector(p) => p.contains(q),
            _ => return None,
        })
    }

    /// x.translate(d) through the library's Transform implementation
    pub fn translated(&self, d: Point) -> Zoo {
        let geo = match &self.geo {
            Geo::Rect(p) => Geo::Rect(p.translate(d)),
            Geo::Circle(p) => Geo::Circle(p.translate(d)),
            Geo::Ellipse(p) => Geo::Ellipse(p.translate(d)),
            Geo::RRect(p) => Geo::RRect(p.translate(d)),
            Geo::Tri(p) => Geo::Tri(p.translate(d)),
            Geo::Line(p) => Geo::Line(p.translate(d)),
            // Polyline::translate only changes the translate field
            Geo::Poly(tr, v) => {
                let pl = Polyline::new(v).translate(*tr).translate(d);
                Geo::Poly(pl.translate, v.clone())
            }
            Geo::Arc(p) => Geo::Arc(p.translate(d)),
            Geo::Sector(p) => Geo::Sector(p.translate(d)),
            Geo::Image { pos, size, data, sub } => {
                let raw: ImageRawBE<Rgb565> = ImageRaw::new(data, *size).unwrap();
                let im = Image::new(&raw, *pos).translate(d);
                Geo::Image { pos: im.bounding_box().top_left, size: *size, data: data.clone(), sub: *sub }
            }
            Geo::Text { pos: _, font, align, baseline, lh, deco, s } => {
                let np = self.with_text(|t| t.translate(d).position);
                Geo::Text { pos: np, font: *font, align: *align, baseline: *baseline, lh: *lh, deco: *deco, s: *s }
            }
        };
        Zoo { geo, style: self.style }
    }

    /// the same object moved with translate_mut
    pub fn translated_mut(&self, d: Point) -> Zoo {
        let geo = match &self.geo {
            Geo::Rect(p) => { let mut q = *p; q.translate_mut(d); Geo::Rect(q) }
            Geo::Circle(p) => { let mut q = *p; q.translate_mut(d); Geo::Circle(q) }
            Geo::Ellipse(p) => { let mut q = *p; q.translate_mut(d); Geo::Ellipse(q) }
            Geo::RRect(p) => { let mut q = *p; q.translate_mut(d); Geo::RRect(q) }
            Geo::Tri(p) => { let mut q = *p; q.translate_mut(d); Geo::Tri(q) }
            Geo::Line(p) => { let mut q = *p; q.translate_mut(d); Geo::Line(q) }
            Geo::Poly(tr, v) => {
                let mut pl = Polyline::new(v).translate(*tr);
                pl.translate_mut(d);
                Geo::Poly(pl.translate, v.clone())
            }
            Geo::Arc(p) => { let mut q = *p; q.translate_mut(d); Geo::Arc(q) }
            Geo::Sector(p) => { let mut q = *p; q.translate_mut(d); Geo::Sector(q) }
            Geo::Text { pos: _, font, align, baseline, lh, deco, s } => {
                let np = self.with_text(|t| { let mut t2 = t.clone(); t2.translate_mut(d); t2.position });
                Geo::Text { pos: np, font: *font, align: *align, baseline: *baseline, lh: *lh, deco: *deco, s: *s }
            }
            Geo::Image { pos, size, data, sub } => {
                let raw: ImageRawBE<Rgb565> = ImageRaw::new(data, *size).unwrap();
                let mut im = Image::new(&raw, *pos);
                im.translate_mut(d);
                Geo::Image { pos: im.bounding_box().top_left, size: *size, data: data.clone(), sub: *sub }
            }
        };
        Zoo { geo, style: self.style }
    }

    /// draw `self.into_styled(style).translate(d)` (or translate_mut) - the Transform impl of `Styled<T, S>` itself,
    /// not of the primitive (None for image/text, which are not Styled)
    pub fn draw_styled_translated<D: DrawTarget<Color = Rgb565>>(&self, d: Point, use_mut: bool, t: &mut D) -> Option<Result<(), D::Error>> {
        let st = self.style;
        macro_rules! go {
            ($p:expr) => {{
                let s = $p.into_styled(st);
                if use_mut {
                    let mut s2 = s;
                    s2.translate_mut(d);
                    s2.draw(t)
                } else {
                    s.translate(d).draw(t)
                }
            }};
        }
        Some(match &self.geo {
            Geo::Rect(p) => go!(*p),
            Geo::Circle(p) => go!(*p),
            Geo::Ellipse(p) => go!(*p),
            Geo::RRect(p) => go!(*p),
            Geo::Tri(p) => go!(*p),
            Geo::Line(p) => go!(*p),
            Geo::Poly(tr, v) => go!(Polyline::new(v).translate(*tr)),
            Geo::Arc(p) => go!(*p),
            Geo::Sector(p) => go!(*p),
            _ => return None,
        })
    }

    /// a polyline moved by moving its vertices instead of the translate field (None otherwise)
    pub fn moved_vertices(&self, d: Point) -> Option<Zoo> {
        if let Geo::Poly(tr, v) = &self.geo {
            Some(Zoo { geo: Geo::Poly(*tr, v.iter().map(|p| *p + d).collect()), style: self.style })
        } else {
            None
        }
    }

    pub fn is_transparent(&self) -> bool {
        match &self.geo {
            Geo::Image { .. } => false,
            Geo::Text { deco, .. } => *deco == 0,
            _ => self.style.is_transparent(),
        }
    }

    #[allow(dead_code)]
    pub fn anchor(&self) -> Point {
        self.bounding_box().anchor_point(AnchorPoint::TopLeft)
    }
}
