From Coq Require Import ZArith List Lia Bool.
Import ListNotations.
Open Scope Z_scope.

Fixpoint range_from (a : Z) (n : nat) : list Z :=
  match n with O => [] | S k => a :: range_from (a+1) k end.
Definition range (a b : Z) : list Z := range_from a (Z.to_nat (b - a)).

Lemma range_nil a b : b <= a -> range a b = [].
Proof. intros. unfold range. replace (Z.to_nat (b-a)) with O by lia. reflexivity. Qed.
Lemma range_cons a b : a < b -> range a b = a :: range (a+1) b.
Proof. intros. unfold range. replace (Z.to_nat (b-a)) with (S (Z.to_nat (b-(a+1)))) by lia. reflexivity. Qed.
Lemma In_range a b x : In x (range a b) <-> a <= x < b.
Proof.
  unfold range. remember (Z.to_nat (b-a)) as n eqn:E. revert a E.
  induction n as [|n IH]; intros a E; simpl.
  - split; [tauto|lia].
  - rewrite IH by lia. lia.
Qed.
Lemma range_app a m b : a <= m <= b -> range a b = range a m ++ range m b.
Proof.
  intros H. unfold range at 2. remember (Z.to_nat (m-a)) as n eqn:E. revert a E H.
  induction n as [|n IH]; intros a E H.
  - assert (a = m) by lia. subst. simpl. reflexivity.
  - rewrite range_cons by lia. simpl. f_equal. apply IH; lia.
Qed.

Lemma filter_all_false (P : Z -> bool) l : (forall x, In x l -> P x = false) -> filter P l = [].
Proof. induction l as [|x l IH]; simpl; intros H; [reflexivity|]. rewrite (H x) by auto. apply IH. auto. Qed.
Lemma filter_all_true (P : Z -> bool) l : (forall x, In x l -> P x = true) -> filter P l = l.
Proof. induction l as [|x l IH]; simpl; intros H; [reflexivity|]. rewrite (H x) by auto. f_equal. apply IH. auto. Qed.

Lemma find_range_spec (P : Z -> bool) a b :
  match find P (range a b) with
  | Some x => a <= x < b /\ P x = true /\ (forall y, a <= y < x -> P y = false)
  | None => forall y, a <= y < b -> P y = false
  end.
Proof.
  unfold range. remember (Z.to_nat (b-a)) as n eqn:E. revert a E.
  induction n as [|n IH]; intros a E; simpl.
  - intros; lia.
  - destruct (P a) eqn:Pa.
    + repeat split; try lia. assumption.
    + specialize (IH (a+1) ltac:(lia)). destruct (find P (range_from (a+1) n)) as [x|].
      * destruct IH as (H1 & H2 & H3). repeat split; try lia; auto.
        intros y Hy. destruct (Z.eq_dec y a); [subst; assumption| apply H3; lia].
      * intros y Hy. destruct (Z.eq_dec y a); [subst; assumption| apply IH; lia].
Qed.

(* the scanline the code computes: first hit x0, run x0 .. b-(x0-a) *)
Definition scan (P : Z -> bool) (a b : Z) : list Z :=
  match find P (range a b) with Some x => range x (b - (x - a)) | None => [] end.

Theorem scan_spec (P : Z -> bool) a b :
  (forall x, a <= x < b -> P x = P (a + b - 1 - x)) ->
  (forall x y z, a <= x -> x <= y <= z -> z < b -> P x = true -> P z = true -> P y = true) ->
  scan P a b = filter P (range a b).
Proof.
  intros Hsym Hconv. unfold scan. pose proof (find_range_spec P a b) as Hf.
  destruct (find P (range a b)) as [x0|].
  - destruct Hf as (Hx & Px & Hlt).
    set (e := b - (x0 - a)).
    assert (He : x0 < e <= b).
    { subst e. split; [|lia]. (* mirror of x0 is >= x0, otherwise P (mirror) true with mirror < x0 *)
      destruct (Z_lt_le_dec (a + b - 1 - x0) x0) as [Hm|Hm]; [|lia].
      exfalso. rewrite Hsym in Px by lia. rewrite Hlt in Px by lia. discriminate. }
    rewrite (range_app a x0 b) by lia. rewrite (range_app x0 e b) by lia.
    rewrite !filter_app.
    rewrite (filter_all_false P (range a x0)) by (intros y Hy; apply In_range in Hy; apply Hlt; lia).
    rewrite (filter_all_true P (range x0 e)).
    2:{ intros y Hy. apply In_range in Hy. apply (Hconv x0 y (a+b-1-x0)); subst e; try lia; [exact Px | rewrite <- Hsym by lia; exact Px]. }
    rewrite (filter_all_false P (range e b)).
    2:{ intros y Hy. apply In_range in Hy. rewrite Hsym by lia. apply Hlt. subst e. lia. }
    simpl. rewrite app_nil_r. reflexivity.
  - symmetry. apply filter_all_false. intros y Hy. apply In_range in Hy. auto.
Qed.

(* circle instance *)
Definition thr (d : Z) : Z := if d <=? 4 then d*d - d/2 else d*d.
Definition circ_row (tlx d cy2 y : Z) (x : Z) : bool :=
  let cx2 := 2*tlx + (d - 1) in
  let dx := 2*x - cx2 in let dy := 2*y - cy2 in dx*dx + dy*dy <? thr d.

Lemma circ_row_scan tlx d cy2 y : 0 < d ->
  scan (circ_row tlx d cy2 y) tlx (tlx + d) = filter (circ_row tlx d cy2 y) (range tlx (tlx + d)).
Proof.
  intros Hd. apply scan_spec.
  - intros x Hx. unfold circ_row. cbv zeta. f_equal. nia.
  - intros x y0 z Hx Hy Hz. unfold circ_row. cbv zeta. rewrite !Z.ltb_lt.
    set (c := 2*tlx + (d-1)). set (e := (2*y - cy2)*(2*y - cy2)). intros H1 H2.
    assert ((2*y0-c)*(2*y0-c) <= (2*x-c)*(2*x-c) \/ (2*y0-c)*(2*y0-c) <= (2*z-c)*(2*z-c))
      by (destruct (Z_le_gt_dec (2*y0) c); [left|right]; nia).
    lia.
Qed.
Print Assumptions circ_row_scan.
