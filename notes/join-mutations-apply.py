#!/usr/bin/env python3
"""apply mutation <name> to /tmp/scratch-join-mut (after git checkout .)"""
import sys, subprocess, re
T = '/tmp/scratch-join-mut'
subprocess.run(['git', '-C', T, 'checkout', '-q', '.'], check=True)
def sub(path, old, new, count=1):
    p = T + '/' + path
    s = open(p).read()
    assert s.count(old) >= 1, (path, old)
    if count == 1: assert s.count(old) == 1, ('ambiguous', path, old, s.count(old))
    open(p, 'w').write(s.replace(old, new))
IP = 'src/primitives/line/intersection_params.rs'
LJ = 'src/primitives/common/line_join.rs'
LE = 'src/primitives/common/linear_equation.rs'
TS = 'src/primitives/common/thick_segment.rs'
TSI = 'src/primitives/common/thick_segment_iter.rs'
CTSI = 'src/primitives/common/closed_thick_segment_iter.rs'
SC = 'src/primitives/common/scanline.rs'
M = {
 # 1 revert the repair a4a7ab8: round half away from zero with truncating division
 'm1_trunc_round': lambda: sub(IP, """            (numerator + denominator / 2)
                .div_euclid(denominator)
                .saturating_as::<i32>()""", """            ({ let n = if numerator < 0 { numerator - denominator / 2 } else { numerator + denominator / 2 }; n / denominator })
                .saturating_as::<i32>()"""),
 # 1b truncating instead of euclidean division only
 'm1b_div_trunc': lambda: sub(IP, ".div_euclid(denominator)", ".wrapping_div(denominator)"),
 # 2 miter limit factor 2 -> 3
 'm2_miter3': lambda: sub(LJ, "(i64::from(width) * 2).pow(2)", "(i64::from(width) * 3).pow(2)"),
 'm2b_miter1': lambda: sub(LJ, "(i64::from(width) * 2).pow(2)", "(i64::from(width) * 1).pow(2)"),
 # 3 bevel chosen on the wrong side
 'm3_bevel_side': lambda: sub(LJ, """                    match outer_side {
                        LineSide::Right => Self {
                            kind: JoinKind::Bevel { outer_side },""", """                    match outer_side {
                        LineSide::Left => Self {
                            kind: JoinKind::Bevel { outer_side },""") or sub(LJ, """                        LineSide::Left => Self {
                            kind: JoinKind::Bevel { outer_side },
                            first_edge_end: EdgeCorners {
                                left: first_edge_left.end,""", """                        LineSide::Right => Self {
                            kind: JoinKind::Bevel { outer_side },
                            first_edge_end: EdgeCorners {
                                left: first_edge_left.end,"""),
 # 4 < vs <= in nearly_colinear_has_error
 'm4_colinear_le': lambda: sub(IP, """i64::from(self.denominator).pow(2)
            < i64::from""", """i64::from(self.denominator).pow(2)
            <= i64::from"""),
 # 5 off by one in the scanline range
 'm5_extend_end': lambda: sub(SC, """        } else if x >= self.x.end {
            self.x.end = x + 1;""", """        } else if x >= self.x.end {
            self.x.end = x;"""),
 'm5b_yrange': lambda: sub(SC, "line.start.y..=line.end.y", "line.start.y..=line.end.y - 1"),
 'm5c_touches': lambda: sub(SC, "let range = self.x.start - 1..=self.x.end;", "let range = self.x.start..=self.x.end;"),
 # 6 thick_segment_iter: wrong last segment
 'm6_tsi_last': lambda: sub(TSI, "let start = *self.points.get(self.points.len() - 2)?;", "let start = *self.points.get(self.points.len().saturating_sub(3))?;"),
 # 7 check_side strictness
 'm7_check_side': lambda: sub(LE, """            LineSide::Left => distance <= 0,
            LineSide::Right => distance >= 0,
        }
    }
}

/// Linear equation with zero""", """            LineSide::Left => distance < 0,
            LineSide::Right => distance > 0,
        }
    }
}

/// Linear equation with zero"""),
 # 8 self intersection tested against the wrong edge
 'm8_selfint_edge': lambda: sub(LJ, """                LineSide::Right => LinearEquation::from_line(&first_edge_left)
                    .check_side(second_edge_left.end, LineSide::Right),""", """                LineSide::Right => LinearEquation::from_line(&first_edge_right)
                    .check_side(second_edge_left.end, LineSide::Right),"""),
 # 9 outer side sign
 'm9_outer_side': lambda: sub(IP, "let outer_side = if denominator < 0 {", "let outer_side = if denominator > 0 {"),
 # 10 filler line midpoint: cap uses the wrong corner
 'm10_cap': lambda: sub(LJ, "let l2 = Line::new(midpoint, cap.right);", "let l2 = Line::new(midpoint, cap.left);"),
 # 11 edges: left edge built from the wrong join
 'm11_edges': lambda: sub(TS, """            Line::new(
                self.end_join.first_edge_end.left,
                self.start_join.second_edge_start.left,
            ),""", """            Line::new(
                self.end_join.second_edge_start.left,
                self.start_join.second_edge_start.left,
            ),"""),
 # 12 miter uses the inner instead of the outer intersection for the limit
 'm12_miter_inner': lambda: sub(LJ, """                let miter_delta = match outer_side {
                    LineSide::Left => l_intersection,
                    LineSide::Right => r_intersection,""", """                let miter_delta = match outer_side {
                    LineSide::Left => r_intersection,
                    LineSide::Right => l_intersection,"""),
 # 13 origin distance uses the end point rounding: normal vector not rotated (translation dependent?)
 'm13_round_offset': lambda: sub(IP, "(numerator + denominator / 2)", "(numerator + (denominator + 1) / 2)"),
 # 14 closed iterator closes with the wrong join
 'm14_closed': lambda: sub(CTSI, "let end = self.points.first()?;", "let end = self.points.get(1)?;"),
 # 15 rounding tie direction depends on the sign of the denominator (flip forgotten)
 'm15_noflip': lambda: sub(IP, "let (numerator, denominator) = if denominator < 0 {\n                (-numerator, -denominator)", "let (numerator, denominator) = if denominator < 0 {\n                (-numerator - 1, -denominator)"),
}
name = sys.argv[1]
if name == 'list': print(' '.join(M)); sys.exit(0)
if name != 'none': M[name]()
print(subprocess.run(['git', '-C', T, 'diff', '--stat'], capture_output=True, text=True).stdout.strip())
