#!/usr/bin/env python3
"""eval.py <mutations...>: for each mutation build the harness against the mutated scratch tree and count what each
   detector sees: correspondence suites (model vs impl), p_translate, p_thick.  Uses /work/join as it is."""
import sys, os, random, subprocess, importlib.util, time
V = '/work/join'
sys.path.insert(0, V + '/props')
def load(n):
    spec = importlib.util.spec_from_file_location(n, V + '/props/%s.py' % n); m = importlib.util.module_from_spec(spec); spec.loader.exec_module(m); return m
pj, p7 = load('C07_join'), load('C07')
tier = 'quick'
cases = [l for l in pj.cases(tier, random.Random(11)) if not l.startswith('p_')]
s_thick = list(pj.search(tier, random.Random(12)))
s_trans = list(p7.search(tier, random.Random(13)))
s_trans2 = list(pj.translate_cases(tier, random.Random(14)))
s_thick = [l for l in s_thick if l.startswith('p_thick')]
T = '/tmp/scratch-join-mut'
def run(exe, lines, n=6):
    chunks = [lines[i::n] for i in range(n)]
    ps = [subprocess.Popen([exe], stdin=subprocess.PIPE, stdout=subprocess.PIPE, stderr=subprocess.DEVNULL, text=True) for _ in chunks]
    import threading
    outs = [None] * n
    def feed(i): outs[i] = ps[i].communicate('\n'.join(chunks[i]) + '\n')[0].split('\n')
    th = [threading.Thread(target=feed, args=(i,)) for i in range(n)]
    [t.start() for t in th]; [t.join() for t in th]
    res = [None] * len(lines)
    for i in range(n):
        for j in range(len(chunks[i])): res[i + j * n] = outs[i][j] if j < len(outs[i]) else 'MISSING'
    return res
model = run(V + '/.build/ocaml/model_oracle', cases)
def build():
    subprocess.run(['python3', V + '/tools/gen_registry.py'])
    open(V + '/harness/Cargo.toml', 'w').write(open(V + '/harness/Cargo.toml.in').read().replace('@REPO@', T))
    r = subprocess.run('CARGO_NET_OFFLINE=true CARGO_TARGET_DIR=%s/.build/cargo-mut timeout 2400 cargo build --release --offline -j6 2>&1 | grep -E "^error" -A8 | head -30' % V, shell=True, cwd=V + '/harness', capture_output=True, text=True)
    return r.stdout
exe = V + '/.build/cargo-mut/release/eg_oracle'
for m in sys.argv[1:]:
    subprocess.run(['python3', '/tmp/joindev/mut/apply.py', m], capture_output=True)
    err = build()
    if err.strip():
        print('==', m, 'BUILD ERROR', err[:600]); continue
    impl = run(exe, cases)
    dis = [(l, a, b) for l, a, b in zip(cases, impl, model) if a != b]
    by = {}
    for l, a, b in dis: by[l.split()[0]] = by.get(l.split()[0], 0) + 1
    rt = run(exe, s_trans); ft = [(l, r) for l, r in zip(s_trans, rt) if not r.startswith('OK')]
    rk = run(exe, s_thick); fk = [(l, r) for l, r in zip(s_thick, rk) if not r.startswith('OK')]
    r2 = run(exe, s_trans2); f2 = [(l, r) for l, r in zip(s_trans2, r2) if not r.startswith('OK')]
    print('== %s: correspondence %d/%d %s | p_translate %d/%d | p_thick %d/%d | p_translate(join cases) %d/%d' % (m, len(dis), len(cases), by, len(ft), len(s_trans), len(fk), len(s_thick), len(f2), len(s_trans2)))
    if f2: print('     transl2:', min(f2, key=lambda z: len(z[0]))[0][:120], '=>', min(f2, key=lambda z: len(z[0]))[1][:100])
    if dis: print('     corr  :', min(dis, key=lambda z: len(z[0]))[0][:160])
    if ft: print('     transl:', min(ft, key=lambda z: len(z[0]))[0][:120], '=>', min(ft, key=lambda z: len(z[0]))[1][:100])
    if fk: print('     thick :', min(fk, key=lambda z: len(z[0]))[0][:120], '=>', min(fk, key=lambda z: len(z[0]))[1][:140])
    sys.stdout.flush()
subprocess.run(['python3', '/tmp/joindev/mut/apply.py', 'none'], capture_output=True)
os.remove(V + '/harness/Cargo.toml')
