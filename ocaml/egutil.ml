(* Hand-written glue between text case lines and the extracted model (trusted, see DESIGN.md 7).
   NOTE: the extracted stdlib modules List/Nat shadow OCaml's; always write Stdlib.List etc. *)
open BinNums

let rec pos_of_int (n : int) : positive =
  if n = 1 then Coq_xH else if n land 1 = 0 then Coq_xO (pos_of_int (n lsr 1)) else Coq_xI (pos_of_int (n lsr 1))
let z_of_int (n : int) : coq_Z = if n = 0 then Z0 else if n > 0 then Zpos (pos_of_int n) else Zneg (pos_of_int (-n))
let rec int_of_pos (p : positive) : int =
  match p with Coq_xH -> 1 | Coq_xO q -> 2 * int_of_pos q | Coq_xI q -> 2 * int_of_pos q + 1
let int_of_z (z : coq_Z) : int = match z with Z0 -> 0 | Zpos p -> int_of_pos p | Zneg p -> - (int_of_pos p)
let rec nat_of_int (n : int) : Datatypes.nat = if n <= 0 then Datatypes.O else Datatypes.S (nat_of_int (n - 1))
let rec int_of_nat (n : Datatypes.nat) : int = match n with Datatypes.O -> 0 | Datatypes.S k -> 1 + int_of_nat k

let z_in (s : string) : coq_Z = z_of_int (int_of_string s)
let z_out (v : coq_Z) : string = string_of_int (int_of_z v)
let b_out (b : bool) : string = if b then "1" else "0"
let opt_out (f : 'a -> string) (o : 'a option) : string = match o with None -> "none" | Some x -> f x
let list_out (f : 'a -> string) (l : 'a list) : string = Stdlib.String.concat "," (Stdlib.List.map f l)
let zs_in (args : string list) : coq_Z list = Stdlib.List.map z_in args

(* suite registry *)
let table : (string, string list -> string) Hashtbl.t = Hashtbl.create 64
let register (name : string) (f : string list -> string) : unit = Hashtbl.replace table name f
