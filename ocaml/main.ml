(* model_oracle: reads one case per line "<suite> <args...>", prints one canonical result line. *)
let () =
  Suites_all.init ();
  try
    while true do
      let line = input_line stdin in
      let toks = Stdlib.List.filter (fun s -> s <> "") (Stdlib.String.split_on_char ' ' line) in
      match toks with
      | [] -> print_endline ""
      | suite :: args -> (
          match Hashtbl.find_opt Egutil.table suite with
          | Some f -> print_endline (try f args with e -> "MODEL-EXN " ^ Printexc.to_string e)
          | None -> print_endline ("UNKNOWN-SUITE " ^ suite))
    done
  with End_of_file -> ()
