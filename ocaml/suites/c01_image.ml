(* C01 image part: what one fill_contiguous call paints through the trait default (model side: call_writes) *)
open Egutil
open Geometry
open Imageraw

let init () =
  register "fc_call" (function
    | [ax; ay; aw; ah; n; seed; bx; by; bw; bh] ->
        let n = int_of_string n and seed = int_of_string seed in
        let cs = Stdlib.List.init n (fun i -> z_of_int ((seed + i * 7) mod 251)) in
        C09.map_string (C09.rc bx by bw bh) [ FillContiguous (C09.rc ax ay aw ah, cs) ]
    | _ -> "BAD-ARGS")
