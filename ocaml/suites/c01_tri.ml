(* C01/C02/C07 parts of the triangle / polyline family: the styled consumers (model side, Model/Tristyled.v) *)
open Egutil
open Geometry

let pt x y = { px = z_in x; py = z_in y }
let fill_tag = z_of_int 63488      (* harness zoo.rs FILL = Rgb565::new(31, 0, 0) *)
let stroke_tag = z_of_int 2016     (* harness zoo.rs STROKE = Rgb565::new(0, 63, 0) *)

let style fill stroke width align =
  { Style.fill_color = (if fill = "1" then Some fill_tag else None);
    stroke_color = (if stroke = "1" then Some stroke_tag else None);
    stroke_width = z_in width;
    stroke_alignment = (match align with "0" -> Style.Inside | "1" -> Style.Center | _ -> Style.Outside);
    stroke_kind = Style.Solid }

let spix (p, c) = z_out p.px ^ ":" ^ z_out p.py ^ ":" ^ z_out c
let scall (r, c) =
  z_out r.tl.px ^ ":" ^ z_out r.tl.py ^ ":" ^ z_out r.sz.sw ^ ":" ^ z_out r.sz.sh ^ ":" ^ z_out c

let rec pts_of = function
  | x :: y :: r -> pt x y :: pts_of r
  | _ -> []

let init () =
  register "tri_styled_w0" (function
    | [x1; y1; x2; y2; x3; y3; fill; stroke; align] ->
        let t = { Triangle.v1 = pt x1 y1; v2 = pt x2 y2; v3 = pt x3 y3 } in
        list_out spix (Tristyled.tri_styled_pixels_w0 (style fill stroke "0" align) t)
    | _ -> "BAD-ARGS");
  register "tri_styled_w0_draw" (function
    | [x1; y1; x2; y2; x3; y3; fill; stroke; align] ->
        let t = { Triangle.v1 = pt x1 y1; v2 = pt x2 y2; v3 = pt x3 y3 } in
        list_out scall (Tristyled.tri_draw_styled_w0 (style fill stroke "0" align) t)
    | _ -> "BAD-ARGS");
  register "poly_styled_thin" (function
    | tx :: ty :: stroke :: width :: _n :: rest ->
        let pl = { Polyline.pl_translate = pt tx ty; pl_vertices = pts_of rest } in
        list_out spix (Tristyled.poly_styled_pixels_thin (style "0" stroke width "1") pl)
    | _ -> "BAD-ARGS")
