(* C03: adapters (clipped / cropped / translated / color_converted) and trait defaults.
   Case line:  tstack <kind 0=DefaultOnly|1=Native> <bb x y w h> <nad> <adapters, innermost first>
                      <nops> <ops>
     adapter:  C x y w h | R x y w h (cropped) | T dx dy | V (color_converted, colour map conv_test)
     op:       D n (x y c)*n | F x y w h L n c*n | F x y w h I c (endless repeat) | S x y w h c | K c
   Result:     BB <outermost bounding_box()> MAP <root pixel map sorted by (y,x)>                  *)
open Egutil
open Geometry
open Target

let pt x y = { px = z_in x; py = z_in y }
let rc x y w h = { tl = pt x y; sz = { sw = z_in w; sh = z_in h } }
let src r = z_out r.tl.px ^ " " ^ z_out r.tl.py ^ " " ^ z_out r.sz.sw ^ " " ^ z_out r.sz.sh

let rec take n l = if n = 0 then ([], l) else match l with
  | x :: t -> let (a, b) = take (n - 1) t in (x :: a, b)
  | [] -> failwith "short case line"

let rec parse_ads n toks acc =
  if n = 0 then (Stdlib.List.rev acc, toks) else
  match toks with
  | "C" :: x :: y :: w :: h :: t -> parse_ads (n - 1) t (Clip (rc x y w h) :: acc)
  | "R" :: x :: y :: w :: h :: t -> parse_ads (n - 1) t (Crop (rc x y w h) :: acc)
  | "T" :: x :: y :: t -> parse_ads (n - 1) t (Transl (pt x y) :: acc)
  | "V" :: t -> parse_ads (n - 1) t (Conv conv_test :: acc)
  | _ -> failwith "bad adapter"

let rec parse_px n toks acc =
  if n = 0 then (Stdlib.List.rev acc, toks) else
  match toks with
  | x :: y :: c :: t -> parse_px (n - 1) t ((pt x y, z_in c) :: acc)
  | _ -> failwith "bad pixel"

(* generated stream token  G n a b : the n colours (a*i + b) mod 251, i = 0 .. n-1 *)
let gen_stream n a b = Stdlib.List.init n (fun i -> z_of_int ((a * i + b) mod 251))

let rec parse_ops n toks acc =
  if n = 0 then (Stdlib.List.rev acc, toks) else
  match toks with
  | "D" :: k :: t -> let (ps, t') = parse_px (int_of_string k) t [] in parse_ops (n - 1) t' (DrawIter ps :: acc)
  (* Pixel::draw, PixelIteratorExt::draw and .translated(d).draw are one draw_iter call each *)
  | "P" :: x :: y :: c :: t -> parse_ops (n - 1) t (DrawIter [(pt x y, z_in c)] :: acc)
  | "DI" :: k :: t -> let (ps, t') = parse_px (int_of_string k) t [] in parse_ops (n - 1) t' (DrawIter ps :: acc)
  | "DT" :: dx :: dy :: k :: t ->
      let (ps, t') = parse_px (int_of_string k) t [] in parse_ops (n - 1) t' (DrawIter (translate_pixels (pt dx dy) ps) :: acc)
  | "F" :: x :: y :: w :: h :: "L" :: k :: t ->
      let (cs, t') = take (int_of_string k) t in
      parse_ops (n - 1) t' (FillContiguous (rc x y w h, Fin (Stdlib.List.map z_in cs)) :: acc)
  | "F" :: x :: y :: w :: h :: "G" :: gn :: ga :: gb :: t ->
      parse_ops (n - 1) t (FillContiguous (rc x y w h, Fin (gen_stream (int_of_string gn) (int_of_string ga) (int_of_string gb))) :: acc)
  | "F" :: x :: y :: w :: h :: "I" :: c :: t -> parse_ops (n - 1) t (FillContiguous (rc x y w h, Rep (z_in c)) :: acc)
  | "S" :: x :: y :: w :: h :: c :: t -> parse_ops (n - 1) t (FillSolid (rc x y w h, z_in c) :: acc)
  | "K" :: c :: t -> parse_ops (n - 1) t (Clear (z_in c) :: acc)
  | _ -> failwith "bad op"

(* replay the ordered pixel stores of each operation into a table and print the sorted map after EVERY
   operation: the stores of the prefix ops[..i] are run_stack bb kind st ops[..i] (flat_map distributes) *)
let snapshot h =
  let l = Hashtbl.fold (fun k v acc -> (k, v) :: acc) h [] in
  let l = Stdlib.List.sort compare l in
  Stdlib.String.concat "," (Stdlib.List.map (fun ((y, x), c) -> Printf.sprintf "%d:%d:%d" x y c) l)

let maps_out bb kind st ops : string =
  let h = Hashtbl.create 64 in
  let one op =
    Stdlib.List.iter (fun (p, c) -> Hashtbl.replace h (int_of_z p.py, int_of_z p.px) (int_of_z c)) (run_stack bb kind st [op]);
    snapshot h in
  match ops with
  | [] -> snapshot h
  | _ -> Stdlib.String.concat " | " (Stdlib.List.map one ops)

let tstack args =
  match args with
  | k :: x :: y :: w :: h :: nad :: t ->
      let kind = if k = "0" then DefaultOnly else Native in
      let bb = rc x y w h in
      let (ads_inner_first, t) = parse_ads (int_of_string nad) t [] in
      (match t with
       | nops :: t ->
           let (ops, _) = parse_ops (int_of_string nops) t [] in
           let st = Stdlib.List.rev ads_inner_first in   (* model: head = outermost *)
           "BB " ^ src (bbox_stack st bb) ^ " MAP " ^ maps_out bb kind st ops
       | _ -> "BAD-ARGS")
  | _ -> "BAD-ARGS"

(* the calls that reach a native parent: same case line as tstack (kind ignored) *)
let scall (c : call) : string =
  match c with
  | DrawIter ps -> "D " ^ list_out (fun (p, c) -> z_out p.px ^ ":" ^ z_out p.py ^ ":" ^ z_out c) ps
  | FillContiguous (r, cs) ->
      let n = BinInt.Z.to_nat (BinInt.Z.mul r.sz.sw r.sz.sh) in
      "F " ^ src r ^ " " ^ list_out z_out (stake n cs)
  | FillSolid (r, c) -> "S " ^ src r ^ " " ^ z_out c
  | Clear c -> "K " ^ z_out c

let tcalls args =
  match args with
  | _ :: x :: y :: w :: h :: nad :: t ->
      let bb = rc x y w h in
      let (ads_inner_first, t) = parse_ads (int_of_string nad) t [] in
      (match t with
       | nops :: t ->
           let (ops, _) = parse_ops (int_of_string nops) t [] in
           let st = Stdlib.List.rev ads_inner_first in
           let calls = Stdlib.List.concat (Stdlib.List.map (fun op -> lower st bb op) ops) in
           Stdlib.String.concat " ; " (Stdlib.List.map scall calls)
       | _ -> "BAD-ARGS")
  | _ -> "BAD-ARGS"

(* the Cropped colour iterator alone:  tcrop <w> <h> <crop x y w h> L n c*n | I c <take>  *)
let tcrop args =
  match args with
  | w :: h :: cx :: cy :: cw :: ch :: "L" :: n :: t ->
      let (cs, _) = take (int_of_string n) t in
      list_out z_out (cropped_iter (Fin (Stdlib.List.map z_in cs)) { sw = z_in w; sh = z_in h } (rc cx cy cw ch))
  | [w; h; cx; cy; cw; ch; "G"; n; a; b] ->
      list_out z_out (cropped_iter (Fin (gen_stream (int_of_string n) (int_of_string a) (int_of_string b))) { sw = z_in w; sh = z_in h } (rc cx cy cw ch))
  | [w; h; cx; cy; cw; ch; "I"; c] ->
      list_out z_out (cropped_iter (Rep (z_in c)) { sw = z_in w; sh = z_in h } (rc cx cy cw ch))
  | _ -> "BAD-ARGS"

(* ContiguousIteratorExt::into_pixels:  tinto <x y w h> L n c*n | G n a b | I c *)
let tinto args =
  match args with
  | x :: y :: w :: h :: t ->
      let cs = (match t with
        | "L" :: n :: t -> Fin (Stdlib.List.map z_in (fst (take (int_of_string n) t)))
        | ["G"; n; a; b] -> Fin (gen_stream (int_of_string n) (int_of_string a) (int_of_string b))
        | ["I"; c] -> Rep (z_in c)
        | _ -> failwith "bad stream") in
      list_out (fun (p, c) -> z_out p.px ^ ":" ^ z_out p.py ^ ":" ^ z_out c) (into_pixels (rc x y w h) cs)
  | _ -> "BAD-ARGS"

let init () =
  register "tinto" tinto;
  register "tstack" tstack;
  register "tcalls" tcalls;
  register "tcrop" tcrop
