(* C04: error flow.  The model side of C04 is the skeleton language of coq/Model/Errlang.v, tied to the
   source by the translator translate/errflow (regenerated on every run) and decided inside Coq by
   vm_compute (Properties/C04.v).  The dynamic side (p_errflow) runs on the implementation only.
   The one correspondence suite evaluates the extracted semantics on fixed skeletons (extraction sanity). *)
open Egutil

let init () = ()
