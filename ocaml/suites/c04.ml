(* C04: error flow.  The model side of C04 is the skeleton language of coq/Model/Errlang.v, tied to the
   source by the translator translate/errflow (regenerated on every run) and decided inside Coq by
   vm_compute (Properties/C04.v).  The dynamic side (p_errflow) runs on the implementation only.
   There is no model/implementation correspondence suite for C04: the tie is the translator (plus its token census) and
   the sweep; Model/Errlang.v is still extracted and compiled with the other models. *)
open Egutil

let init () = ()
