(* C05/C18 (circle, ellipse part): contains over a window, points(), bounding box, centre, offset *)
open Egutil
open Geometry
open Circle
open Ellipse

let pt x y = { px = z_in x; py = z_in y }
let spt p = z_out p.px ^ " " ^ z_out p.py
let src r = spt r.tl ^ " " ^ z_out r.sz.sw ^ " " ^ z_out r.sz.sh
let pts_out l = list_out (fun p -> z_out p.px ^ ":" ^ z_out p.py) l
let scirc c = spt c.c_tl ^ " " ^ z_out c.c_d
let sell e = spt e.e_tl ^ " " ^ z_out e.e_sz.sw ^ " " ^ z_out e.e_sz.sh

(* all points (row-major) of the window = box (x,y,w,h) grown by margin m on every side, that satisfy f *)
let window_filter x y w h m f =
  let x = int_of_string x and y = int_of_string y and w = int_of_string w and h = int_of_string h
  and m = int_of_string m in
  let acc = ref [] in
  for yy = y - m to y + h + m - 1 do
    for xx = x - m to x + w + m - 1 do
      let p = { px = z_of_int xx; py = z_of_int yy } in
      if f p then acc := p :: !acc
    done
  done;
  Stdlib.List.rev !acc

let init () =
  register "circ_geom" (function
    | [x; y; d; m] ->
        let c = { c_tl = pt x y; c_d = z_in d } in
        "BB " ^ src (circle_bbox c) ^ " CTR " ^ spt (circle_center c)
        ^ " PTS " ^ pts_out (circle_points c)
        ^ " IN " ^ pts_out (window_filter x y d d m (circle_contains c))
    | _ -> "BAD-ARGS");
  register "circ_offset" (function
    | [x; y; d; n] -> scirc (circle_offset { c_tl = pt x y; c_d = z_in d } (z_in n))
    | _ -> "BAD-ARGS");
  register "circ_wc" (function
    | [x; y; d] -> scirc (circle_with_center (pt x y) (z_in d))
    | _ -> "BAD-ARGS");
  (* contains() only, as a build with overflow checks evaluates it: PANIC when an intermediate does not fit its type *)
  register "circ_in" (function
    | [x; y; d; qx; qy] ->
        (match circle_contains_checked { c_tl = pt x y; c_d = z_in d } (pt qx qy) with
         | Some b -> b_out b | None -> "PANIC")
    | _ -> "BAD-ARGS");
  register "ell_in" (function
    | [x; y; w; h; qx; qy] ->
        (match ellipse_contains_checked { e_tl = pt x y; e_sz = { sw = z_in w; sh = z_in h } } (pt qx qy) with
         | Some b -> b_out b | None -> "PANIC")
    | _ -> "BAD-ARGS");
  register "ell_geom" (function
    | [x; y; w; h; m] ->
        let e = { e_tl = pt x y; e_sz = { sw = z_in w; sh = z_in h } } in
        "BB " ^ src (ellipse_bbox e) ^ " CTR " ^ spt (ellipse_center e)
        ^ " PTS " ^ pts_out (ellipse_points e)
        ^ " IN " ^ pts_out (window_filter x y w h m (ellipse_contains e))
    | _ -> "BAD-ARGS");
  register "ell_offset" (function
    | [x; y; w; h; n] -> sell (ellipse_offset { e_tl = pt x y; e_sz = { sw = z_in w; sh = z_in h } } (z_in n))
    | _ -> "BAD-ARGS");
  register "ell_wc" (function
    | [x; y; w; h] -> sell (ellipse_with_center (pt x y) { sw = z_in w; sh = z_in h })
    | _ -> "BAD-ARGS")
