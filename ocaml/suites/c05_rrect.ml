(* C05 / C18 (RoundedRectangle share): confine, contains, points, offset on the extracted model.
   Case arguments: x y w h  tlw tlh  trw trh  brw brh  blw blh *)
open Egutil
open Geometry
open Rrect

let sz_ w h = { sw = z_in w; sh = z_in h }
let rr_in = function
  | x :: y :: w :: h :: a1 :: a2 :: b1 :: b2 :: c1 :: c2 :: d1 :: d2 :: rest ->
      ({ rr_rect = { tl = { px = z_in x; py = z_in y }; sz = sz_ w h };
         rr_corners = { r_tl = sz_ a1 a2; r_tr = sz_ b1 b2; r_br = sz_ c1 c2; r_bl = sz_ d1 d2 } }, rest)
  | _ -> failwith "BAD-ARGS"
let ssz s = z_out s.sw ^ " " ^ z_out s.sh
let srad c = ssz c.r_tl ^ " " ^ ssz c.r_tr ^ " " ^ ssz c.r_br ^ " " ^ ssz c.r_bl
let srect r = z_out r.tl.px ^ " " ^ z_out r.tl.py ^ " " ^ ssz r.sz
let srr r = srect r.rr_rect ^ " " ^ srad r.rr_corners

(* contains over the bounding box grown by m, rows of 0/1 joined by '/' *)
let bitmap (r : rect) (m : int) (f : point -> bool) : string =
  let x0 = int_of_z r.tl.px - m and y0 = int_of_z r.tl.py - m in
  let x1 = int_of_z r.tl.px + int_of_z r.sz.sw + m and y1 = int_of_z r.tl.py + int_of_z r.sz.sh + m in
  let rows = ref [] in
  for y = y1 - 1 downto y0 do
    let b = Buffer.create 16 in
    for x = x0 to x1 - 1 do
      Buffer.add_char b (if f { px = z_of_int x; py = z_of_int y } then '1' else '0')
    done;
    rows := Buffer.contents b :: !rows
  done;
  Stdlib.String.concat "/" !rows

let init () =
  register "rr_confine" (fun a -> let (r, _) = rr_in a in srad (rr_confine_radii r).rr_corners);
  register "rr_contains" (fun a ->
    match rr_in a with
    | (r, [m]) -> let c = rrc_new r in bitmap r.rr_rect (int_of_string m) (fun p -> rrc_contains c p)
    | _ -> "BAD-ARGS");
  register "rr_contains_pt" (fun a ->
    match rr_in a with
    | (r, [x; y]) -> b_out (rr_contains r { px = z_in x; py = z_in y })
    | _ -> "BAD-ARGS");
  register "rr_points" (fun a ->
    let (r, _) = rr_in a in list_out (fun p -> z_out p.px ^ ":" ^ z_out p.py) (rr_points r));
  register "rr_all" (fun a ->
    let (r, _) = rr_in a in
    let c = rrc_new r in
    "C " ^ srad (rr_confine_radii r).rr_corners
    ^ " B " ^ bitmap r.rr_rect 2 (fun p -> rrc_contains c p)
    ^ " P " ^ list_out (fun p -> z_out p.px ^ ":" ^ z_out p.py) (rr_points r)
    ^ " BB " ^ srect (rr_bounding_box r));
  register "rr_translate" (fun a ->
    match rr_in a with
    | (r, [dx; dy]) -> let t = srr (rr_translate r { px = z_in dx; py = z_in dy }) in t ^ " M " ^ t
    | _ -> "BAD-ARGS");
  register "rr_offset" (fun a ->
    match rr_in a with
    | (r, [n]) -> srr (rr_offset r (z_in n))
    | _ -> "BAD-ARGS")
