(* C05 (triangle share): Triangle::contains over the bounding box plus a margin (model side) *)
open Egutil
open Geometry

let pt x y = { px = z_in x; py = z_in y }

let init () =
  (* tri_contains_map x1 y1 x2 y2 x3 y3 m: contains() for every point of the bounding box grown by m,
     row-major, as a string of 0/1 with rows separated by '/' *)
  register "tri_contains_map" (function
    | [x1; y1; x2; y2; x3; y3; m] ->
        let t = { Triangle.v1 = pt x1 y1; v2 = pt x2 y2; v3 = pt x3 y3 } in
        let m = int_of_string m in
        let bb = Triangle.tri_bounding_box t in
        let x0 = int_of_z bb.tl.px - m and y0 = int_of_z bb.tl.py - m in
        let x1 = int_of_z bb.tl.px + int_of_z bb.sz.sw + m and y1 = int_of_z bb.tl.py + int_of_z bb.sz.sh + m in
        let b = Buffer.create 256 in
        for y = y0 to y1 - 1 do
          if y > y0 then Buffer.add_char b '/';
          for x = x0 to x1 - 1 do
            Buffer.add_string b (b_out (Triangle.tri_contains t { px = z_of_int x; py = z_of_int y }))
          done
        done;
        Buffer.contents b
    | _ -> "BAD-ARGS");
  register "tri_contains" (function
    | [x1; y1; x2; y2; x3; y3; qx; qy] ->
        let t = { Triangle.v1 = pt x1 y1; v2 = pt x2 y2; v3 = pt x3 y3 } in
        b_out (Triangle.tri_contains t (pt qx qy))
    | _ -> "BAD-ARGS")
