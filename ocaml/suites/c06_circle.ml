(* C06/C01(b) (rectangle, circle, ellipse part): styled draw() as pixel map, pixels() as list,
   fill_area / stroke_area / styled bounding box *)
open Egutil
open Geometry
open Style
open Circle
open Ellipse
open Styledrect

let pt x y = { px = z_in x; py = z_in y }
let spt p = z_out p.px ^ " " ^ z_out p.py
let src r = spt r.tl ^ " " ^ z_out r.sz.sw ^ " " ^ z_out r.sz.sh
let scirc c = spt c.c_tl ^ " " ^ z_out c.c_d
let sell e = spt e.e_tl ^ " " ^ z_out e.e_sz.sw ^ " " ^ z_out e.e_sz.sh

(* colour tags: stroke = 1, fill = 2 (the harness uses Gray8 with these luma values) *)
let style_of w al stroke fill =
  { fill_color = (if fill = "1" then Some (z_of_int 2) else None);
    stroke_color = (if stroke = "1" then Some (z_of_int 1) else None);
    stroke_width = z_in w;
    stroke_alignment = (match al with "0" -> Inside | "1" -> Center | _ -> Outside);
    stroke_kind = Solid }

(* the harness targets have the bounding box (-200,-200) 500x500; later writes win *)
let in_bb x y = x >= -200 && x < 300 && y >= -200 && y < 300

let map_of_calls (calls : (rect * BinNums.coq_Z) list) : string =
  let h = Hashtbl.create 256 in
  Stdlib.List.iter (fun (r, c) ->
    let x0 = int_of_z r.tl.px and y0 = int_of_z r.tl.py and w = int_of_z r.sz.sw and hh = int_of_z r.sz.sh in
    for y = y0 to y0 + hh - 1 do
      for x = x0 to x0 + w - 1 do
        if in_bb x y then Hashtbl.replace h (y, x) (int_of_z c)
      done
    done) calls;
  let l = Hashtbl.fold (fun k v acc -> (k, v) :: acc) h [] in
  let l = Stdlib.List.sort compare l in
  Stdlib.String.concat "," (Stdlib.List.map (fun ((y, x), c) -> Printf.sprintf "%d:%d:%d" x y c) l)

let pix_out l = list_out (fun (p, c) -> z_out p.px ^ ":" ^ z_out p.py ^ ":" ^ z_out c) l

let init () =
  register "circ_styled" (function
    | [x; y; d; w; al; stroke; fill] ->
        let c = { c_tl = pt x y; c_d = z_in d } and st = style_of w al stroke fill in
        let m = map_of_calls (circle_draw_styled c st) in
        "SBB " ^ src (circle_styled_bbox c st) ^ " SA " ^ scirc (circle_stroke_area c st)
        ^ " FA " ^ scirc (circle_fill_area c st)
        ^ " DRAW " ^ m ^ " DRAWI " ^ m ^ " PIX " ^ pix_out (circle_styled_pixels c st)
    | _ -> "BAD-ARGS");
  (* stroke_area()/fill_area() of three fixed shapes for one stroke width / alignment: exercises the saturating operations
     on the stroke-width path (saturating_add(1)/2, saturating_as, saturating_add/sub of 2*offset) at the u32/i32 edges *)
  register "style_split" (function
    | [w; al] ->
        let st = style_of w al "1" "1" in
        let r = { tl = pt "5" "7"; sz = { sw = z_in "10"; sh = z_in "4" } }
        and c = { c_tl = pt "3" "3"; c_d = z_in "9" }
        and e = { e_tl = pt "2" "4"; e_sz = { sw = z_in "6"; sh = z_in "11" } } in
        "R " ^ src (rect_stroke_area r st) ^ " / " ^ src (rect_fill_area r st)
        ^ " C " ^ scirc (circle_stroke_area c st) ^ " / " ^ scirc (circle_fill_area c st)
        ^ " E " ^ sell (ellipse_stroke_area e st) ^ " / " ^ sell (ellipse_fill_area e st)
        ^ " SBB " ^ src (rect_styled_bbox r st)
    | _ -> "BAD-ARGS");
  register "ell_styled" (function
    | [x; y; ew; eh; w; al; stroke; fill] ->
        let e = { e_tl = pt x y; e_sz = { sw = z_in ew; sh = z_in eh } } and st = style_of w al stroke fill in
        let m = map_of_calls (ellipse_draw_styled e st) in
        "SBB " ^ src (ellipse_styled_bbox e st) ^ " SA " ^ sell (ellipse_stroke_area e st)
        ^ " FA " ^ sell (ellipse_fill_area e st)
        ^ " DRAW " ^ m ^ " DRAWI " ^ m ^ " PIX " ^ pix_out (ellipse_styled_pixels e st)
    | _ -> "BAD-ARGS");
  register "rect_styled" (function
    | [x; y; rw; rh; w; al; stroke; fill] ->
        let r = { tl = pt x y; sz = { sw = z_in rw; sh = z_in rh } } and st = style_of w al stroke fill in
        let m = map_of_calls (rect_draw_styled r st) in
        "SBB " ^ src (rect_styled_bbox r st) ^ " SA " ^ src (rect_stroke_area r st)
        ^ " FA " ^ src (rect_fill_area r st)
        ^ " DRAW " ^ m ^ " DRAWI " ^ m ^ " PIX " ^ pix_out (rect_styled_pixels r st)
    | _ -> "BAD-ARGS")
