(* C06 / C01(b) (RoundedRectangle share): styled drawing on the extracted model.
   rr_styled  <12 rrect args> fill stroke width align  bbx bby bbw bbh
   fill/stroke: 0 = none, otherwise the colour tag; align: 0 Inside, 1 Center, 2 Outside. *)
open Egutil
open Geometry
open Style
open Rrect

let style_in fill stroke width align =
  let col s = if s = "0" then None else Some (z_in s) in
  { fill_color = col fill; stroke_color = col stroke; stroke_width = z_in width;
    stroke_alignment = (match align with "0" -> Inside | "1" -> Center | _ -> Outside);
    stroke_kind = Solid }

let smap (ws : (point * BinNums.coq_Z) list) : string =
  let t = Hashtbl.create 64 in
  Stdlib.List.iter (fun (p, c) -> Hashtbl.replace t (int_of_z p.py, int_of_z p.px) (int_of_z c)) ws;
  let l = Hashtbl.fold (fun k v acc -> (k, v) :: acc) t [] in
  let l = Stdlib.List.sort compare l in
  Stdlib.String.concat "," (Stdlib.List.map (fun ((y, x), c) -> Printf.sprintf "%d:%d:%d" x y c) l)

let init () =
  register "rr_k06" (fun a ->
    match C05_rrect.rr_in a with
    | (r, [fill; stroke; width; align]) -> b_out (coq_K06_rrect_fill_outside_stroke r (style_in fill stroke width align))
    | _ -> "BAD-ARGS");
  register "rr_styled" (fun a ->
    match C05_rrect.rr_in a with
    | (r, [fill; stroke; width; align; bx; by; bw; bh]) ->
        let st = style_in fill stroke width align in
        let bb = { tl = { px = z_in bx; py = z_in by }; sz = { sw = z_in bw; sh = z_in bh } } in
        let m = smap (writes_of_calls bb (rr_draw r st)) in
        let px = rr_pixels r st in
        let ps = list_out (fun (p, c) -> z_out p.px ^ ":" ^ z_out p.py ^ ":" ^ z_out c) px in
        let pm = smap (writes_of_pixels bb px) in
        let same x = if x = m then "=" else x in
        "SA " ^ C05_rrect.srr (rr_stroke_area r st) ^ " FA " ^ C05_rrect.srr (rr_fill_area r st)
        ^ " BB " ^ C05_rrect.srect (rr_styled_bounding_box r st)
        ^ " I " ^ m ^ " N " ^ same m ^ " P " ^ same ps ^ " PM " ^ same pm
    | _ -> "BAD-ARGS")
