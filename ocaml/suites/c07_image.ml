(* C07 image part: Image::translate (model side) *)
open Egutil
open Geometry
open Imageraw

let init () =
  register "img_translate" (function
    | bpp :: alt :: w :: h :: len :: seed :: ox :: oy :: tx :: ty :: mut_ :: bx :: by :: bw :: bh :: nsub :: rest -> (
        match C09.mk bpp alt w h len seed with
        | Datatypes.Coq_inr n -> "err " ^ z_out n
        | Datatypes.Coq_inl img ->
            let ns = int_of_string nsub in
            let d = C09.subs (Raw img) (C09.take (4 * ns) rest) in
            let i0 = image_new d (C09.pt ox oy) in
            let im = if mut_ = "1" then image_translate_mut i0 (C09.pt tx ty) else image_translate i0 (C09.pt tx ty) in
            let bb = C09.rc bx by bw bh in
            let calls = image_draw im in
            "BOX " ^ C09.src (image_box im) ^ " MAP " ^ C09.map_string bb calls ^ " LOG "
            ^ Stdlib.String.concat ";"
                (Stdlib.List.map (fun c -> match c with FillContiguous (a, _) -> C09.src a) calls))
    | _ -> "BAD-ARGS")
