(* C07 (join part): the thick stroke join machinery, Model/Join.v.
   join_poly_*  are observable through the public API (thick polylines);
   joinh_*      need the verif hook (line_extents, linear_equation, line_intersection, line_join, thick_segment). *)
open Egutil
open Geometry

let pt x y = { px = z_in x; py = z_in y }
let ln a b c d = { Line.l_start = pt a b; Line.l_end = pt c d }
let cpt p = z_out p.px ^ ":" ^ z_out p.py
let sline (l : Line.line) = cpt l.Line.l_start ^ " " ^ cpt l.Line.l_end
let srect r = z_out r.tl.px ^ " " ^ z_out r.tl.py ^ " " ^ z_out r.sz.sw ^ " " ^ z_out r.sz.sh
let so_in = function "1" -> Thickline.SOLeft | "2" -> Thickline.SORight | _ -> Thickline.SONone
let side_out = function Thickline.SLeft -> "0" | Thickline.SRight -> "1"

let rec pts_in = function
  | x :: y :: rest -> pt x y :: pts_in rest
  | _ -> []

let sjoin (j : Join.line_join) =
  let (k, s) = match j.Join.lj_kind with
    | Join.JMiter -> ("0", "2")
    | Join.JBevel o -> ("1", side_out o)
    | Join.JDegenerate o -> ("2", side_out o)
    | Join.JColinear -> ("3", "2")
    | Join.JStart -> ("4", "2")
    | Join.JEnd -> ("5", "2") in
  k ^ " " ^ s ^ " " ^ cpt j.Join.first_edge_end.Join.ec_left ^ " " ^ cpt j.Join.first_edge_end.Join.ec_right
  ^ " " ^ cpt j.Join.second_edge_start.Join.ec_left ^ " " ^ cpt j.Join.second_edge_start.Join.ec_right

let fuel f = function Some x -> f x | None -> "FUEL"

let init () =
  (* ---- public API level ---- *)
  (* join_poly_pixels w tx ty x1 y1 x2 y2 ... : Polyline(..).translate(t).into_styled(stroke w).pixels() *)
  register "join_poly_pixels" (function
    | w :: tx :: ty :: rest ->
        fuel (list_out cpt) (Join.poly_thick_points (pts_in rest) (pt tx ty) (z_in w))
    | _ -> "BAD-ARGS");
  (* the fill_solid rectangles of draw() (polyline not translated) *)
  register "join_poly_rects" (function
    | w :: rest -> fuel (list_out (fun r -> z_out r.tl.px ^ ":" ^ z_out r.tl.py ^ ":" ^ z_out r.sz.sw)) (Join.poly_thick_rects (pts_in rest) (z_in w))
    | _ -> "BAD-ARGS");
  register "join_poly_bbox" (function
    | w :: rest -> fuel srect (Join.poly_thick_bounding_box (pts_in rest) (z_in w))
    | _ -> "BAD-ARGS");
  (* join_tri_pixels w align fill x1 y1 x2 y2 x3 y3 : pixels() of the styled triangle, x:y:c (1 stroke, 2 fill) *)
  let al_in = function "0" -> Style.Inside | "1" -> Style.Center | _ -> Style.Outside in
  let fill_in f = if f = "1" then Some (z_of_int 2) else None in
  register "join_tri_pixels" (function
    | [w; al; fl; a; b; c; d; e; f] ->
        fuel (list_out (fun (p, c) -> cpt p ^ ":" ^ z_out c))
          (JoinTri.jt_pixels ((pt a b, pt c d), pt e f) (z_in w) (al_in al) (fill_in fl))
    | _ -> "BAD-ARGS");
  register "join_tri_rects" (function
    | [w; al; fl; a; b; c; d; e; f] ->
        fuel (list_out (fun (r, c) -> z_out r.tl.px ^ ":" ^ z_out r.tl.py ^ ":" ^ z_out r.sz.sw ^ ":" ^ z_out c))
          (JoinTri.jt_draw ((pt a b, pt c d), pt e f) (z_in w) (al_in al) (fill_in fl))
    | _ -> "BAD-ARGS");
  register "join_tri_bbox" (function
    | [w; al; _; a; b; c; d; e; f] ->
        fuel srect (JoinTri.jt_styled_bounding_box ((pt a b, pt c d), pt e f) (z_in w) (al_in al))
    | _ -> "BAD-ARGS");
  (* join_poly_hyp w dx dy x1 y1 ...: do the hypotheses of the composition theorems (Model/Join.v poly_hyps) hold?
     the implementation side answers 1 for every input in the range the generator draws from *)
  register "join_poly_hyp" (function
    | w :: dx :: dy :: rest -> b_out (Join.poly_hyps (pts_in rest) (z_in w) (pt dx dy))
    | _ -> "BAD-ARGS");
  (* join_tri_fused w align fill x1 y1 x2 y2 x3 y3: pixels() and draw() see the same sequence of lines (Model/JoinTri.v tri_fused) *)
  register "join_tri_fused" (function
    | [w; al; fl; a; b; c; d; e; f] ->
        b_out (JoinTri.tri_fused ((pt a b, pt c d), pt e f) (z_in w) (al_in al) (fl = "1"))
    | _ -> "BAD-ARGS");
  register "join_tri_hyp" (function
    | [w; al; dx; dy; a; b; c; d; e; f] ->
        b_out (JoinTri.tri_hyps ((pt a b, pt c d), pt e f) (z_in w) (al_in al) (pt dx dy))
    | _ -> "BAD-ARGS");
  (* ---- hook level ---- *)
  register "joinh_extents" (function
    | [a; b; c; d; w; so] ->
        fuel (fun (l, r) -> sline l ^ " " ^ sline r) (Thickline.extents (ln a b c d) (z_in w) (so_in so))
    | _ -> "BAD-ARGS");
  register "joinh_lineq" (function
    | [a; b; c; d; x; y] ->
        let e = Join.le_from_line (ln a b c d) in
        cpt e.Join.normal_vector ^ " " ^ z_out e.Join.origin_distance ^ " " ^ z_out (Join.le_distance e (pt x y))
        ^ " " ^ b_out (Join.le_check_side e (pt x y) Thickline.SLeft) ^ b_out (Join.le_check_side e (pt x y) Thickline.SRight)
    | _ -> "BAD-ARGS");
  register "joinh_isect" (function
    | [a; b; c; d; e; f; g; h] ->
        let ip = Join.ip_from_lines (ln a b c d) (ln e f g h) in
        (match Join.ip_intersection ip with
         | Join.IPoint (p, o) -> cpt p ^ " " ^ side_out o
         | Join.IColinear -> "colinear")
        ^ " " ^ b_out (Join.nearly_colinear_has_error ip)
    | _ -> "BAD-ARGS");
  register "joinh_join" (function
    | [which; a; b; c; d; e; f; w; so] ->
        let so = so_in so and w = z_in w in
        fuel sjoin (match which with
          | "0" -> Join.lj_start (pt a b) (pt c d) w so
          | "1" -> Join.lj_end (pt a b) (pt c d) w so
          | _ -> Join.lj_from_points (pt a b) (pt c d) (pt e f) w so)
    | _ -> "BAD-ARGS");
  register "joinh_segment" (function
    | [a; b; c; d; e; f; g; h; hp; hn; w; so; y] ->
        let so = so_in so and w = z_in w in
        let p0 = pt a b and p1 = pt c d and p2 = pt e f and p3 = pt g h in
        let sj = if hp = "1" then Join.lj_from_points p0 p1 p2 w so else Join.lj_start p1 p2 w so in
        let ej = if hn = "1" then Join.lj_from_points p1 p2 p3 w so else Join.lj_end p1 p2 w so in
        (match sj, ej with
         | Some sj, Some ej ->
             let t = { Join.ts_start_join = sj; Join.ts_end_join = ej } in
             let s = Join.ts_intersection t (z_in y) in
             srect (Join.edges_bounding_box t) ^ " "
             ^ (if Join.sl_is_empty s then "empty" else z_out s.Join.sl_x0 ^ " " ^ z_out s.Join.sl_x1)
         | _ -> "FUEL")
    | _ -> "BAD-ARGS")
