(* C08: verdicts of the f_ok predicates of coq/Model/Overflow.v ("OK" = no site panics) *)
open Egutil
open Geometry
open Overflow

let pt x y = { px = z_in x; py = z_in y }
let sz w h = { sw = z_in w; sh = z_in h }
let rc x y w h = { tl = pt x y; sz = sz w h }
let ln a b c d = { Line.l_start = pt a b; Line.l_end = pt c d }
let v b = if b then "OK" else "PANIC"
let axo = function "0" -> AXLeft | "1" -> AXCenter | _ -> AXRight
let ayo = function "0" -> AYTop | "1" -> AYCenter | _ -> AYBottom
(* usize::MAX of the harness host (64 bit) *)
let um = um64

let init () =
  register "ok_point" (function
    | [op; ax; ay; bx; by] -> (
        let p = pt ax ay and q = pt bx by and s = sz bx by in
        match op with
        | "add" -> v (point_add_ok p q)
        | "sub" -> v (point_sub_ok p q)
        | "mul" -> v (point_mul_ok p q.px)
        | "div" -> v (point_div_ok p q.px)
        | "neg" -> v (point_neg_ok p)
        | "abs" -> v (point_abs_ok p)
        | "cmul" -> v (point_component_mul_ok p q)
        | "cdiv" -> v (point_component_div_ok p q)
        | "addsize" -> v (point_add_size_ok p s)
        | "subsize" -> v (point_sub_size_ok p s)
        | "addassign" -> v (point_add_ok p q && point_sub_ok (padd p q) q)
        | _ -> "BAD-OP")
    | _ -> "BAD-ARGS");
  register "ok_size" (function
    | [op; aw; ah; bw; bh] -> (
        let a = sz aw ah and b = sz bw bh in
        match op with
        | "add" -> v (size_add_ok a b)
        | "sub" -> v (size_sub_ok a b)
        | "mul" -> v (size_mul_ok a b.sw)
        | "div" -> v (size_div_ok a b.sw)
        | "cmul" -> v (size_component_mul_ok a b)
        | "cdiv" -> v (size_component_div_ok a b)
        | "sat" -> v (size_saturating_ok a b)
        | _ -> "BAD-OP")
    | _ -> "BAD-ARGS");
  register "ok_rect" (function
    | op :: x :: y :: w :: h :: rest -> (
        let r = rc x y w h in
        match op, rest with
        | "br", [] -> v (bottom_right_ok r)
        | "center", [] -> v (center_ok r)
        | "withcenter", [] -> v (with_center_ok r.tl r.sz)
        | "corners", [] -> v (with_corners_ok (pt x y) (pt w h))
        | "contains", [qx; qy] -> v (contains_ok r (pt qx qy))
        | "inter", [x2; y2; w2; h2] -> v (intersection_ok r (rc x2 y2 w2 h2))
        | "envelope", [x2; y2; w2; h2] -> v (envelope_ok r (rc x2 y2 w2 h2))
        | "anchor", [a; b] -> v (anchor_point_ok r { ax = axo a; ay = ayo b })
        | "resized", [nw; nh; a; b] -> v (resized_ok r (sz nw nh) { ax = axo a; ay = ayo b })
        | "offset", [n] -> v (offset_ok r (z_in n))
        | "rows", [] -> v (rows_columns_ok r)
        | "styledbb", [sw_; al] ->
            let st = { Style.fill_color = None; Style.stroke_color = Some (z_in "1"); Style.stroke_width = z_in sw_;
                       Style.stroke_alignment = (match al with "0" -> Style.Inside | "1" -> Style.Center | _ -> Style.Outside);
                       Style.stroke_kind = Style.Solid } in
            v (rect_stroke_area_ok st r)
        | _ -> "BAD-OP")
    | _ -> "BAD-ARGS");
  register "ok_circle_contains" (function
    | [x; y; d; qx; qy] -> v (circle_contains_ok (pt x y) (z_in d) (pt qx qy))
    | _ -> "BAD-ARGS");
  register "ok_ellipse_contains" (function
    | [x; y; w; h; qx; qy] -> v (ellipse_contains_ok (pt x y) (sz w h) (pt qx qy))
    | _ -> "BAD-ARGS");
  register "ok_confine" (function
    | [w; h; a1; a2; b1; b2; c1; c2; d1; d2] ->
        v (confine_ok { r_tl = sz a1 a2; r_tr = sz b1 b2; r_br = sz c1 c2; r_bl = sz d1 d2 } (sz w h))
    | _ -> "BAD-ARGS");
  register "ok_line_points" (function
    | [a; b; c; d] -> v (line_points_ok (ln a b c d))
    | _ -> "BAD-ARGS");
  register "ok_line_misc" (function
    | [op; a; b; c; d] -> (
        match op with
        | "delta" -> v (line_delta_ok (ln a b c d))
        | "midpoint" -> v (midpoint_ok (ln a b c d))
        | _ -> "BAD-OP")
    | _ -> "BAD-ARGS");
  register "ok_thick_new" (function
    | [a; b; c; d; w] -> v (styled_line_new_ok (ln a b c d) (z_in w))
    | _ -> "BAD-ARGS");
  register "ok_tri_contains" (function
    | [a; b; c; d; e; f; qx; qy] -> v (triangle_contains_ok (pt a b) (pt c d) (pt e f) (pt qx qy))
    | _ -> "BAD-ARGS");
  let bo b ch bl = baseline_offset (match b with "0" -> BTop | "1" -> BBottom | "2" -> BMiddle | _ -> BAlphabetic) (z_in ch) (z_in bl) in
  register "ok_measure" (function
    | [x; y; b; n; ul; cw; ch; sp; bl; uo; uh] ->
        v (measure_string_ok (pt x y) (bo b ch bl) (z_in cw) (z_in sp) (z_in n) (z_in uo) (z_in uh) (ul = "1"))
    | _ -> "BAD-ARGS");
  register "ok_draw_plain" (function
    | [x; y; b; n; ul; cw; ch; sp; bl; uo; uh] ->
        v (draw_string_plain_ok (pt x y) (bo b ch bl) (z_in cw) (z_in sp) (z_in n))
    | _ -> "BAD-ARGS");
  register "ok_linear_equation" (function
    | [a; b; c; d; x; y] -> let l = ln a b c d in v (from_line_ok l && le_point_distance_ok l (pt x y))
    | _ -> "BAD-ARGS");
  register "ok_line_intersection" (function
    | [a; b; c; d; e; f; g; h] ->
        let l1 = ln a b c d and l2 = ln e f g h in
        v (from_lines_ok l1 l2 && ip_intersection_ok l1 l2 && nearly_colinear_ok l1 l2)
    | _ -> "BAD-ARGS");
  let so = function "1" -> Thickline.SOLeft | "2" -> Thickline.SORight | _ -> Thickline.SONone in
  register "ok_index" (function [k] -> v (point_index_ok (z_in k)) | _ -> "BAD-ARGS");
  register "ok_from_slice" (function [k] -> v (tri_from_slice_ok (z_in k)) | _ -> "BAD-ARGS");
  register "ok_new_const" (function
    | [w; h; bpp; len] -> v (image_new_const_ok um (z_in w) (z_in h) (z_in bpp) (z_in len))
    | _ -> "BAD-ARGS");
  register "ok_extents" (function
    | [a; b; c; d; w; o] -> v (OverflowWalk.extents_ok (ln a b c d) (z_in w) (so o))
    | _ -> "BAD-ARGS");
  register "ok_join" (function
    | [a; b; c; d; e; f; w; o] -> v (OverflowWalk.join_from_points_ok (pt a b) (pt c d) (pt e f) (z_in w) (so o))
    | _ -> "BAD-ARGS");
  register "ok_thick_points" (function
    | [a; b; c; d; w] -> v (OverflowWalk.styled_line_pixels_ok (ln a b c d) (z_in w))
    | _ -> "BAD-ARGS");
  register "ok_line_height" (function
    | [k; x; base] -> v (line_height_ok (k = "1") (z_in x) (z_in base))
    | _ -> "BAD-ARGS");
  register "ok_image_new" (function
    | [w; h; bpp] -> v (image_new_ok um (z_in w) (z_in h) (z_in bpp))
    | _ -> "BAD-ARGS");
  register "ok_sub_image" (function
    | [bpp; x; y; w; h] -> v (image_draw_sub_ok um (z_in "16") (z_in "8") (z_in bpp) (z_in x) (z_in y) (z_in w) (z_in h))
    | _ -> "BAD-ARGS")
