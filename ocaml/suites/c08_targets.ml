(* C08 part "targets": the site predicates of coq/Model/TargetOk.v evaluated on a case line of c03.ml:
   tok <kind> <bb> <nad> <adapters innermost first> <nops> <ops>  ->  1 when building the stack and lowering
   every operation stays inside i32 / u32 / 32-bit usize *)
open Egutil
open Geometry
open Target
open TargetOk

let tok args =
  match args with
  | _ :: x :: y :: w :: h :: nad :: t ->
      let bb = C03.rc x y w h in
      let (ads_inner_first, t) = C03.parse_ads (int_of_string nad) t [] in
      (match t with
       | nops :: t ->
           let (ops, _) = C03.parse_ops (int_of_string nops) t [] in
           let st = Stdlib.List.rev ads_inner_first in
           b_out (build_ok st bb && Stdlib.List.for_all (fun op -> stack_ok st bb op) ops)
       | _ -> "BAD-ARGS")
  | _ -> "BAD-ARGS"

let init () = register "tok" tok
