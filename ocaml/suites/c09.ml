(* C09: ImageRaw / SubImage / Image (model side of the correspondence) *)
open Egutil
open Geometry
open Imageraw

let pt x y = { px = z_in x; py = z_in y }
let rc x y w h = { tl = pt x y; sz = { sw = z_in w; sh = z_in h } }
let src r = z_out r.tl.px ^ " " ^ z_out r.tl.py ^ " " ^ z_out r.sz.sw ^ " " ^ z_out r.sz.sh

(* deterministic test bytes, the same function as harness/src/suites/c09.rs `byte` *)
let byte (seed : int) (i : int) : int =
  let x = (seed * 7919 + i * 104729 + 12345) land 0x7FFFFFFF in
  let x = (x * 1103515245 + 12345) land 0x7FFFFFFF in
  (x lsr 16) land 0xFF

let data seed len = Stdlib.List.init len (fun i -> z_of_int (byte seed i))

let mk bpp alt w h len seed =
  raw_new (z_in bpp) (alt = "1") (data (int_of_string seed) (int_of_string len)) { sw = z_in w; sh = z_in h }

let rec subs d = function
  | x :: y :: w :: h :: rest -> subs (sub_image d (rc x y w h)) rest
  | _ -> d

let rec take n = function [] -> [] | x :: t -> if n <= 0 then [] else x :: take (n - 1) t

let rec drop n l = if n <= 0 then l else match l with [] -> [] | _ :: t -> drop (n - 1) t

(* the pixel map the calls leave on a target with box bb: replay the writes in order, print sorted by (y,x) *)
let map_string bb calls =
  let tbl = Hashtbl.create 64 in
  Stdlib.List.iter
    (fun c ->
      Stdlib.List.iter
        (fun (p, v) -> Hashtbl.replace tbl (int_of_z p.py, int_of_z p.px) (int_of_z v))
        (call_writes bb c))
    calls;
  let items = Stdlib.List.sort compare (Hashtbl.fold (fun k v acc -> (k, v) :: acc) tbl []) in
  Stdlib.String.concat "," (Stdlib.List.map (fun ((y, x), v) -> Printf.sprintf "%d:%d:%d" x y v) items)

let init () =
  register "img_new" (function
    | [bpp; alt; w; h; len] -> (
        match mk bpp alt w h len "0" with Datatypes.Coq_inl _ -> "ok" | Datatypes.Coq_inr n -> "err " ^ z_out n)
    | _ -> "BAD-ARGS");
  register "img_new_const" (function
    | [bpp; alt; w; h; len; seed] -> (
        match
          raw_new_const (z_in bpp) (alt = "1") (data (int_of_string seed) (int_of_string len)) { sw = z_in w; sh = z_in h }
        with
        | None -> "panic"
        | Some img ->
            let s = img.ir_size in
            "ok " ^ z_out s.sw ^ " " ^ z_out s.sh ^ " "
            ^ opt_out z_out (raw_pixel img { px = z_of_int 0; py = z_of_int 0 })
            ^ " "
            ^ opt_out z_out (raw_pixel img { px = Geometry.(z_in w |> fun v -> BinInt.Z.sub v (z_of_int 1)); py = BinInt.Z.sub (z_in h) (z_of_int 1) }))
    | _ -> "BAD-ARGS");
  register "img_pixels" (function
    | [bpp; alt; w; h; len; seed] -> (
        match mk bpp alt w h len seed with
        | Datatypes.Coq_inr n -> "err " ^ z_out n
        | Datatypes.Coq_inl img ->
            let wi = int_of_string w and hi = int_of_string h in
            let out = ref [] in
            for y = -1 to hi do
              for x = -1 to wi do
                out := opt_out z_out (raw_pixel img { px = z_of_int x; py = z_of_int y }) :: !out
              done
            done;
            Stdlib.String.concat "," (Stdlib.List.rev !out))
    | _ -> "BAD-ARGS");
  register "img_draw" (function
    | bpp :: alt :: w :: h :: len :: seed :: mode :: ox :: oy :: tk :: tx :: ty :: tw :: th :: nsub :: rest -> (
        match mk bpp alt w h len seed with
        | Datatypes.Coq_inr n -> "err " ^ z_out n
        | Datatypes.Coq_inl img ->
            let ns = int_of_string nsub in
            let d = subs (Raw img) (take (4 * ns) rest) in
            let im = if mode = "1" then image_with_center d (pt ox oy) else image_new d (pt ox oy) in
            let bb = rc tx ty tw th in
            let calls, box =
              if mode = "2" then
                (* ImageDrawable::draw_sub_image(target, area) called directly *)
                match drop (4 * ns) rest with
                | [x; y; w; h] -> (d_draw_sub_image d (rc x y w h), rect_zero)
                | _ -> failwith "BAD-ARGS"
              else (image_draw im, image_box im)
            in
            let smap = map_string bb calls in
            let area_n a = int_of_z a.sz.sw * int_of_z a.sz.sh in
            let log =
              if tk = "0" then ""
              else
                " LOG "
                ^ Stdlib.String.concat ";"
                    (Stdlib.List.map
                       (fun c ->
                         match c with
                         | FillContiguous (a, cs) ->
                             src a ^ " " ^ string_of_int (min (Stdlib.List.length cs) (area_n a)))
                       calls)
            in
            let pulled =
              if tk <> "2" then ""
              else
                " PULLED "
                ^ Stdlib.String.concat ","
                    (Stdlib.List.map
                       (fun c ->
                         match c with
                         | FillContiguous (a, cs) ->
                             let n = area_n a in
                             string_of_int (min (int_of_nat (call_stream_len c)) (n + 4 * n + 64)))
                       calls)
            in
            let s = d_size d in
            "SZ " ^ z_out s.sw ^ " " ^ z_out s.sh ^ " BOX " ^ src box ^ " MAP " ^ smap ^ log ^ pulled)
    | _ -> "BAD-ARGS")
