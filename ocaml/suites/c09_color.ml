(* C09 colour part: ImageRaw<C, O> for the built-in colour types; model = Imageraw raw values through Colormodel.from_raw,
   printed as the raw storage value of the colour (to_raw), which is what the harness observes *)
open Egutil
open Geometry
open Imageraw

let init () =
  register "img_typed" (function
    | [ty; alt; w; h; seed; ox; oy] ->
        C12.with_row ty (fun t ->
            let bpp = int_of_z (Colormodel.bpp t) in
            let wi = int_of_string w and hi = int_of_string h in
            let len = (wi * bpp + 7) / 8 * hi in
            match C09.mk (string_of_int bpp) alt w h (string_of_int len) seed with
            | Datatypes.Coq_inr n -> "err " ^ z_out n
            | Datatypes.Coq_inl img ->
                let obs v = Colormodel.to_raw t (Colormodel.from_raw t v) in
                let out = ref [] in
                for y = -1 to hi do
                  for x = -1 to wi do
                    out := opt_out (fun v -> z_out (obs v)) (raw_pixel img { px = z_of_int x; py = z_of_int y }) :: !out
                  done
                done;
                let im = image_new (Raw img) (C09.pt ox oy) in
                let calls =
                  Stdlib.List.map
                    (fun c -> match c with FillContiguous (a, cs) -> FillContiguous (a, Stdlib.List.map obs cs))
                    (image_draw im)
                in
                let bb = { tl = { px = BinInt.Z.sub (z_in ox) (z_of_int 1); py = z_in oy }; sz = { sw = z_in w; sh = z_in h } } in
                Stdlib.String.concat "," (Stdlib.List.rev !out) ^ " MAP " ^ C09.map_string bb calls)
    | _ -> "BAD-ARGS")
