(* C10: Framebuffer (model side).  The op tokens and the background pattern are those of harness/src/suites/c10.rs *)
open Egutil
open Rawdata
open Framebuffer

(* the harness target has a 64-bit usize: run the usize64 instance of the model *)
let fb_pixel = Framebuffer.fb_pixel Rawdata.usize64
let image_draw_colors = Framebuffer.image_draw_colors Rawdata.usize64

let ty = function
  | "1" -> U1 | "2" -> U2 | "4" -> U4 | "8" -> U8 | "16" -> U16 | "24" -> U24 | "32" -> U32
  | _ -> failwith "bpp"
let bytes_out l = if l = [] then "-" else list_out z_out l

let split_on c s = Stdlib.String.split_on_char c s
let ints s = Stdlib.List.map int_of_string (split_on ':' s)

(* background: byte i = (a * i + b) mod 256 *)
let preset n a b = Stdlib.List.init n (fun i -> z_of_int ((a * i + b) mod 256))

let rect x y w h = { Geometry.tl = { Geometry.px = z_of_int x; py = z_of_int y };
                     sz = { Geometry.sw = z_of_int w; sh = z_of_int h } }

let apply cfg data op =
  let k = Stdlib.String.sub op 0 1 in
  let rest = Stdlib.String.sub op 2 (Stdlib.String.length op - 2) in
  let t = fb_t cfg in
  let v_of n = raw_new t (z_of_int n) in
  let pt x y = (z_of_int x, z_of_int y) in
  match k with
  | "S" -> (match ints rest with [x; y; v] -> fb_set_pixel cfg data (pt x y) (v_of v) | _ -> failwith "S")
  | "D" ->
      let px = if rest = "" then [] else
        Stdlib.List.map (fun tok -> match ints tok with [x; y; v] -> (pt x y, v_of v) | _ -> failwith "D") (split_on ';' rest) in
      fb_draw_iter cfg data px
  (* the inherited DrawTarget methods: the model's trait defaults (Model/Framebuffer.v) *)
  | "F" -> (match ints rest with
            | [x; y; w; h; v] -> fb_fill_solid cfg data (rect x y w h) (v_of v)
            | _ -> failwith "F")
  | "G" -> (match split_on '/' rest with
            | [r; cols] ->
                (match ints r with
                 | [x; y; w; h] ->
                     let cs = if cols = "" then [] else Stdlib.List.map (fun s -> v_of (int_of_string s)) (split_on ',' cols) in
                     fb_fill_contiguous cfg data (rect x y w h) (Target.Fin cs)
                 | _ -> failwith "G")
            | _ -> failwith "G")
  | "C" -> (match ints rest with [v] -> fb_clear cfg data (v_of v) | _ -> failwith "C")
  | _ -> failwith "op"

let setup bpp alt w h e a b =
  let cfg = { fb_t = ty bpp; fb_alt = (alt = "1"); fb_w = z_in w; fb_h = z_in h } in
  let n = int_of_z (fb_buffer_size cfg) + int_of_string e in
  (cfg, preset n (int_of_string a) (int_of_string b))

let pix_out = function
  | Panic -> "MODEL-PANIC"
  | Pix None -> "n"
  | Pix (Some v) -> z_out v

let init () =
  register "fb_hist" (function
    | bpp :: alt :: w :: h :: e :: a :: b :: ops ->
        let (cfg, data0) = setup bpp alt w h e a b in
        let data = Stdlib.List.fold_left (apply cfg) data0 ops in
        let wi = int_of_string w and hi = int_of_string h in
        let out = ref [] in
        for y = hi downto -1 do
          for x = wi downto -1 do
            out := pix_out (fb_pixel cfg data (z_of_int x, z_of_int y)) :: !out
          done
        done;
        bytes_out data ^ " " ^ Stdlib.String.concat "," !out
    | _ -> "BAD-ARGS");
  register "fb_img" (function
    | [bpp; alt; w; h; e; a; b] ->
        let (cfg, data) = setup bpp alt w h e a b in
        (match fb_as_image cfg data with
         | None -> "MODEL-PANIC"
         | Some im ->
             (match image_draw_colors im with
              | None -> "MODEL-FUEL"
              | Some l -> string_of_int (Stdlib.List.length l) ^ " " ^ bytes_out l))
    | _ -> "BAD-ARGS")
