(* C11: raw pixel load/store and RawDataIterator (model side) *)
open Egutil
open Rawdata

(* the harness target has a 64-bit usize: run the usize64 instance of the model *)
let load = Rawdata.load usize64
let store = Rawdata.store usize64
let iter_list = Rawdata.iter_list usize64
let iter_next = Rawdata.iter_next usize64
let iter_nth = Rawdata.iter_nth usize64

(* decimal parser without the 63-bit limit of OCaml ints (indices up to usize::MAX) *)
let zbig_in (s : string) : BinNums.coq_Z =
  let ten = z_of_int 10 in
  let acc = ref (z_of_int 0) in
  Stdlib.String.iter (fun c ->
      let d = Char.code c - 48 in
      if d < 0 || d > 9 then failwith "zbig_in";
      acc := BinInt.Z.add (BinInt.Z.mul !acc ten) (z_of_int d)) s;
  !acc

let ty = function
  | "1" -> U1 | "2" -> U2 | "4" -> U4 | "8" -> U8 | "16" -> U16 | "24" -> U24 | "32" -> U32
  | _ -> failwith "bpp"
let ord s = s = "1"
let bytes_out l = if l = [] then "-" else list_out z_out l
let hint_out (lo, hi) = z_out lo ^ ":" ^ opt_out z_out hi

let rec split_at n l = if n = 0 then ([], l) else match l with [] -> ([], []) | x :: r -> let (a, b) = split_at (n - 1) r in (x :: a, b)

let init () =
  register "rd_store" (function
    | bpp :: alt :: idx :: v :: bytes ->
        let t = ty bpp and o = ord alt in
        let buf = zs_in bytes in
        let r = raw_new t (zbig_in v) in
        let (buf', ok) = store t o r buf (zbig_in idx) in
        z_out r ^ " " ^ b_out ok ^ " " ^ bytes_out buf' ^ " " ^ opt_out z_out (load t o buf' (zbig_in idx))
    | _ -> "BAD-ARGS");
  (* large buffers given by a rule: byte k = (a * k + b + (k lsr 8) + (k lsr 16)) mod 256 *)
  let big_buf len a b = Stdlib.List.init len (fun k -> z_of_int ((a * k + b + (k lsr 8) + (k lsr 16)) mod 256)) in
  register "rd_big" (function
    | [bpp; alt; len; a; b; idx; v] ->
        let t = ty bpp and o = ord alt in
        let len = int_of_string len in
        let buf = big_buf len (int_of_string a) (int_of_string b) in
        let i = zbig_in idx in
        let one = z_of_int 1 in
        (* idx.wrapping_sub(1) / idx.saturating_add(1) of the harness; idx >= 1 and idx < usize::MAX in the generated cases *)
        let nb bf = opt_out z_out (load t o bf (BinInt.Z.sub i one)) ^ "/" ^ opt_out z_out (load t o bf (BinInt.Z.add i one)) in
        let l0 = opt_out z_out (load t o buf i) in
        let n0 = nb buf in
        let (buf', ok) = store t o (raw_new t (zbig_in v)) buf i in
        let l1 = opt_out z_out (load t o buf' i) in
        let n1 = nb buf' in
        let changed = ref [] in
        Stdlib.List.iteri (fun k (x, y) -> if x <> y then changed := (string_of_int k ^ ":" ^ z_out y) :: !changed)
          (Stdlib.List.combine buf buf');
        let ch = if !changed = [] then "-" else Stdlib.String.concat "," (Stdlib.List.rev !changed) in
        Stdlib.String.concat " " [l0; n0; b_out ok; l1; n1; ch]
    | _ -> "BAD-ARGS");
  register "rd_big_nth" (function
    | [bpp; alt; len; a; b; k1; k2] ->
        let t = ty bpp and o = ord alt in
        let buf = big_buf (int_of_string len) (int_of_string a) (int_of_string b) in
        let s0 = iter_new buf in
        let (x1, s1) = iter_nth t o s0 (zbig_in k1) in
        let (x2, s2) = iter_nth t o s1 (zbig_in k2) in
        hint_out (size_hint t s0) ^ " " ^ opt_out z_out x1 ^ "@" ^ hint_out (size_hint t s1) ^ " "
        ^ opt_out z_out x2 ^ "@" ^ hint_out (size_hint t s2)
    | _ -> "BAD-ARGS");
  register "rd_load" (function
    | bpp :: alt :: idx :: bytes -> opt_out z_out (load (ty bpp) (ord alt) (zs_in bytes) (zbig_in idx))
    | _ -> "BAD-ARGS");
  register "rd_iter" (function
    | bpp :: alt :: bytes ->
        let t = ty bpp and o = ord alt in
        let s = iter_new (zs_in bytes) in
        (match iter_list t o s with
         | Some l -> bytes_out l ^ " " ^ hint_out (size_hint t s)
         | None -> "MODEL-FUEL")
    | _ -> "BAD-ARGS");
  register "rd_ops" (function
    | bpp :: alt :: n :: rest ->
        let t = ty bpp and o = ord alt in
        let (bytes, ops) = split_at (int_of_string n) rest in
        let s = ref (iter_new (zs_in bytes)) in
        let out = ref [hint_out (size_hint t !s)] in
        Stdlib.List.iter (fun op ->
            let (item, s') =
              if op = "N" then iter_next t o !s
              else iter_nth t o !s (zbig_in (Stdlib.String.sub op 1 (Stdlib.String.length op - 1))) in
            s := s';
            out := (opt_out z_out item ^ "@" ^ hint_out (size_hint t !s)) :: !out) ops;
        Stdlib.String.concat " " (Stdlib.List.rev !out)
    | _ -> "BAD-ARGS")
