(* C11: raw pixel load/store and RawDataIterator (model side) *)
open Egutil
open Rawdata

(* decimal parser without the 63-bit limit of OCaml ints (indices up to usize::MAX) *)
let zbig_in (s : string) : BinNums.coq_Z =
  let ten = z_of_int 10 in
  let acc = ref (z_of_int 0) in
  Stdlib.String.iter (fun c ->
      let d = Char.code c - 48 in
      if d < 0 || d > 9 then failwith "zbig_in";
      acc := BinInt.Z.add (BinInt.Z.mul !acc ten) (z_of_int d)) s;
  !acc

let ty = function
  | "1" -> U1 | "2" -> U2 | "4" -> U4 | "8" -> U8 | "16" -> U16 | "24" -> U24 | "32" -> U32
  | _ -> failwith "bpp"
let ord s = s = "1"
let bytes_out l = if l = [] then "-" else list_out z_out l
let hint_out (lo, hi) = z_out lo ^ ":" ^ opt_out z_out hi

let rec split_at n l = if n = 0 then ([], l) else match l with [] -> ([], []) | x :: r -> let (a, b) = split_at (n - 1) r in (x :: a, b)

let init () =
  register "rd_store" (function
    | bpp :: alt :: idx :: v :: bytes ->
        let t = ty bpp and o = ord alt in
        let buf = zs_in bytes in
        let (buf', ok) = store t o (raw_new t (zbig_in v)) buf (zbig_in idx) in
        b_out ok ^ " " ^ bytes_out buf' ^ " " ^ opt_out z_out (load t o buf' (zbig_in idx))
    | _ -> "BAD-ARGS");
  register "rd_load" (function
    | bpp :: alt :: idx :: bytes -> opt_out z_out (load (ty bpp) (ord alt) (zs_in bytes) (zbig_in idx))
    | _ -> "BAD-ARGS");
  register "rd_iter" (function
    | bpp :: alt :: bytes ->
        let t = ty bpp and o = ord alt in
        let s = iter_new (zs_in bytes) in
        (match iter_list t o s with
         | Some l -> bytes_out l ^ " " ^ hint_out (size_hint t s)
         | None -> "MODEL-FUEL")
    | _ -> "BAD-ARGS");
  register "rd_ops" (function
    | bpp :: alt :: n :: rest ->
        let t = ty bpp and o = ord alt in
        let (bytes, ops) = split_at (int_of_string n) rest in
        let s = ref (iter_new (zs_in bytes)) in
        let out = ref [hint_out (size_hint t !s)] in
        Stdlib.List.iter (fun op ->
            let (item, s') =
              if op = "N" then iter_next t o !s
              else iter_nth t o !s (zbig_in (Stdlib.String.sub op 1 (Stdlib.String.length op - 1))) in
            s := s';
            out := (opt_out z_out item ^ "@" ^ hint_out (size_hint t !s)) :: !out) ops;
        Stdlib.String.concat " " (Stdlib.List.rev !out)
    | _ -> "BAD-ARGS")
