(* C12: colours <-> raw representation; model side (extracted Colormodel over the generated ColorTable) *)
open Egutil
open ColorTable
open Colormodel

let name_in (s : string) = Stdlib.List.init (Stdlib.String.length s) (fun i -> z_of_int (Char.code s.[i]))
let name_out l = Stdlib.String.concat "" (Stdlib.List.map (fun z -> Stdlib.String.make 1 (Char.chr (int_of_z z))) l)
let row (s : string) : crow option = find_row (name_in s)
let with_row s f = match row s with Some t -> f t | None -> "UNKNOWN-TYPE " ^ s
let dots l = Stdlib.String.concat "." (Stdlib.List.map z_out l)
let kind_str t = match t.c_kind with KBinary -> "bin" | KGray -> "gray" | KRgb _ -> "rgb"

(* channels as the harness prints them: r/g/b, luma, is_on *)
let chans t c =
  match t.c_kind with
  | KRgb _ -> z_out (get_r t c) ^ "/" ^ z_out (get_g t c) ^ "/" ^ z_out (get_b t c)
  | KGray -> z_out (luma_of t c)
  | KBinary -> if int_of_z c = int_of_z bin_on then "1" else "0"

let init () =
  register "col_info" (function
    | [n] -> with_row n (fun t ->
        let mx = match t.c_kind with
          | KRgb _ -> z_out (max_r t) ^ ":" ^ z_out (max_g t) ^ ":" ^ z_out (max_b t)
          | KGray -> z_out (max_luma t)
          | KBinary -> "-" in
        "kind=" ^ kind_str t ^ " bpp=" ^ z_out (bpp t) ^ " sbits=" ^ z_out (sbits t)
        ^ " nbytes=" ^ string_of_int (Stdlib.List.length (to_be_bytes t (color_black t)))
        ^ " max=" ^ mx ^ " black=" ^ z_out (into_storage t (color_black t)) ^ " white=" ^ z_out (into_storage t (color_white t))
        (* Default: the all-zero value (C12_default_valid: valid, = BLACK / Off) *)
        ^ " default=" ^ z_out (into_storage t (z_of_int 0)))
    | _ -> "BAD-ARGS");
  register "col_raw" (function
    | [n; start; count; stride] -> with_row n (fun t ->
        let start = int_of_string start and count = int_of_string count and stride = int_of_string stride in
        let item i =
          let v = z_of_int (start + i * stride) in
          let c = from_raw t (raw_new t v) in
          chans t c ^ "/" ^ z_out (to_raw t c) ^ "/" ^ z_out (into_storage t c) ^ "/" ^ dots (to_be_bytes t c) ^ "/" ^ dots (to_le_bytes t c) in
        Stdlib.String.concat "," (Stdlib.List.init count item))
    | _ -> "BAD-ARGS");
  register "col_new" (function
    | [n; axis; x; y] -> with_row n (fun t ->
        let axis = int_of_string axis and x = z_in x and y = z_in y in
        let item z =
          let z = z_of_int z in
          let (a0, a1, a2) = match axis with 0 -> (z, x, y) | 1 -> (x, z, y) | _ -> (x, y, z) in
          match t.c_kind with
          | KRgb _ -> let c = rgb_new t a0 a1 a2 in z_out (into_storage t c) ^ "/" ^ chans t c
          | KGray -> let c = gray_new t a0 in z_out (into_storage t c) ^ "/" ^ chans t c
          | KBinary -> let c = bin_of_bool (int_of_z a0 <> 0) in z_out (into_storage t c) ^ "/" ^ chans t c in
        Stdlib.String.concat "," (Stdlib.List.init 256 item))
    | _ -> "BAD-ARGS");
  register "named" (function
    | [n] -> with_row n (fun t ->
        match t.c_kind with
        | KRgb _ ->
            Stdlib.String.concat "," (Stdlib.List.map (fun c ->
              z_out (into_storage t c) ^ "/" ^ z_out (get_r t c) ^ "/" ^ z_out (get_g t c) ^ "/" ^ z_out (get_b t c)) (named_colors t))
        | _ -> "NOT-RGB " ^ n)
    | _ -> "BAD-ARGS")
