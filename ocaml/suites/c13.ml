(* C13: colour conversions; model side (extracted Colormodel.convert over the generated pair list) *)
open Egutil
open ColorTable
open Colormodel

let name_in (s : string) = Stdlib.List.init (Stdlib.String.length s) (fun i -> z_of_int (Char.code s.[i]))
let row (s : string) : crow option = find_row (name_in s)

let init () =
  register "conv" (function
    | [na; nb; start; count; stride] ->
        (match row na, row nb with
         | Some a, Some b ->
             let start = int_of_string start and count = int_of_string count and stride = int_of_string stride in
             (* B::from(c): the provided conversion of the generated pair list, or core's reflexive From<T> for T *)
             let f =
               if int_of_z a.c_id = int_of_z b.c_id then Some (fun c -> c)
               else (match find_pair a b with Some fam -> Some (convert fam a b) | None -> None) in
             (match f with
              | None -> "NO-CONVERSION " ^ na ^ " " ^ nb
              | Some f ->
                  let item i =
                    let v = z_of_int (start + i * stride) in
                    z_out (into_storage b (f (from_raw a (raw_new a v)))) in
                  Stdlib.String.concat "," (Stdlib.List.init count item))
         | _ -> "UNKNOWN-TYPE " ^ na ^ " " ^ nb)
    | _ -> "BAD-ARGS");
  register "web" (function
    | [n] ->
        (match row n with
         | Some t when has_web_colors t ->
             Stdlib.String.concat "," (Stdlib.List.map (fun c -> z_out (into_storage t c)) (web_color_values t))
         | Some _ -> "NO-WEB-COLORS " ^ n
         | None -> "UNKNOWN-TYPE " ^ n)
    | _ -> "BAD-ARGS")
