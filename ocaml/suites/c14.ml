(* C14: glyph mapping, MonoFont::glyph, draw_string / measure_string of MonoTextStyle (model side).
   Fonts are SYNTHETIC: geometry from the case line, atlas bit (x,y) = ((7x + 13y + xy) mod 5 < 2),
   glyph mapping = StrGlyphMapping over the code points of the case line. *)
open Egutil
open Geometry
open Fontmodel

let atlas_bit x y =
  let x = int_of_z x and y = int_of_z y in
  ((x * 7 + y * 13 + x * y) mod 5) < 2

let rec take n l =
  if n = 0 then ([], l)
  else match l with x :: t -> let (a, b) = take (n - 1) t in (x :: a, b) | [] -> failwith "short list"

let parse_font = function
  | w :: h :: cw :: ch :: sp :: base :: uo :: uh :: so :: sh :: rest ->
      ({ f_iw = z_in w; f_ih = z_in h; f_cw = z_in cw; f_ch = z_in ch; f_sp = z_in sp; f_base = z_in base;
         f_ul = { d_off = z_in uo; d_h = z_in uh }; f_st = { d_off = z_in so; d_h = z_in sh } }, rest)
  | _ -> failwith "font"

let col s = if s = "0" then None else Some (z_in s)
let dcol s = if s = "0" then DNone else if s = "-1" then DTextColor else DCustom (z_in s)
let parse_style = function
  | tc :: bc :: ul :: st :: rest -> ({ cs_text = col tc; cs_bg = col bc; cs_ul = dcol ul; cs_st = dcol st }, rest)
  | _ -> failwith "style"
let parse_list = function
  | n :: rest -> let (a, b) = take (int_of_string n) rest in (zs_in a, b)
  | _ -> failwith "list"
let vbase_of = function "0" -> BTop | "1" -> BBottom | "2" -> BMiddle | _ -> BAlphabetic

let smap (ws : (point * BinNums.coq_Z) list) : string =
  let h = Hashtbl.create 256 in
  Stdlib.List.iter (fun (p, c) -> Hashtbl.replace h (int_of_z p.py, int_of_z p.px) (int_of_z c)) ws;
  let l = Hashtbl.fold (fun k v acc -> (k, v) :: acc) h [] in
  let l = Stdlib.List.sort compare l in
  Stdlib.String.concat "," (Stdlib.List.map (fun ((y, x), c) -> Printf.sprintf "%d:%d:%d" x y c) l)

let kinds (cs : call list) : string =
  Stdlib.String.concat "" (Stdlib.List.map (function FillSolid _ -> "S" | FillContig _ -> "C" | DrawIter _ -> "I") cs)

let spt p = z_out p.px ^ " " ^ z_out p.py
let src r = spt r.tl ^ " " ^ z_out r.sz.sw ^ " " ^ z_out r.sz.sh

let mk_font f repl data = { mf_geom = f; mf_index = (fun c -> str_index data repl c); mf_atlas = atlas_bit }

let name_codes (s : string) = Stdlib.List.init (Stdlib.String.length s) (fun i -> z_of_int (Stdlib.Char.code (Stdlib.String.get s i)))

let init () =
  (* c14_ds <font:10> <style:4> x y bl repl <n map...> <n text...> *)
  register "c14_ds" (fun args ->
    let (f, r) = parse_font args in
    let (s, r) = parse_style r in
    match r with
    | x :: y :: bl :: repl :: r ->
        let (data, r) = parse_list r in
        let (text, _) = parse_list r in
        let fnt = mk_font f (z_in repl) data in
        let pos = { px = z_in x; py = z_in y } in
        let (calls, next) = draw_string fnt s text pos (vbase_of bl) in
        let (bb, mnext) = measure_string f s text pos (vbase_of bl) in
        smap (writes calls) ^ " N " ^ spt next ^ " K " ^ kinds calls ^ " MS " ^ src bb ^ " " ^ spt mnext
    | _ -> "BAD-ARGS");
  (* c14_map repl <n map...> <n probes...> *)
  register "c14_map" (function
    | repl :: r ->
        let (data, r) = parse_list r in
        let (probes, _) = parse_list r in
        "E " ^ list_out z_out (expand_chars data)
        ^ " I " ^ list_out (fun c -> z_out (str_index data (z_in repl) c)) probes
        ^ " C " ^ list_out (fun c -> b_out (str_contains data c)) probes
    | _ -> "BAD-ARGS");
  (* c14_glyph <font:10> gi : the glyph area and whether it is drawn *)
  register "c14_bi" (function
    | name :: r ->
        let (probes, _) = parse_list r in
        (match Fontbuiltin.find_font (name_codes name) with
         | None -> "NO-SUCH-FONT"
         | Some b ->
             let f = b.bf_font in
             "F " ^ Stdlib.String.concat " " (Stdlib.List.map z_out
                      [f.f_iw; f.f_ih; f.f_cw; f.f_ch; f.f_sp; f.f_base; f.f_ul.d_off; f.f_ul.d_h; f.f_st.d_off; f.f_st.d_h])
             ^ " D " ^ z_out b.bf_digest
             ^ " I " ^ list_out (fun c -> z_out (Fontbuiltin.builtin_index b c)) probes)
    | _ -> "BAD-ARGS");
  register "c14_bi_count" (fun _ -> z_out Fontbuiltin.font_count ^ " " ^ z_out Fontbuiltin.mapping_count);
  (* c14_bi_chars <MAPPING> : the expansion of a built-in mapping *)
  register "c14_bi_chars" (function
    | [name] ->
        (match Fontbuiltin.find_mapping (name_codes name) with
         | None -> "NO-SUCH-MAPPING"
         | Some m -> list_out z_out (expand_chars m.bm_raw) ^ " R " ^ z_out m.bm_repl)
    | _ -> "BAD-ARGS")
