(* C15: Text::draw / bounding_box with a MonoTextStyle on synthetic fonts (model side); helpers from c14.ml *)
open Egutil
open Geometry
open Fontmodel
open Textmodel

let halign_of = function "0" -> ALeft | "1" -> ACenter | _ -> ARight
let lh_of k v = if k = "0" then LHPixels (z_in v) else LHPercent (z_in v)

let parse_tstyle = function
  | al :: bl :: lhk :: lhv :: rest -> ({ t_align = halign_of al; t_base = C14.vbase_of bl; t_lh = lh_of lhk lhv }, rest)
  | _ -> failwith "tstyle"

let init () =
  (* c15_text <font:10> <style:4> align base lhk lhv x y repl <n map...> <n text...> *)
  register "c15_text" (fun args ->
    let (f, r) = C14.parse_font args in
    let (s, r) = C14.parse_style r in
    let (ts, r) = parse_tstyle r in
    match r with
    | x :: y :: repl :: r ->
        let (data, r) = C14.parse_list r in
        let (text, _) = C14.parse_list r in
        let fnt = C14.mk_font f (z_in repl) data in
        let pos = { px = z_in x; py = z_in y } in
        let (calls, next) = text_draw fnt s ts pos text in
        let bb = text_bbox f s ts pos text in
        C14.smap (writes calls) ^ " N " ^ C14.spt next ^ " BB " ^ C14.src bb
    | _ -> "BAD-ARGS")
