(* C16: Rectangle operations *)
open Egutil
open Geometry

let pt x y = { px = z_in x; py = z_in y }
let rc x y w h = { tl = pt x y; sz = { sw = z_in w; sh = z_in h } }
let spt p = z_out p.px ^ " " ^ z_out p.py
let src r = spt r.tl ^ " " ^ z_out r.sz.sw ^ " " ^ z_out r.sz.sh
let axo = function "0" -> AXLeft | "1" -> AXCenter | _ -> AXRight
let ayo = function "0" -> AYTop | "1" -> AYCenter | _ -> AYBottom

let init () =
  register "rect_pair" (function
    | [x; y; w; h; x2; y2; w2; h2] ->
        let a = rc x y w h and b = rc x2 y2 w2 h2 in
        "I " ^ src (intersection a b) ^ " E " ^ src (envelope a b)
    | _ -> "BAD-ARGS");
  register "rect_one" (function
    | [x; y; w; h] ->
        let r = rc x y w h in
        let (r0, r1) = rows r and (c0, c1) = columns r in
        "BR " ^ opt_out spt (bottom_right r) ^ " C " ^ spt (center r) ^ " ROWS " ^ z_out r0 ^ " " ^ z_out r1
        ^ " COLS " ^ z_out c0 ^ " " ^ z_out c1 ^ " Z " ^ b_out (is_zero_sized r)
        ^ " WC " ^ src (with_center (center r) r.sz)
    | _ -> "BAD-ARGS");
  register "rect_contains" (function
    | [x; y; w; h; qx; qy] -> b_out (contains (rc x y w h) (pt qx qy))
    | _ -> "BAD-ARGS");
  register "rect_points" (function
    | [x; y; w; h] -> list_out (fun p -> z_out p.px ^ ":" ^ z_out p.py) (points (rc x y w h))
    | _ -> "BAD-ARGS");
  register "rect_corners" (function
    | [x; y; x2; y2] -> src (with_corners (pt x y) (pt x2 y2))
    | _ -> "BAD-ARGS");
  register "rect_with_center" (function
    | [x; y; w; h] -> src (with_center (pt x y) { sw = z_in w; sh = z_in h })
    | _ -> "BAD-ARGS");
  register "rect_anchor" (function
    | [x; y; w; h; a; b] -> spt (anchor_point (rc x y w h) { ax = axo a; ay = ayo b })
    | _ -> "BAD-ARGS");
  register "rect_resized" (function
    | [x; y; w; h; nw; nh; a; b] ->
        let r = rc x y w h in
        src (resized r { sw = z_in nw; sh = z_in nh } { ax = axo a; ay = ayo b })
        ^ " W " ^ src (resized_width r (z_in nw) (axo a)) ^ " H " ^ src (resized_height r (z_in nh) (ayo b))
    | _ -> "BAD-ARGS");
  register "rect_offset" (function
    | [x; y; w; h; n] -> src (offset (rc x y w h) (z_in n))
    | _ -> "BAD-ARGS")
