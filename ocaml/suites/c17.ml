(* C17: Line::points() and Styled<Line>::pixels() *)
open Egutil
open Geometry

let pt x y = { px = z_in x; py = z_in y }
let ln a b c d = { Line.l_start = pt a b; Line.l_end = pt c d }
let cpt p = z_out p.px ^ ":" ^ z_out p.py

(* order-sensitive digest of a point list: "n first last h"; same arithmetic in harness/src/suites/c17.rs *)
let md = 1000000007
let nn v = ((v mod md) + md) mod md
let digest (l : point list) : string =
  let n = ref 0 and h = ref 7 and first = ref "none" and last = ref "none" in
  Stdlib.List.iter (fun p ->
    let x = int_of_z p.px and y = int_of_z p.py in
    if !n = 0 then first := cpt p;
    last := cpt p;
    incr n;
    h := (((!h * 31) mod md) + nn x * 3 + nn y) mod md) l;
  string_of_int !n ^ " " ^ !first ^ " " ^ !last ^ " " ^ string_of_int !h

(* very long lines: bresenham_run / Z.to_nat are not tail recursive and overflow the 8 MB stack of the
   extracted program beyond ~10^5 points, so for these the driver itself iterates the model's
   bnext on the model's parameters major_length times (the body of Line.line_points) *)
let walk_digest (l : Line.line) : string =
  let p = Line.bparams_new l in
  let n = int_of_z (Line.major_length l) in
  let st = ref { Line.b_point = l.Line.l_start; Line.b_error = z_of_int 0 } in
  let h = ref 7 and first = ref "none" and last = ref "none" in
  for i = 0 to n - 1 do
    let (q, s') = Line.bnext p !st in
    st := s';
    let x = int_of_z q.px and y = int_of_z q.py in
    if i = 0 then first := cpt q;
    if i = n - 1 then last := cpt q;
    h := (((!h * 31) mod md) + nn x * 3 + nn y) mod md
  done;
  string_of_int n ^ " " ^ !first ^ " " ^ !last ^ " " ^ string_of_int !h

(* Styled<Line>::pixels() with stroke colour 1 and the given width: the ordered point list *)
let sty w = { Style.fill_color = None; Style.stroke_color = Some (z_of_int 1); Style.stroke_width = z_in w;
              Style.stroke_alignment = Style.Center; Style.stroke_kind = Style.Solid }
let thick a b c d w : point list option =
  match Thickline.styled_line_pixels (ln a b c d) (sty w) with
  | None -> None
  | Some l -> Some (Stdlib.List.map fst l)
let rect_out (r : rect) = z_out r.tl.px ^ " " ^ z_out r.tl.py ^ " " ^ z_out r.sz.sw ^ " " ^ z_out r.sz.sh

(* display-scale strokes (hundreds of thousands of pixels): flat_map / bresenham_run are not tail recursive, so the
   driver iterates the model's parallels itself: for each (state, type) of Thickline.parallels it calls Line.bnext
   major_length (- 1 for Extra) times -- the body of Thickline.thick_points *)
let thick_walk a b c d w : string =
  let l = ln a b c d in
  match Thickline.parallels l (z_in w) Thickline.SONone with
  | None -> "FUEL"
  | Some pars ->
    let eff = if Geometry.point_eqb l.Line.l_start l.Line.l_end then Thickline.horizontal_line else l in
    let par = Line.bparams_new eff in
    let len = int_of_z (Line.major_length l) in
    let n = ref 0 and h = ref 7 and first = ref "none" and last = ref "none" in
    Stdlib.List.iter (fun (bs, t) ->
      let k = (match t with Thickline.LNormal -> len | Thickline.LExtra -> len - 1) in
      let st = ref bs in
      for _ = 1 to k do
        let (q, s') = Line.bnext par !st in
        st := s';
        let x = int_of_z q.px and y = int_of_z q.py in
        if !n = 0 then first := cpt q;
        last := cpt q;
        incr n;
        h := (((!h * 31) mod md) + nn x * 3 + nn y) mod md
      done) pars;
    string_of_int !n ^ " " ^ !first ^ " " ^ !last ^ " " ^ string_of_int !h

let init () =
  register "line_with_delta" (function
    | [a; b; c; d] ->
      let l = Line.with_delta (pt a b) (pt c d) in
      cpt l.Line.l_start ^ " " ^ cpt l.Line.l_end ^ " " ^ cpt (Line.line_delta l)
    | _ -> "BAD-ARGS");
  register "thick_walk" (function
    | [a; b; c; d; w] -> thick_walk a b c d w
    | _ -> "BAD-ARGS");
  register "thick_pixels" (function
    | [a; b; c; d; w] -> (match thick a b c d w with None -> "FUEL" | Some l -> list_out cpt l)
    | _ -> "BAD-ARGS");
  register "thick_digest" (function
    | [a; b; c; d; w] -> (match thick a b c d w with None -> "FUEL" | Some l -> digest l)
    | _ -> "BAD-ARGS");
  register "line_sbb" (function
    | [a; b; c; d; w] -> (match Thickline.styled_line_bounding_box (ln a b c d) (sty w) with
                          | None -> "FUEL" | Some r -> rect_out r)
    | _ -> "BAD-ARGS");
  register "line_points" (function
    | [a; b; c; d] -> list_out cpt (Line.line_points (ln a b c d))
    | _ -> "BAD-ARGS");
  register "line_digest" (function
    | [a; b; c; d] -> digest (Line.line_points (ln a b c d))
    | _ -> "BAD-ARGS");
  register "line_walk" (function
    | [a; b; c; d] -> walk_digest (ln a b c d)
    | _ -> "BAD-ARGS")
