(* C18 (RoundedRectangle share): the model's private copy of Ellipse::contains vs the real Ellipse.
   rr_ellipse_pt x y w h px py ; rr_ellipse_map x y w h (bitmap over box+2) *)
open Egutil
open Geometry
open Rrect

let init () =
  register "rr_ellipse_pt" (fun a ->
    match a with
    | [x; y; w; h; qx; qy] ->
        b_out (rr_ellipse_contains { px = z_in x; py = z_in y } { sw = z_in w; sh = z_in h } { px = z_in qx; py = z_in qy })
    | _ -> "BAD-ARGS");
  register "ok_rr_new" (fun a ->
    let (r, _) = C05_rrect.rr_in a in if rr_arith_ok r then "OK" else "PANIC");
  register "ok_rr_contains_tl" (fun a ->
    match a with
    | [x; y; w; h; ra; rb; qx; qy] ->
        let z = { sw = z_in "0"; sh = z_in "0" } in
        let r = { rr_rect = { tl = { px = z_in x; py = z_in y }; sz = { sw = z_in w; sh = z_in h } };
                  rr_corners = { r_tl = { sw = z_in ra; sh = z_in rb }; r_tr = z; r_br = z; r_bl = z } } in
        let p = { px = z_in qx; py = z_in qy } in
        if rr_arith_ok r && quadrant_contains_arith_ok (rrc_new r).c_tl p then "OK" else "PANIC"
    | _ -> "BAD-ARGS");
  register "rr_ellipse_map" (fun a ->
    match a with
    | [x; y; w; h] ->
        let t = { px = z_in x; py = z_in y } and s = { sw = z_in w; sh = z_in h } in
        C05_rrect.bitmap { tl = t; sz = s } 2 (fun p -> rr_ellipse_contains t s p)
    | _ -> "BAD-ARGS")
