(* C18 / C05 / C02 / C07 (sector + arc family): model side of the correspondence.
   Common argument layout:  x y d A S op lx ly rx ry
     A, S   angle tokens (start, sweep) - used by the implementation side only
     op     0 intersection, 1 union, 2 entire plane;  (lx,ly) / (rx,ry) normal of the left / right half plane
   as exposed by verif_hooks::plane_sector_parts for (A, S). *)
open Egutil
open Geometry
open Style
open Sectormodel

let pt x y = { px = z_in x; py = z_in y }
let opo = function "0" -> OpIntersection | "1" -> OpUnion | _ -> OpEntirePlane
let mkps op lx ly rx ry = { ps_left = pt lx ly; ps_right = pt rx ry; ps_op = opo op }
let spt p = z_out p.px ^ ":" ^ z_out p.py
let srect r = z_out r.tl.px ^ " " ^ z_out r.tl.py ^ " " ^ z_out r.sz.sw ^ " " ^ z_out r.sz.sh
let colo = function "0" -> None | c -> Some (z_in c)
let alo = function "0" -> Inside | "1" -> Center | _ -> Outside
let mkstyle fc sc w al =
  { fill_color = colo fc; stroke_color = colo sc; stroke_width = z_in w; stroke_alignment = alo al; stroke_kind = Solid }
let spx (p, c) = spt p ^ ":" ^ z_out c

(* per-row column bit masks (hex) of a point list over the window x0,y0,w,h; points outside are listed after '!' *)
let mask_out (x0 : int) (y0 : int) (w : int) (h : int) (pts : (int * int) list) : string =
  let rows = Array.make (max h 0) 0 in
  let out = ref [] in
  Stdlib.List.iter (fun (x, y) ->
      if x >= x0 && x < x0 + w && y >= y0 && y < y0 + h then rows.(y - y0) <- rows.(y - y0) lor (1 lsl (x - x0))
      else out := (string_of_int x ^ ":" ^ string_of_int y) :: !out) pts;
  Stdlib.String.concat "," (Stdlib.List.map (Printf.sprintf "%x") (Array.to_list rows))
  ^ (if !out = [] then "" else "!" ^ Stdlib.String.concat "," (Stdlib.List.rev !out))

let ipts l = Stdlib.List.map (fun p -> (int_of_z p.px, int_of_z p.py)) l

let init () =
  register "sec_points" (function
    | [x; y; d; _; _; op; lx; ly; rx; ry] ->
        list_out spt (se_points { se_tl = pt x y; se_d = z_in d; se_ps = mkps op lx ly rx ry })
    | _ -> "BAD-ARGS");
  register "sec_mask" (function
    | [x; y; d; _; _; op; lx; ly; rx; ry] ->
        let di = int_of_string d in
        mask_out (int_of_string x) (int_of_string y) di di
          (ipts (se_points { se_tl = pt x y; se_d = z_in d; se_ps = mkps op lx ly rx ry }))
    | _ -> "BAD-ARGS");
  register "sec_contains" (function
    | [x; y; d; _; _; op; lx; ly; rx; ry; m] ->
        let s = { se_tl = pt x y; se_d = z_in d; se_ps = mkps op lx ly rx ry } in
        let xi = int_of_string x and yi = int_of_string y and di = int_of_string d and mi = int_of_string m in
        let acc = ref [] in
        for yy = yi - mi to yi + di + mi - 1 do
          for xx = xi - mi to xi + di + mi - 1 do
            if se_contains s { px = z_of_int xx; py = z_of_int yy } then acc := (xx, yy) :: !acc
          done
        done;
        mask_out (xi - mi) (yi - mi) (di + 2 * mi) (di + 2 * mi) (Stdlib.List.rev !acc)
    | _ -> "BAD-ARGS");
  register "arc_points" (function
    | [x; y; d; _; _; op; lx; ly; rx; ry] ->
        list_out spt (ar_points { ar_tl = pt x y; ar_d = z_in d; ar_ps = mkps op lx ly rx ry })
    | _ -> "BAD-ARGS");
  register "arc_mask" (function
    | [x; y; d; _; _; op; lx; ly; rx; ry] ->
        let di = int_of_string d in
        mask_out (int_of_string x) (int_of_string y) di di
          (ipts (ar_points { ar_tl = pt x y; ar_d = z_in d; ar_ps = mkps op lx ly rx ry }))
    | _ -> "BAD-ARGS");
  register "sec_styled" (function
    | [x; y; d; _; _; op; lx; ly; rx; ry; bk; bx; by; fc; sc; w; al] ->
        let s = { se_tl = pt x y; se_d = z_in d; se_ps = mkps op lx ly rx ry } in
        let st = mkstyle fc sc w al in
        let bev = match bk with "0" -> None | "1" -> Some (BevelInterior, pt bx by) | _ -> Some (BevelExterior, pt bx by) in
        "BB " ^ srect (se_styled_bbox s st) ^ " PX " ^ list_out spx (se_styled_pixels s st bev)
    | _ -> "BAD-ARGS");
  register "arc_styled" (function
    | [x; y; d; _; _; op; lx; ly; rx; ry; fc; sc; w; al] ->
        let a = { ar_tl = pt x y; ar_d = z_in d; ar_ps = mkps op lx ly rx ry } in
        let st = mkstyle fc sc w al in
        "BB " ^ srect (ar_styled_bbox a st) ^ " PX " ^ list_out spx (ar_styled_pixels a st)
    | _ -> "BAD-ARGS");
  (* fixed_point trigonometry: PlaneSector::new on I16F16 angle bit patterns (model Trigfixed) *)
  register "fx_parts" (function
    | [a; sw] ->
        let ps = Trigfixed.fx_plane_sector (z_in a) (z_in sw) in
        (match ps.ps_op with OpIntersection -> "0" | OpUnion -> "1" | OpEntirePlane -> "2")
        ^ " " ^ z_out ps.ps_left.px ^ " " ^ z_out ps.ps_left.py ^ " " ^ z_out ps.ps_right.px ^ " " ^ z_out ps.ps_right.py
    | _ -> "BAD-ARGS");
  (* constructors: with_center top-left, centre of the result, centre of the sector at (cx,cy) as top-left; sector and arc *)
  register "sec_ctor" (function
    | [cx; cy; d] ->
        let ps = mkps "2" "0" "1024" "0" "1024" in
        let s = se_with_center (pt cx cy) (z_in d) ps and a = ar_with_center (pt cx cy) (z_in d) ps in
        let s2 = { se_tl = pt cx cy; se_d = z_in d; se_ps = ps } and a2 = { ar_tl = pt cx cy; ar_d = z_in d; ar_ps = ps } in
        let o p = z_out p.px ^ " " ^ z_out p.py in
        "S " ^ o s.se_tl ^ " " ^ z_out s.se_d ^ " C " ^ o (se_center s) ^ " C0 " ^ o (se_center s2)
        ^ " A " ^ o a.ar_tl ^ " " ^ z_out a.ar_d ^ " C " ^ o (ar_center a) ^ " C0 " ^ o (ar_center a2)
    | _ -> "BAD-ARGS");
  register "sec_offset" (function
    | [x; y; d; off] ->
        let s = se_offset { se_tl = pt x y; se_d = z_in d; se_ps = mkps "2" "0" "1024" "0" "1024" } (z_in off) in
        z_out s.se_tl.px ^ " " ^ z_out s.se_tl.py ^ " " ^ z_out s.se_d
    | _ -> "BAD-ARGS")
