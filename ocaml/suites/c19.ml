(* C19: Triangle::points / bounding_box, Polyline::points / bounding_box (model side) *)
open Egutil
open Geometry

let pt x y = { px = z_in x; py = z_in y }
let spt2 p = z_out p.px ^ ":" ^ z_out p.py
let srect r = z_out r.tl.px ^ " " ^ z_out r.tl.py ^ " " ^ z_out r.sz.sw ^ " " ^ z_out r.sz.sh

let rec pts_of = function
  | x :: y :: r -> pt x y :: pts_of r
  | _ -> []

let tri_of = function
  | [x1; y1; x2; y2; x3; y3] -> Some { Triangle.v1 = pt x1 y1; v2 = pt x2 y2; v3 = pt x3 y3 }
  | _ -> None

let poly_of = function
  | tx :: ty :: rest -> Some { Polyline.pl_translate = pt tx ty; pl_vertices = pts_of rest }
  | _ -> None

let init () =
  register "tri_points" (fun a ->
    match tri_of a with Some t -> list_out spt2 (Triangle.tri_points t) | None -> "BAD-ARGS");
  register "tri_bbox" (fun a ->
    match tri_of a with Some t -> srect (Triangle.tri_bounding_box t) | None -> "BAD-ARGS");
  (* Polyline::new(vertices).translate(t): points and bounding box *)
  register "poly_points" (fun a ->
    match poly_of a with Some p -> list_out spt2 (Polyline.polyline_points p) | None -> "BAD-ARGS");
  register "poly_bbox" (fun a ->
    match poly_of a with Some p -> srect (Polyline.polyline_bounding_box p) | None -> "BAD-ARGS");
  (* two successive translate() calls *)
  register "poly_points_tt" (function
    | ux :: uy :: rest -> (
        match poly_of rest with
        | Some p -> list_out spt2 (Polyline.polyline_points (Polyline.polyline_translate p (pt ux uy)))
        | None -> "BAD-ARGS")
    | _ -> "BAD-ARGS")
