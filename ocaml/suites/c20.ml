(* C20: MockDisplay (model side).  Protocol: see props/C20.py *)
open Egutil
open Geometry
open Mockdisplay

let split c s = Stdlib.String.split_on_char c s
let pt x y = { px = z_in x; py = z_in y }
let rc x y w h = { tl = pt x y; sz = { sw = z_in w; sh = z_in h } }

let mapping_of = function
  | "BinaryColor" -> MockConsts.map_BinaryColor
  | "Gray2" -> MockConsts.map_Gray2
  | "Gray4" -> MockConsts.map_Gray4
  | "Gray8" -> MockConsts.map_Gray8
  | "Rgb332" -> MockConsts.map_Rgb332
  | "Rgb444" -> MockConsts.map_Rgb444
  | "Rgb555" -> MockConsts.map_Rgb555
  | "Bgr555" -> MockConsts.map_Bgr555
  | "Rgb565" -> MockConsts.map_Rgb565
  | "Bgr565" -> MockConsts.map_Bgr565
  | "Rgb888" -> MockConsts.map_Rgb888
  | "Bgr888" -> MockConsts.map_Bgr888
  | s -> failwith ("unknown colour type " ^ s)

let kind_out = function
  | POutOfBounds -> "oob"
  | POverdraw -> "overdraw"
  | PSetPixel -> "setpixel"
  | PIndex -> "index"
  | PPatternWidth -> "width"
  | PPatternHeight -> "height"
  | PPatternRow -> "row"
  | PBadChar -> "badchar"
  | PUnwrap -> "unwrap"

exception Panicked of panic_kind
let get = function Ok a -> a | Panic k -> raise (Panicked k)

(* pixel map of a display, sorted by (y,x): x:y:c *)
let size_i = int_of_z MockConsts.coq_SIZE
let dump (d : display) : string =
  let b = Buffer.create 256 in
  let first = ref true in
  for y = 0 to size_i - 1 do
    for x = 0 to size_i - 1 do
      match get (get_pixel d { px = z_of_int x; py = z_of_int y }) with
      | Some c ->
          if not !first then Buffer.add_char b ',';
          first := false;
          Buffer.add_string b (Printf.sprintf "%d:%d:%s" x y (z_out c))
      | None -> ()
    done
  done;
  Buffer.contents b

let src r = z_out r.tl.px ^ " " ^ z_out r.tl.py ^ " " ^ z_out r.sz.sw ^ " " ^ z_out r.sz.sh

(* code points -> protocol text: ' ' -> '_', '\n' -> '/' *)
let text_out (l : BinNums.coq_Z list) : string =
  Stdlib.String.concat ""
    (Stdlib.List.map (fun z -> match int_of_z z with 32 -> "_" | 10 -> "/" | c -> Stdlib.String.make 1 (Char.chr c)) l)

let pix_of s = match split ':' s with [x; y; c] -> (pt x y, z_in c) | _ -> failwith "pix"
let colors_of s = if s = "" then [] else Stdlib.List.map z_in (split ',' s)

(* applies one token; state-changing tokens return the new display, probes append to out *)
let step (m : MockConsts.mapping) (d : display) (out : string list ref) (tok : string) : display =
  let emit s = out := s :: !out in
  match split ':' tok with
  | ["dp"; x; y; c] -> get (apply_op d (OpDrawPixel (pt x y, z_in c)))
  | "di" :: rest ->
      let body = Stdlib.String.concat ":" rest in
      let l = if body = "" then [] else Stdlib.List.map pix_of (split ';' body) in
      get (apply_op d (OpDrawIter l))
  | ["fs"; x; y; w; h; c] -> get (apply_op d (OpFillSolid (rc x y w h, z_in c)))
  | ["fc"; x; y; w; h; cs] -> get (apply_op d (OpFillContiguous (rc x y w h, colors_of cs)))
  | ["cl"; c] -> get (apply_op d (OpClear (z_in c)))
  | ["sp"; x; y; c] -> get (apply_op d (OpSetPixel (pt x y, if c = "n" then None else Some (z_in c))))
  | "sps" :: c :: rest ->
      let body = Stdlib.String.concat ":" rest in
      let l = if body = "" then [] else Stdlib.List.map (fun s -> match split ':' s with [x; y] -> pt x y | _ -> failwith "pt") (split ';' body) in
      get (apply_op d (OpSetPixels (l, if c = "n" then None else Some (z_in c))))
  | ["ao"; b] -> get (apply_op d (OpSetAllowOverdraw (b = "1")))
  | ["ab"; b] -> get (apply_op d (OpSetAllowOob (b = "1")))
  | ["gp"; x; y] -> emit (opt_out z_out (get (get_pixel d (pt x y)))); d
  | ["aa"] -> emit (src (affected_area d)); d
  | ["dump"] -> emit ("[" ^ dump d ^ "]"); d
  | ["sw"] -> emit ("[" ^ dump (get (swap_xy d)) ^ "]"); d
  | ["dbg"] -> emit (text_out (get (debug_string m d))); d
  | ["mp"; k] -> emit ("[" ^ dump (get (map_display (shift_color m.MockConsts.m_nvalues (z_in k)) d)) ^ "]"); d
  | _ -> failwith ("bad token " ^ tok)

let run_tokens m d out toks = Stdlib.List.fold_left (fun d t -> step m d out t) d toks

let finish out = Stdlib.String.concat " " (Stdlib.List.rev !out)

let rec split_at_slash acc = function
  | [] -> (Stdlib.List.rev acc, [])
  | "/" :: t -> (Stdlib.List.rev acc, t)
  | x :: t -> split_at_slash (x :: acc) t

let row_of tok =
  (* token = 'r' followed by the row's chars, '_' for ' ' *)
  let n = Stdlib.String.length tok in
  let rec go i acc = if i < 1 then acc else go (i - 1) (z_of_int (match Stdlib.String.get tok i with '_' -> 32 | c -> Char.code c) :: acc) in
  go (n - 1) []

let init () =
  register "mock_hist" (function
    | ty :: toks ->
        let m = mapping_of ty in
        let out = ref [] in
        (try ignore (run_tokens m new_display out toks) with Panicked k -> out := ("PANIC " ^ kind_out k) :: !out);
        finish out
    | _ -> "BAD-ARGS");
  register "mock_eqdiff" (function
    | ty :: toks ->
        let m = mapping_of ty in
        let (ta, tb) = split_at_slash [] toks in
        let out = ref [] in
        (try
           let a = run_tokens m new_display out ta in
           let b = run_tokens m new_display out tb in
           let df = get (diff a b) in
           out := ("EQ " ^ b_out (mock_eq a b) ^ " DIFF [" ^ dump df ^ "] DEQ " ^ b_out (mock_eq df new_display)) :: !out
         with Panicked k -> out := ("PANIC " ^ kind_out k) :: !out);
        finish out
    | _ -> "BAD-ARGS");
  register "mock_points" (function
    | _ :: c :: pts ->
        (try
           let l = Stdlib.List.map (fun s -> match split ':' s with [x; y] -> pt x y | _ -> failwith "pt") pts in
           let d = get (from_points l (z_in c)) in
           "[" ^ dump d ^ "] AA " ^ src (affected_area d)
         with Panicked k -> "PANIC " ^ kind_out k)
    | _ -> "BAD-ARGS");
  register "mock_pattern" (function
    | ty :: rows ->
        let m = mapping_of ty in
        (try
           let d = get (from_pattern m (Stdlib.List.map row_of rows)) in
           "MAP [" ^ dump d ^ "] AA " ^ src (affected_area d) ^ " DBG " ^ text_out (get (debug_string m d))
         with Panicked k -> "PANIC " ^ kind_out k)
    | _ -> "BAD-ARGS")
