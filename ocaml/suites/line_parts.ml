(* line parts of C02 / C07 / C08: model side *)
open Egutil
open Geometry

let pt x y = { px = z_in x; py = z_in y }
let rect_out (r : rect) = z_out r.tl.px ^ " " ^ z_out r.tl.py ^ " " ^ z_out r.sz.sw ^ " " ^ z_out r.sz.sh

let init () =
  (* Line::bounding_box = Rectangle::with_corners(start, end)  (line_bbox of Proofs/ThicklineBox.v) *)
  register "line_bbox" (function
    | [a; b; c; d] -> rect_out (Geometry.with_corners (pt a b) (pt c d))
    | _ -> "BAD-ARGS")
