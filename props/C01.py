"""C01 - One image per drawable, whichever drawing path the target offers  (metadata; generators live here and/or in props/C01_*.py parts)"""
CLAIMED = False   # set True by the owner once ./check C01 passes with real theorems
LEVEL = 'proof'
LEVEL_TEXT = 'TODO'
LEVEL_NOTE = 'TODO'
