"""C01 - One image per drawable, whichever drawing path  (metadata + implementation-side search; Coq parts in Properties/C01_*.v)"""
from common import *

CLAIMED = False   # set True once the theorem parts (C01_targets, C01_<family>) are merged
LEVEL = 'proof'
LEVEL_TEXT = 'TODO'
LEVEL_NOTE = 'TODO'
RULE = ('search p_paths: every drawable family of the zoo (styled rectangle/circle/ellipse/rounded rectangle/triangle/line/polyline/arc/sector, '
        'images, sub-images, text with 8 fonts) x random styles (fill/stroke present/absent, widths 0..12, 3 alignments) x positions x target boxes '
        '(non-origin, cutting the object, missing it, empty): pixel maps of draw() on a draw_iter-only target, draw() on a native fill target, '
        'a draining native target, and pixels() fed to draw_iter must be equal.')


def search(tier, rng):
    n = 8000 if tier == 'quick' else 150000
    for k in range(n):
        fam = FAMILIES[k % len(FAMILIES)]
        r = rng.random()
        if r < 0.5:
            bb = (rng.randrange(-40, 20), rng.randrange(-40, 20), rng.randrange(0, 90), rng.randrange(0, 90))
        elif r < 0.8:
            bb = (rng.randrange(-10, 11), rng.randrange(-10, 11), rng.randrange(0, 25), rng.randrange(0, 25))
        elif r < 0.9:
            bb = (-200, -200, 400, 400)
        else:
            bb = (rng.randrange(-40, 40), rng.randrange(-40, 40), rng.choice([0, 1, 5]), rng.choice([0, 1, 5]))
        yield J('p_paths', *bb, zoo_case(rng, fam))
