"""C01 - One image per drawable, whichever drawing path  (metadata + implementation-side search; Coq parts in Properties/C01_*.v)"""
from common import *

CLAIMED = True
LEVEL = 'proof'
LEVEL_TEXT = ('Proof, assembled from parts (coq/Properties/C01_*.v). (a) draw_iter-only vs native target: C01_targets_* prove that painting ANY list of fill_contiguous / fill_solid / clear / draw_iter calls through the trait defaults of core/src/draw_target/mod.rs gives, at every point, the pixel map of a target implementing them natively with their documented meaning, for any target box (non-origin, empty) and through adapter stacks of any depth; every built-in drawable reaches a target only through these four methods, so this half covers all drawables at once. (b) pixels() vs draw(): full theorems for styled Rectangle, Circle, Ellipse (C01_circle_*), RoundedRectangle (C01_rrect_*, outside the recorded class K06/K01_rrect_fill_outside_stroke), images (C01_image_*: one fill_contiguous with exactly w*h colours), fill-only triangles; for Line, Arc, Sector draw() IS draw_iter(pixels()) - the shape of both function bodies is regenerated from the source on every run and checked by reflection (C01_direct_*); for thick polylines and stroked/filled triangles pixels() is proved equal to the fill_solid writes of draw() for the concrete generator of the thick-stroke model (C01_join_*; polylines within the stated range, triangles under the computable condition jt_fused - the un-fused scanline iterator never skips a leading empty row - PROVED for fill-only and collapsed strokes, evaluated by the model oracle on every generated case otherwise); the consumer glue holds for any generator output (C01_tri_*_glue_*), and the private fill_solid semantics of each family semantics is proved equal to Model/Target.v (C01_bridge_*).')
LEVEL_NOTE = ('Partial where listed: non-collapsed stroked triangles carry the computable hypothesis jt_fused; text: C01_text_* prove that every call MonoFontDrawTarget forwards fits and renders alike on both target kinds (half (a)), pixels() does not exist for text. The models are tied to the code by differential testing of the extracted models against the real library (two recording targets, one draw_iter-only) and by the direct search p_paths / p_c01_zoo over every drawable family; known finding K01_rrect_fill_outside_stroke is excluded by a machine-checked class predicate.')
PARTIAL = ['stroked triangles of width >= 2 that are not collapsed: pixels() = draw() under the computable hypothesis jt_fused (width 1: proved without it for EVERY triangle, alignment and fill, C01_join_triangle_pixels_draw_w1_all) (never false on an exhaustive 6x6 grid x widths 1..3 x alignments, nor on 120k random triangles); proved unconditionally for polylines, fill-only and collapsed triangles', 'text: half (a) only (C01_text_*: every forwarded call fits and renders alike on both target kinds); pixels() does not exist for text']
RULE = ('search p_paths: every drawable family of the zoo (styled rectangle/circle/ellipse/rounded rectangle/triangle/line/polyline/arc/sector, '
        'images, sub-images, text with 8 fonts) x random styles (fill/stroke present/absent, widths 0..12, 3 alignments) x positions x target boxes '
        '(non-origin, cutting the object, missing it, empty): pixel maps of draw() on a draw_iter-only target, draw() on a native fill target, '
        'a draining native target, and pixels() fed to draw_iter must be equal.')


def search(tier, rng):
    n = 8000 if tier == 'quick' else 150000
    for c in axis_line_cases():
        yield J('p_paths', -20, -20, 60, 60, c)
        yield J('p_paths', 10, 9, 6, 6, c)
    for k in range(n):
        fam = FAMILIES[k % len(FAMILIES)]
        r = rng.random()
        if r < 0.5:
            bb = (rng.randrange(-40, 20), rng.randrange(-40, 20), rng.randrange(0, 90), rng.randrange(0, 90))
        elif r < 0.8:
            bb = (rng.randrange(-10, 11), rng.randrange(-10, 11), rng.randrange(0, 25), rng.randrange(0, 25))
        elif r < 0.9:
            bb = (-200, -200, 400, 400)
        else:
            bb = (rng.randrange(-40, 40), rng.randrange(-40, 40), rng.choice([0, 1, 5]), rng.choice([0, 1, 5]))
        yield J('p_paths', *bb, zoo_case(rng, fam))
