"""C01(b) part for the families rectangle / circle / ellipse: pixels() vs draw() (theorems in coq/Properties/C01_circle.v)."""
from common import *

COLOURS = [(1, 1), (1, 0), (0, 1), (0, 0)]


def _style(rng, maxw=14):
    return (rng.choice([0, 0, 1, 2, 3, rng.randrange(0, maxw + 1)]), rng.randrange(3), *rng.choice(COLOURS))


def cases(tier, rng):
    # model <-> code tie: DRAW (native target), DRAWI (draw_iter-only target) and PIX (pixels() items) of the same styled shape
    n = 400 if tier == 'quick' else 6000
    for _ in range(n):
        x, y = coord(rng), coord(rng)
        yield J('circ_styled', x, y, rng.randrange(0, 40), *_style(rng))
        yield J('ell_styled', x, y, rng.randrange(0, 30), rng.randrange(0, 30), *_style(rng))
        yield J('rect_styled', x, y, rng.randrange(0, 30), rng.randrange(0, 30), *_style(rng))


def search(tier, rng):
    # the C06 predicate includes: pixel map of pixels() == pixel map of draw() on both targets, no point yielded twice
    n = 400 if tier == 'quick' else 6000
    for w in range(0, 4):                      # stroke colour set with width 0..3 (effective_stroke_color vs stroke_color)
        for d in range(0, 9):
            for al in range(3):
                yield J('p_circ_c06', 1, -2, d, w, al, 1, d % 2)
                yield J('p_ell_c06', 1, -2, d, 8 - d, w, al, 1, d % 2)
                yield J('p_rect_c06', 1, -2, d, 8 - d, w, al, 1, d % 2)
    for _ in range(n):
        x, y = coord(rng), coord(rng)
        yield J('p_circ_c06', x, y, rng.randrange(0, 50), *_style(rng))
        yield J('p_ell_c06', x, y, rng.randrange(0, 40), rng.randrange(0, 40), *_style(rng))
        yield J('p_rect_c06', x, y, rng.randrange(0, 40), rng.randrange(0, 40), *_style(rng))


RULE = ('part circle (rectangle/circle/ellipse, C01(b)): correspondence of draw() on a native and on a draw_iter-only target and of the '
        'pixels() item list between extracted model and code on random styled shapes (widths 0..14 incl. wider than the shape, 3 alignments, '
        'colours set/unset); search: pixel map of pixels() == pixel map of draw() on both targets, no duplicate items, stroke colour set with width 0.')
ASSUMPTIONS = ['part circle: as C06 (coordinates, extents, stroke width within 2^27; solid stroke style for the rectangle)']
PARTIAL = []
TRUSTED = []
