"""C01, image part - the trait default of fill_contiguous vs a native target, for single calls and for images"""
from common import *
import C09 as base

RULE = ('image part: fc_call = one fill_contiguous(area, stream) through the real trait default on a draw_iter-only target vs the model '
        '(areas 0..7 x 0..7 at small / negative / +-2^20 positions, streams shorter / exact / longer than the area, target boxes '
        'containing / cutting / missing the area); p_fc_call: trait default = native target = explicit row-major reference; '
        'p_img_paths: Image / SubImage (7 raw widths x 2 orders) give the same pixel map on draw_iter-only, native and draining native targets.')
PARTIAL = []
TRUSTED = []
ASSUMPTIONS = []


def fc(rng, pre):
    aw, ah = rng.randrange(0, 8), rng.randrange(0, 8)
    k = rng.random()
    if k < 0.15:
        ax, ay = rng.choice([-1, 1]) * rng.randrange(2 ** 20 - 20, 2 ** 20), rng.choice([-1, 1]) * rng.randrange(2 ** 20 - 20, 2 ** 20)
    else:
        ax, ay = rng.randrange(-9, 10), rng.randrange(-9, 10)
    n = aw * ah
    k = rng.random()
    if k < 0.4:
        cnt = n
    elif k < 0.7:
        cnt = rng.randrange(0, n + 1)
    else:
        cnt = n + rng.randrange(1, 9)
    k = rng.random()
    if k < 0.4:
        bb = (ax - 1, ay - 1, aw + 2, ah + 2)
    elif k < 0.9:
        bb = (ax + rng.randrange(-3, aw + 2), ay + rng.randrange(-3, ah + 2), rng.randrange(0, aw + 4), rng.randrange(0, ah + 4))
    else:
        bb = (ax + aw, ay, 2, 2)
    return J(pre + 'fc_call', ax, ay, aw, ah, cnt, rng.randrange(1000), *bb)


def cases(tier, rng):
    for _ in range(3000 if tier == 'quick' else 60000):
        yield fc(rng, '')


def search(tier, rng):
    for _ in range(3000 if tier == 'quick' else 60000):
        yield fc(rng, 'p_')
    N = 6 if tier == 'quick' else 12
    for w in range(N + 1):
        for h in range(N + 1):
            for bpp in base.BPPS:
                alt = rng.randrange(2)
                for nsub in (0, rng.choice([1, 2])):
                    yield base.draw_case(rng, 'p_', bpp, alt, w, h, nsub).replace('p_img_draw', 'p_img_paths', 1)
