"""C01 (b), join part: pixels() and draw() of thick polylines give one image, with the concrete generator of Model/Join.v."""
from common import *

RULE = ('no cases of its own: the model functions of the theorems (poly_thick_points = pixels(), poly_thick_rects = the fill_solid rectangles of '
        'draw()) are compared with the implementation by the C07 join suites join_poly_pixels / join_poly_rects (exact order), and the search '
        'p_thick_join (C07_join.py) compares the pixel maps of pixels() and draw() on the implementation for thick polylines and stroked triangles')
PARTIAL = ['C01_join_triangle_pixels_draw carries the computable hypothesis jt_fused (the first next() of the non-fused triangle::ScanlineIterator '
           'does not answer None while a later row has lines). It is a theorem for stroke width 0 and for the collapsed Inside stroke '
           '(C01_join_triangle_fused_fill_like) and for the stroke-only 1 px outline with every alignment (C01_join_triangle_fused_w1_any, hence C01_join_triangle_pixels_draw_w1_any without the hypothesis) and for width 1 together with a fill colour (C01_join_triangle_pixels_draw_w1_fill); with is_collapsed decided for width 1 (collapsed <-> no area) this gives C01_join_triangle_pixels_draw_w1_all: every triangle, alignment and fill with stroke width 1; for the remaining strokes it is '
           'evaluated by the model oracle on every generated triangle (suite join_tri_fused, never false; exhaustive on a 6x6 grid for widths 1..3) '
           'and searched on the implementation by p_thick_join, but not proved: that needs the top corner of the stroke to lie on a DRAWN edge '
           'for every join kind, skeleton segments included']
ASSUMPTIONS = ['C01_join_*_pixels_draw: vertices and corners of the thick segments within +-2^29; input-only forms (_range) for vertices within +-V, '
               'V + 6*width + 8 <= 8191']
