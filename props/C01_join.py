"""C01 (b), join part: pixels() and draw() of thick polylines give one image, with the concrete generator of Model/Join.v."""
from common import *

RULE = ('no cases of its own: the model functions of the theorems (poly_thick_points = pixels(), poly_thick_rects = the fill_solid rectangles of '
        'draw()) are compared with the implementation by the C07 join suites join_poly_pixels / join_poly_rects (exact order), and the search '
        'p_thick_join (C07_join.py) compares the pixel maps of pixels() and draw() on the implementation for thick polylines and stroked triangles')
PARTIAL = ['stroked / filled triangles: C01_join_triangle_pixels_draw is OPEN (the model Model/JoinTri.v has both consumers, jt_pixels and jt_draw, and is '
           'compared with the implementation; pixels() keeps calling the non-fused scanline iterator after an initial None, draw() does not: the '
           'two agree when the first row of the styled bounding box is not empty); the abstract-generator glue of C01_tri.v covers the consumers']
ASSUMPTIONS = ['C01_join_polyline_pixels_draw: corners of the thick segments within +-2^29 (poly_box_ok); input-only form for vertices within +-V, '
               'V + 6*width + 8 <= 322']
