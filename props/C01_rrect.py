"""C01(b), RoundedRectangle part: pixels() and draw() give the same image."""
from common import *
from rrect_common import *
from C06_rrect import styled, tbox

RULE = ('rrect correspondence rr_styled (model draw_styled call list rendered on a draw_iter-only/native target, model StyledPixelsIterator list; see C06 part). '
        'rrect search p_rr_pixels_draw on the implementation: image of draw() on a draw_iter-only target == on a native target == image of pixels() fed to '
        'draw_iter, on large and on clipping target boxes; pixels() yields no point twice; random small/medium shapes x styles incl. stroke colour present '
        'with width 0 (pixels() branches on stroke_color, draw() on effective_stroke_color) and fill only with width > 0.')
PARTIAL = []
ASSUMPTIONS = ['rrect: see the C06 rrect part (styled_ok range; class K06_rrect_fill_outside_stroke excluded where stated)']


def cases(tier, rng):
    n = 3000 if tier == 'quick' else 60000
    for _ in range(n):
        g = styled(rng)
        if rng.random() < 0.3:
            g[14] = 0          # width 0 with a stroke colour
        yield J('rr_styled', *g, *tbox(rng, g))


def search(tier, rng):
    yield 'p_rr_pixels_draw -13 3 57 42 57 2 0 0 48 25 8 2 5 0 1 1 -100 -100 300 300'
    n = 10000 if tier == 'quick' else 250000
    for _ in range(n):
        g = styled(rng)
        k = rng.random()
        if k < 0.2:
            g[14] = 0
        elif k < 0.4:
            g[13] = 0          # fill only, stroke width kept
        yield J('p_rr_pixels_draw', *g, *tbox(rng, g))
