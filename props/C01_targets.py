"""C01 part (a): draw_iter-only target (real trait defaults) vs native target - same pixel map for every call."""
from common import *
import C03 as _c03

RULE = ('targets: correspondence = random call histories without adapters (draw_iter, fill_contiguous full/short/over-long/'
        'endless, fill_solid, clear; parents with non-origin and empty boxes) on the real draw_iter-only recording target '
        '(trait defaults) vs paint DefaultOnly and on the native reference target vs paint Native; search = the same histories, '
        'also through adapter stacks up to depth 4, run on both real targets whose pixel maps and reported boxes must be equal '
        '(p_c01_calls), and draw() of every built-in drawable family with random styles and positions partly/fully outside on '
        'both targets, directly / clipped / translated+cropped (p_c01_zoo).')
ASSUMPTIONS = ['targets: fill areas and the target box have extents and far edges inside i32 (rect_fits)']
TRUSTED = ['targets: the native reference target of the harness (harness/src/util.rs NativeTarget) is the documented meaning of '
           'fill_contiguous / fill_solid / clear']
PARTIAL = []
# Properties/C01_targets_bridge.v (no dynamic part of its own): C01_bridge_rrect_* / C01_bridge_image_* identify the private
# target semantics of the rounded-rectangle and image parts with Model/Target.v's render (both kinds of target);
# C01_text_calls_fit / C01_text_render_target / C01_text_default_native: every fill area Text::draw forwards fits, so
# C01_targets_render_default_native applies to text with input-level hypotheses only (font_ok, text_in_range).


def cases(tier, rng):
    n = 1500 if tier == 'quick' else 40000
    for _ in range(n):
        h = _c03.history(rng, maxdepth=0, maxops=4)
        yield 'tstack 0 ' + h
        yield 'tstack 1 ' + h


def search(tier, rng):
    n = 2500 if tier == 'quick' else 80000
    for i in range(n):
        yield 'p_c01_calls ' + _c03.history(rng, maxdepth=0 if i % 3 == 0 else 4)
    for i in range(n):
        fam = FAMILIES[i % len(FAMILIES)]
        bb = (rng.randrange(-10, 11), rng.randrange(-10, 11), rng.choice([0, 1, 5, 20, 33, 64]), rng.choice([0, 1, 7, 20, 40, 64]))
        yield J('p_c01_zoo', *bb, rng.randrange(3), zoo_case(rng, fam))
