"""C01, triangle / polyline part: Styled<Triangle> and Styled<Polyline> draw the same image through pixels() and draw()."""
from common import *
import importlib.util, os

_spec = importlib.util.spec_from_file_location('c19_gen', os.path.join(os.path.dirname(os.path.abspath(__file__)), 'C19.py'))
_c19 = importlib.util.module_from_spec(_spec)
_spec.loader.exec_module(_c19)

RULE = ('triangle/polyline: correspondence of the styled model (coq/Model/Tristyled.v): the consumers with the stroke-width-0 generator and the thin polyline '
        'directly, the STROKE branches through the pipeline model (join_tri_pixels / join_tri_rects: widths 0..6, 3 alignments, fill on/off, all triples '
        'of a 4x4 grid + random) which C01_bridge_tri_jt_pixels / _jt_draw prove to be the same consumers; '
        'Styled<Triangle> with stroke width 0 (pixels() list and the fill_solid calls of draw(), all fill/stroke-colour/alignment combinations) on ALL '
        'vertex triples of a 5x5 grid + random ones, Styled<Polyline> with width 0 and 1 on all vertex lists of length 0..=4 over a 3x3 grid + random ones; '
        'search p_tri_styled (implementation only, ANY stroke width 0..=12, 3 alignments, fill/stroke present/absent): pixels() image = draw() image on a '
        'draw_iter-only and on a native target, no pixel with two colours, everything inside the styled bounding box, transparent draws nothing, '
        'width 0 triangle = points() in the fill colour, thin polyline = points() in the stroke colour; on all vertex triples of a 4x4 grid x 18 styles, '
        'random triangles/polylines up to +-30.')
PARTIAL = ['C01_bridge_tri_stroked_pixels_draw_partial (full: pixels() = draw() for every stroked triangle; proved: for ANY rows of the un-fused scanline '
           'generator the two consumers write the same list provided the first two rows of the styled box are not both empty while a later row is not '
           '(first_rows_ok); that this holds for the real generator is proved for stroke width 0 only, for wider strokes it is a computable hypothesis '
           '(never false in 4 million brute-force cases of the audit) - compared by p_tri_styled / p_paths)',
           'C01_tri_polyline_glue_pixels_draw holds for ANY output of the per-row intersections; the thick polyline generator itself is in the join part (C01_join)']
TRUSTED = ['modelled, not verified: DrawTarget::fill_solid(area, c) stores c at every point of area (row-major), Translated<T>::fill_solid shifts the area '
           '(properties C01a/C03 are about these)']
ASSUMPTIONS = ['scanline coordinates within +-2^30 (no saturation in Rectangle::points of a one-row rectangle)']


def styles_small():
    for fill in (0, 1):
        for stroke in (0, 1):
            for w in (0, 1, 2, 3, 5):
                for al in (0, 1, 2):
                    if w == 0 and al != 1 and fill == 0:
                        continue
                    yield J('S', fill, stroke, w, al)


def cases(tier, rng):
    trip = list(_c19.grid_triples(4 if tier == 'quick' else 5))
    for t in trip:
        k = rng.randrange(12)
        yield J('tri_styled_w0', *t, 1, k % 2, k % 3)
        if rng.random() < 0.3:
            yield J('tri_styled_w0_draw', *t, 1, k % 2, k % 3)
    for t in _c19.grid_triples(3):
        for fill in (0, 1):
            for stroke in (0, 1):
                for al in (0, 1, 2):
                    yield J('tri_styled_w0', *t, fill, stroke, al)
                    yield J('tri_styled_w0_draw', *t, fill, stroke, al)
    n = 1500 if tier == 'quick' else 25000
    for _ in range(n):
        t = _c19.rnd_tri(rng)
        yield J('tri_styled_w0', *t, rng.randrange(2), rng.randrange(2), rng.randrange(3))
        yield J('tri_styled_w0_draw', *_c19.rnd_tri(rng), rng.randrange(2), rng.randrange(2), rng.randrange(3))
    for vs in _c19.poly_lists(_c19.PTS3, 3 if tier == 'quick' else 4):
        yield J('poly_styled_thin', rng.randrange(-3, 4), rng.randrange(-3, 4), 1, 1, len(vs), *_c19.flat(vs))
    for _ in range(n):
        vs = _c19.rnd_poly(rng)
        yield J('poly_styled_thin', rng.randrange(-20, 21), rng.randrange(-20, 21), rng.randrange(2), rng.randrange(2), len(vs), *_c19.flat(vs))
    # the STROKE branches of the two consumers (Model/Tristyled.v) run inside the pipeline model Model/JoinTri.v
    # (C01_bridge_tri_jt_pixels / _jt_draw): suites join_tri_pixels / join_tri_rects  (w align fill x1 y1 x2 y2 x3 y3) of the join part
    for k, t in enumerate(_c19.grid_multisets(4 if tier == 'quick' else 5)):
        w, al, fl = 1 + k % 4, k % 3, (k // 3) % 2
        yield J('join_tri_pixels', w, al, fl, *t)
        yield J('join_tri_rects', w, (al + 1) % 3, 1 - fl, *t)
    for _ in range(n // 3):
        t = _c19.rnd_tri(rng, 20)
        yield J(rng.choice(['join_tri_pixels', 'join_tri_rects']), rng.randrange(0, 7), rng.randrange(3), rng.randrange(2), *t)


def search(tier, rng):
    sts = list(styles_small())
    for t in _c19.grid_multisets(4 if tier == 'quick' else 5):
        vs = [(t[0], t[1]), (t[2], t[3]), (t[4], t[5])]
        for k, s in enumerate(sts):
            if tier == 'quick' and (k + t[0] + 2 * t[3]) % 3:
                continue
            yield J('p_tri_styled', 'tri', *t, s)
    n = 4000 if tier == 'quick' else 80000
    for k in range(n):
        fam = 'tri' if k % 2 else 'poly'
        yield J('p_tri_styled', zoo_case(rng, fam, maxw=12))
    for k in range(n // 4):
        # small shapes with strokes wider than the shape
        yield J('p_tri_styled', zoo_case(rng, 'tri' if k % 2 else 'poly', c=lambda r: r.randrange(-6, 7), e=lambda r: r.randrange(0, 6), maxw=9))
