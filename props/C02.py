"""C02 - Bounding boxes contain everything that is drawn  (metadata; generators live here and/or in props/C02_*.py parts)"""
CLAIMED = False   # set True by the owner once ./check C02 passes with real theorems
LEVEL = 'proof'
LEVEL_TEXT = 'TODO'
LEVEL_NOTE = 'TODO'
