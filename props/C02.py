"""C02 - Bounding boxes contain everything that is drawn  (metadata + implementation-side search; Coq parts in Properties/C02_*.v)"""
from common import *

CLAIMED = True
LEVEL = 'proof'
LEVEL_TEXT = ('Proof, assembled from parts (coq/Properties/C02_*.v): everything drawn lies inside bounding_box() and transparent styles draw nothing, as theorems over the executable models for styled Rectangle/Circle/Ellipse (C02_circle_*: draw and pixels(), every stroke width and alignment), RoundedRectangle (C02_rrect_*), Sector and Arc (C02_sector_*, C02_arc_*), images and sub-images (C02_image_*, box is tight), text with ANY font record satisfying font_wf and, by reflection over the regenerated font table, every built-in font with all decorations/baselines/alignments/line heights (C02_text_*), fill-only triangles, triangle edge lines and thin polylines (C02_tri_*), and for thick strokes: every pixel of a thick polyline in the styled box when no segment collapses to a skeleton, the stroke lines of triangles (Center/Outside, width >= 2), fill-only / collapsed / width-1 Center triangles, all thick-segment corners and the drawn skeleton edge (C02_join_*), thick lines on a finite grid (C02_line_*).')
LEVEL_NOTE = ('Partial where listed: pixel-level containment of thick strokes is a theorem except for skeleton segments, Inside strokes of width >= 2 and thick lines beyond the grid; those are covered by the model-independent searches p_thick_bbox, p_thick_grid, p_thick_skel and p_bbox (all families, widths up to 24). Models tied to the code by differential testing; range hypotheses per part (2^27..2^29).')
PARTIAL = ['thick strokes: pixel-level containment is a theorem for thick polylines without a skeleton segment, triangle stroke lines (Center/Outside, w >= 2), fill-like and width-1 Center triangles, and thick lines on the grid |d| <= 24, w <= 16; skeleton segments, Inside strokes of width >= 2 and lines beyond the grid: searches p_thick_bbox / p_thick_grid / p_thick_skel / p_bbox', 'thin polylines: proved against the styled box (C02_tri_polyline_thin_in_styled_bbox) and against Polyline::bounding_box()']
RULE = ('search p_bbox: every drawable family of the zoo x random styles (stroke widths 0..24 incl. wider than the shape, 3 alignments, '
        'fill/stroke present/absent) x positions: every pixel drawn (native and draw_iter-only target) and every pixels() item lies in bounding_box(); '
        'transparent styles draw nothing.')


def search(tier, rng):
    n = 8000 if tier == 'quick' else 150000
    for c in axis_line_cases():
        yield J('p_bbox', c)
    for k in range(n):
        fam = FAMILIES[k % len(FAMILIES)]
        yield J('p_bbox', zoo_case(rng, fam, maxw=24, dotted=True))
