"""C02 - Bounding boxes contain everything that is drawn  (metadata + implementation-side search; Coq parts in Properties/C02_*.v)"""
from common import *

CLAIMED = False  # until theorem parts are merged
LEVEL = 'proof'
LEVEL_TEXT = 'TODO'
LEVEL_NOTE = 'TODO'
RULE = ('search p_bbox: every drawable family of the zoo x random styles (stroke widths 0..24 incl. wider than the shape, 3 alignments, '
        'fill/stroke present/absent) x positions: every pixel drawn (native and draw_iter-only target) and every pixels() item lies in bounding_box(); '
        'transparent styles draw nothing.')


def search(tier, rng):
    n = 8000 if tier == 'quick' else 150000
    for k in range(n):
        fam = FAMILIES[k % len(FAMILIES)]
        yield J('p_bbox', zoo_case(rng, fam, maxw=24))
