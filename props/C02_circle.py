"""C02 part for the families rectangle / circle / ellipse (theorems in coq/Properties/C02_circle.v)."""
from common import *

COLOURS = [(1, 1), (1, 0), (0, 1), (0, 0)]


def cases(tier, rng):
    # model <-> code tie of the styled bounding box (SBB), stroke area and the drawn pixel maps
    n = 300 if tier == 'quick' else 5000
    for _ in range(n):
        x, y = coord(rng), coord(rng)
        st = (rng.choice([0, 1, 2, rng.randrange(0, 25)]), rng.randrange(3), *rng.choice(COLOURS))
        yield J('circ_styled', x, y, rng.choice([0, 1, 2, rng.randrange(0, 40)]), *st)
        yield J('ell_styled', x, y, rng.choice([0, 1, rng.randrange(0, 30)]), rng.choice([0, 1, rng.randrange(0, 30)]), *st)
        yield J('rect_styled', x, y, rng.choice([0, 1, rng.randrange(0, 30)]), rng.choice([0, 1, rng.randrange(0, 30)]), *st)


RULE = ('part circle (rectangle/circle/ellipse): correspondence of styled_bounding_box(), stroke_area() and the drawn pixel maps between '
        'extracted model and code on random styled shapes incl. zero-sized shapes, strokes wider than the shape and transparent styles.')
ASSUMPTIONS = ['part circle: as C06 (coordinates, extents, stroke width within 2^27; solid stroke style for the rectangle)']
PARTIAL = []
TRUSTED = []
