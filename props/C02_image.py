"""C02, image part - search: the C09 draw cases judged by p_img_draw (exact pixel map inside the bounding box, box = placed size)"""
from common import *
import C09 as base

RULE = ('image part: p_img_draw on ImageRaw / nested sub images x 7 raw widths x 2 orders x sizes 0..6 x offsets x target boxes: '
        'the drawn pixel map is exactly the box contents (nothing outside bounding_box()).')
PARTIAL = []
TRUSTED = []
ASSUMPTIONS = []


def search(tier, rng):
    N = 6 if tier == 'quick' else 12
    for w in range(N + 1):
        for h in range(N + 1):
            for bpp in base.BPPS:
                alt = rng.randrange(2)
                yield base.draw_case(rng, 'p_', bpp, alt, w, h, 0)
                yield base.draw_case(rng, 'p_', bpp, alt, w, h, rng.choice([1, 2]))
