"""C02, join part: thick polylines and stroked triangles stay inside their styled bounding box (implementation-side search).
The bounding box of a thick stroke is the fold of ThickSegment::edges_bounding_box over the segments (Model/Join.v
segments_bounding_box); the pixel-exact model of both (Model/Join.v, Model/JoinTri.v) is compared under C07's join suites."""
from common import *
import importlib.util, os

_spec = importlib.util.spec_from_file_location('c07_join_gen', os.path.join(os.path.dirname(os.path.abspath(__file__)), 'C07_join.py'))
_g = importlib.util.module_from_spec(_spec)
_spec.loader.exec_module(_g)

RULE = ('correspondence: styled bounding boxes of thick polylines and stroked triangles (join_poly_bbox, join_tri_bbox) incl. a display-scale stratum '
        '(+-1024, widths up to 128) and the input of the repaired finding; search p_thick_bbox: thick polylines (2..6 vertices, widths 2..30, weighted towards widths 2..4 where a join can collapse to one '
        'point) and stroked triangles (all alignments): every pixel drawn lies inside the styled bounding box; p_thick_grid: ALL ordered vertex triples of a 9x9 grid as '
        'stroked triangle (width 2 Center/Outside, width 3 all alignments) and as 3-vertex polyline (width 2): every pixels() item lies inside the styled bounding box; p_thick_skel (directed): every vertex triple of a 13x13 grid whose join has coincident corners '
        '(hook line_join) extended by 48 predecessors / successors to 4- and 5-vertex polylines (widths 2, 3) and as triangle x 3 alignments: drawn inside the styled box')
PARTIAL = ['C02_join_polyline_drawn_in_bbox_partial (full statement: every pixel of a thick polyline lies in the styled bounding box; proved when no '
           'segment is a skeleton and corners lie within +-2^29; the skeleton case is covered by the search p_thick_bbox)',
           'C02_join_triangle_stroke_in_bbox_partial (stroke lines, Center / Outside, width >= 2, no skeleton segment), C02_join_triangle_fill_like_in_bbox '
           '(width 0 and the collapsed Inside stroke) and C02_join_triangle_w1_all_drawn_in_bbox (width 1: EVERY triangle, alignment and fill; from C02_join_triangle_w1_any_drawn_in_bbox / _w1_fill_drawn_in_bbox and the collapsed case) together leave open: fill lines of rows '
           'without stroke intersection for width >= 2, the non-collapsed Inside stroke of width >= 2 (the inset corners must stay inside the vertex box), '
           'skeleton segments; all searched by p_thick_bbox (exhaustive 7x7 / 5x5 grids for polylines: 861 221 '
           'cases, none outside the box)']


def cases(tier, rng):
    """correspondence for the model functions of the C02_join theorems (Model/Join.v poly_thick_bounding_box, Model/JoinTri.v
    jt_styled_bounding_box): styled bounding boxes of thick polylines and stroked triangles, incl. the display-scale stratum"""
    n = 1500 if tier == 'quick' else 30000
    yield 'join_poly_bbox 2 -7 -7 -9 -10 -3 -21'
    for k in range(n):
        big = k % 4 == 0
        w = _g.big_width(rng) if big else rng.choice([2, 2, 3, 4, _g.width(rng)])
        yield J('join_poly_bbox', w, *_g.flat(_g.big_poly(rng) if big else _g.poly_pts(rng)))
        yield J('join_tri_bbox', w if rng.random() < 0.8 else rng.choice([0, 1]), rng.randrange(3), 0,
                *_g.flat(_g.big_tri(rng) if big else _g.tri_pts(rng)))


def search(tier, rng):
    n = 3000 if tier == 'quick' else 60000
    # the recorded defect first (known finding K02_thick_skeleton_bbox)
    yield 'p_thick_bbox poly 2 -7 -7 -9 -10 -3 -21'
    # exhaustive small-grid stratum at widths 2..3 (collapsed join corners / skeleton segments; see c02_join.rs thick_grid):
    # all ordered vertex triples of a 9x9 grid, one case line per first vertex (sharded over the cores)
    for i in range(81):
        yield J('p_thick_grid tri', 2, 1 + i % 2, 9, 9, i)
        yield J('p_thick_grid poly', 2, 9, 9, i)
        if tier != 'quick' or i % 3 == 0:
            yield J('p_thick_grid tri', 3, i % 3, 9, 9, i)
        # directed: every collapsed join of the grid extended to 4- and 5-vertex polylines (c02_join.rs thick_skel)
    for i in range(169):
        yield J('p_thick_skel', 2, 13, 13, i)
        if tier != 'quick' or i % 3 == 0:
            yield J('p_thick_skel', 3, 13, 13, i)
    for _ in range(n):
        w = rng.choice([2, 2, 2, 3, 3, 4, _g.width(rng)])
        yield J('p_thick_bbox poly', w, *_g.flat(_g.poly_pts(rng)))
        yield J('p_thick_bbox tri', w, rng.randrange(3), *_g.flat(_g.tri_pts(rng)))
        if _ % 5 == 0:           # display-scale stratum: +-1024, widths up to 128
            yield J('p_thick_bbox poly', _g.big_width(rng), *_g.flat(_g.big_poly(rng)))
            yield J('p_thick_bbox tri', _g.big_width(rng), rng.randrange(3), *_g.flat(_g.big_tri(rng)))
