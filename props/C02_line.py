"""C02, line part: Line::points() in bounding_box(); Styled<Line> pixels in styled bounding_box(); transparent draws nothing."""
from common import *

RULE = ('line part: correspondence line_bbox / line_sbb (Line::bounding_box, styled_bounding_box vs model) on grid deltas x widths and '
        'random lines; search p_line_bbox: every delta of [-R,R]^2 (R=7 quick / 12 thorough) x widths 0..9/12 and random lines up to '
        '300 long x widths up to 40: every points()/pixels() item and every pixel drawn on both recording targets lies in the '
        '(styled) bounding box, width <= 1 boxes coincide, transparent styles yield nothing.')
PARTIAL = ['C02_line_thick_in_bbox_grid_partial (full statement: thick_in_box l w for ALL lines and stroke widths; proved for '
           '|dx|,|dy| <= 24, w <= 16 by computation + rotation/translation symmetry; stroke width <= 1 is proved for all lines)']
TRUSTED = []
ASSUMPTIONS = []


def _line(rng, maxlen):
    x0, y0 = rng.randrange(-300, 301), rng.randrange(-300, 301)
    return (x0, y0, x0 + rng.randrange(-maxlen, maxlen + 1), y0 + rng.randrange(-maxlen, maxlen + 1))


def cases(tier, rng):
    R = 7 if tier == 'quick' else 12
    for x in range(-R, R + 1):
        for y in range(-R, R + 1):
            yield J('line_bbox', 3, -2, x, y)
    for _ in range(300 if tier == 'quick' else 5000):
        yield J('line_bbox', *_line(rng, rng.choice([5, 50, 100000])))
        yield J('line_sbb', *_line(rng, rng.choice([5, 30, 200])), rng.choice([0, 1, 2, 3, 5, 8, 13, 21, 40]))


def search(tier, rng):
    RT, WT = (7, 9) if tier == 'quick' else (12, 12)
    for x1 in range(-2 * RT, 2 * RT + 1):
        for y1 in range(-2 * RT, 2 * RT + 1):
            for w in range(0, WT + 1):
                yield J('p_line_bbox', 0, 0, x1, y1, w)
    for _ in range(1500 if tier == 'quick' else 30000):
        yield J('p_line_bbox', *_line(rng, rng.choice([4, 20, 80, 300])), rng.choice([0, 1, 2, 3, 4, 5, 7, 10, 16, 25, 40]))
