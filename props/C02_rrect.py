"""C02, RoundedRectangle part: everything drawn lies in the styled bounding box; transparent styles draw nothing."""
from common import *
from rrect_common import *
from C06_rrect import styled

RULE = ('rrect search p_rr_bbox on the implementation: every pixel of draw() (both target kinds) and of pixels() lies in Styled::bounding_box(); '
        'transparent styles (no fill, and no stroke colour or width 0) draw nothing; random small/medium shapes, stroke widths up to 40. '
        'The correspondence of styled_bounding_box / draw / pixels is the rr_styled suite of the C06 part.')
PARTIAL = []
ASSUMPTIONS = ['rrect: see the C06 rrect part (styled_ok range; class K06_rrect_fill_outside_stroke excluded where stated)']


def cases(tier, rng):
    n = 1500 if tier == 'quick' else 30000
    for _ in range(n):
        g = styled(rng)
        if rng.random() < 0.3:
            g[12] = 0
            g[13] = rng.choice([0, 7])
            g[14] = 0 if g[13] else g[14]      # transparent
        yield J('rr_styled', *g, -300, -300, 600, 600)


def search(tier, rng):
    n = 8000 if tier == 'quick' else 200000
    for _ in range(n):
        g = styled(rng)
        if rng.random() < 0.2:
            g[12] = 0
            g[13] = rng.choice([0, 7])
            g[14] = 0 if g[13] else g[14]
        yield J('p_rr_bbox', *g)
