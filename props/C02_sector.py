"""C02, sector + arc part: styled sectors/arcs draw only inside their styled bounding box; transparent draws nothing."""
from common import *
from C18_sector import hook, D, rand_angle, rand_sweep, rand_style

RULE = ('sector/arc: styled pixels()/draw() and bounding_box() of the implementation against the model (normals and bevel line via '
        'the hook) for random angle pairs, d 0..40, stroke widths 0..24 (wider than the shape included), all alignments; '
        'search p_bbox on arc/sector zoo cases with whole-degree angles')
ASSUMPTIONS = ['styled bounding box within +-2^29 (rect_ok), stroke width >= 0 (u32)']


def cases(tier, rng):
    n = 1200 if tier == 'quick' else 25000
    spec = []
    for _ in range(n):
        d = rng.randrange(0, 41)
        w = rng.choice([0, 1, 2, 3]) if rng.random() < 0.3 else rng.randrange(0, 25)
        st = (rng.choice([0, 7]), rng.choice([0, 9, 9]), w, rng.randrange(3))
        spec.append((coord(rng), coord(rng), d, rand_angle(rng), rand_sweep(rng), st))
    hs = hook([(t[3], t[4]) for t in spec])
    out = []
    for (x, y, d, a, s, st), nn in zip(spec, hs):
        out.append(J('sec_styled', x, y, d, a, s, *nn[:5], *nn[5:8], *st))
        out.append(J('arc_styled', x, y, d, a, s, *nn[:5], *st))
    return out


def search(tier, rng):
    n = 1500 if tier == 'quick' else 40000
    for k in range(n):
        yield J('p_bbox', zoo_case(rng, 'arc' if k % 2 else 'sector', maxw=24))
