"""C02 text clause: everything Text draws lies in its bounding box; transparent style draws nothing (part of C02)."""
from common import *
import C14 as g
import C15 as t

RULE = ('text: correspondence c15_text (pixel map + bounding_box of Text on synthetic font records vs the extracted model, decoration-heavy styles); '
        'search p_c02_text = all built-in fonts x 16 colour/decoration roles (TextColor and custom decoration colours) x 3 alignments x 4 baselines x line heights x '
        'multi-line strings (LF / CR LF / empty lines) x positions: every pixel on both recording targets lies in bounding_box(), transparent styles reach the target '
        'with no call; p_c02_text_synth = the same on custom font records with spacing 0..3 and decoration rectangles anywhere inside the glyph height / below it.')
ASSUMPTIONS = ['text: every line inside |coordinates| <= 2^28 (draw_ok); custom fonts: strikethrough inside the glyph height (font_wf) and, for fonts with spacing > 0, '
               'a text or background colour set (otherwise draw_string advances by n*(cw+sp) and the decorations overshoot the measured box by the spacing: see notes/findings/FINDINGS-C02.md)']
TRUSTED = list(t.TRUSTED)
PARTIAL = []


def cases(tier, rng):
    n = 2500 if tier == 'quick' else 50000
    for k in range(n):
        data = g.mapping_string(rng)
        chars = g.expand(data)
        f = g.synth_font(rng, len(chars))
        x, y = g.position(rng)
        yield J('c15_text', *f, *g.style(rng, 12 + k % 4), *t.tstyle(rng), x, y, rng.randrange(0, len(chars) + 3), g.lst(data), g.lst(t.multiline(rng, chars)))


def search(tier, rng):
    maps, fonts = g.table()
    n = 6000 if tier == 'quick' else 120000
    for k in range(n):
        name, mi = fonts[k % len(fonts)] if k < 4 * len(fonts) else fonts[rng.randrange(len(fonts))]
        x, y = g.position(rng)
        yield J('p_c02_text', name, *g.style(rng, k % 16 if k % 3 else 12 + k % 4), *t.tstyle(rng), x, y, g.lst(t.multiline(rng, maps[mi][1])))
    for k in range(n // 2):
        data = g.mapping_string(rng)
        chars = g.expand(data)
        f = list(g.synth_font(rng, len(chars)))
        if rng.random() < 0.7:                     # strikethrough inside the glyph height
            f[9] = rng.choice([0, 1, 2])
            f[8] = rng.randrange(0, max(1, f[3] - f[9] + 1))
        x, y = g.position(rng)
        yield J('p_c02_text_synth', *f, *g.style(rng, k % 16), *t.tstyle(rng), x, y, rng.randrange(0, len(chars) + 3), g.lst(data), g.lst(t.multiline(rng, chars)))
