"""C02, triangle / polyline part: bounding boxes contain everything drawn; transparent draws nothing."""
from common import *
import importlib.util, os

_spec = importlib.util.spec_from_file_location('c19_gen', os.path.join(os.path.dirname(os.path.abspath(__file__)), 'C19.py'))
_c19 = importlib.util.module_from_spec(_spec)
_spec.loader.exec_module(_c19)

RULE = ('triangle/polyline: search p_bbox (every drawn pixel on a native and on a draw_iter-only target and every pixels() item lies in the styled '
        'bounding_box(); transparent draws nothing) and p_tri_styled on styled triangles and polylines with stroke widths 0..=24 (incl. wider than the '
        'shape), 3 alignments, fill/stroke present/absent: ALL vertex triples (up to order) of a 5x5 grid x 12 styles, polylines over a 3x3 grid with '
        '0..=4 vertices x widths 1..=5, random ones up to +-30 and small ones with strokes wider than the shape.')
PARTIAL = ['thick strokes (width >= 1 for triangles, >= 2 for polylines): no pixel-level theorem in this part (Properties/C02_join.v has the corner containment); search p_bbox / p_tri_styled / p_thick_bbox']
TRUSTED = []
ASSUMPTIONS = []

STYLES = ['S 1 1 1 0', 'S 1 1 1 1', 'S 0 1 1 2', 'S 0 1 2 0', 'S 1 1 2 1', 'S 0 1 3 2', 'S 1 1 3 0', 'S 0 1 4 1', 'S 1 1 5 2', 'S 1 0 3 0', 'S 0 1 9 1', 'S 1 1 24 2']


def cases(tier, rng):
    """ties of the models the C02_tri theorems cite, so that `./check C02` alone corresponds them: Triangle::points()/bounding_box(),
    the styled fill (width 0), Polyline::points()/bounding_box(), the thin styled polyline, and the styled box of a 1px polyline
    (Model/Join.v poly_thick_bounding_box, suite join_poly_bbox of the join part)"""
    for k, t in enumerate(_c19.grid_multisets(5)):
        yield J('tri_points', *t)
        yield J('tri_bbox', *t)
        f, sc, al = _c19.STYLES_W0[k % 12]
        yield J('tri_styled_w0', *t, f, sc, al)
    n = 300 if tier == 'quick' else 5000
    for _ in range(n):
        t = _c19.rnd_tri(rng)
        yield J('tri_points', *t)
        yield J('tri_bbox', *t)
        yield J('tri_styled_w0', *_c19.rnd_tri(rng), rng.randrange(2), rng.randrange(2), rng.randrange(3))
    for vs in _c19.poly_lists(_c19.PTS3, 3 if tier == 'quick' else 4):
        yield J('poly_points', 0, 0, *_c19.flat(vs))
        yield J('poly_bbox', rng.randrange(-3, 4), rng.randrange(-3, 4), *_c19.flat(vs))
        yield J('poly_styled_thin', rng.randrange(-3, 4), rng.randrange(-3, 4), 1, 1, len(vs), *_c19.flat(vs))
        if len(vs) >= 2:
            yield J('join_poly_bbox', 1, *_c19.flat(vs))
    for _ in range(n):
        vs = _c19.rnd_poly(rng)
        tr = (rng.randrange(-20, 21), rng.randrange(-20, 21))
        yield J('poly_points', *tr, *_c19.flat(vs))
        yield J('poly_bbox', *tr, *_c19.flat(vs))
        yield J('poly_styled_thin', *tr, rng.randrange(2), rng.randrange(2), len(vs), *_c19.flat(vs))
        if len(vs) >= 2:
            yield J('join_poly_bbox', 1, *_c19.flat(vs))


def search(tier, rng):
    for t in _c19.grid_multisets(4 if tier == 'quick' else 5):
        for k, s in enumerate(STYLES):
            if tier == 'quick' and (k + t[2] + t[5]) % 2:
                continue
            yield J('p_bbox', 'tri', *t, s)
    for vs in _c19.poly_lists(_c19.PTS3, 3 if tier == 'quick' else 4):
        for w in (1, 2, 3, 5):
            yield J('p_bbox', 'poly', rng.randrange(-2, 3), rng.randrange(-2, 3), len(vs), *_c19.flat(vs), 'S', 0, 1, w, 1)
    n = 3000 if tier == 'quick' else 60000
    for k in range(n):
        yield J('p_bbox', zoo_case(rng, 'tri' if k % 2 else 'poly', maxw=24))
    for k in range(n // 3):
        yield J('p_bbox', zoo_case(rng, 'tri' if k % 2 else 'poly', c=lambda r: r.randrange(-6, 7), e=lambda r: r.randrange(0, 6), maxw=12))
