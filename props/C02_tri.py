"""C02, triangle / polyline part: bounding boxes contain everything drawn; transparent draws nothing."""
from common import *
import importlib.util, os

_spec = importlib.util.spec_from_file_location('c19_gen', os.path.join(os.path.dirname(os.path.abspath(__file__)), 'C19.py'))
_c19 = importlib.util.module_from_spec(_spec)
_spec.loader.exec_module(_c19)

RULE = ('triangle/polyline: search p_bbox (every drawn pixel on a native and on a draw_iter-only target and every pixels() item lies in the styled '
        'bounding_box(); transparent draws nothing) and p_tri_styled on styled triangles and polylines with stroke widths 0..=24 (incl. wider than the '
        'shape), 3 alignments, fill/stroke present/absent: ALL vertex triples (up to order) of a 5x5 grid x 12 styles, polylines over a 3x3 grid with '
        '0..=4 vertices x widths 1..=5, random ones up to +-30 and small ones with strokes wider than the shape.')
PARTIAL = ['C02_tri_polyline_thin_in_bbox_partial (thin polyline against Polyline::bounding_box(); full: against the styled box)',
           'thick strokes (width >= 1 for triangles, >= 2 for polylines): extents / edges_bounding_box not modelled, no theorem: search only']
TRUSTED = []
ASSUMPTIONS = []

STYLES = ['S 1 1 1 0', 'S 1 1 1 1', 'S 0 1 1 2', 'S 0 1 2 0', 'S 1 1 2 1', 'S 0 1 3 2', 'S 1 1 3 0', 'S 0 1 4 1', 'S 1 1 5 2', 'S 1 0 3 0', 'S 0 1 9 1', 'S 1 1 24 2']


def search(tier, rng):
    for t in _c19.grid_multisets(4 if tier == 'quick' else 5):
        for k, s in enumerate(STYLES):
            if tier == 'quick' and (k + t[2] + t[5]) % 2:
                continue
            yield J('p_bbox', 'tri', *t, s)
    for vs in _c19.poly_lists(_c19.PTS3, 3 if tier == 'quick' else 4):
        for w in (1, 2, 3, 5):
            yield J('p_bbox', 'poly', rng.randrange(-2, 3), rng.randrange(-2, 3), len(vs), *_c19.flat(vs), 'S', 0, 1, w, 1)
    n = 3000 if tier == 'quick' else 60000
    for k in range(n):
        yield J('p_bbox', zoo_case(rng, 'tri' if k % 2 else 'poly', maxw=24))
    for k in range(n // 3):
        yield J('p_bbox', zoo_case(rng, 'tri' if k % 2 else 'poly', c=lambda r: r.randrange(-6, 7), e=lambda r: r.randrange(0, 6), maxw=12))
