"""C03 - Clipped/cropped/translated/converted targets and trait defaults are exact  (metadata; generators live here and/or in props/C03_*.py parts)"""
CLAIMED = False   # set True by the owner once ./check C03 passes with real theorems
LEVEL = 'proof'
LEVEL_TEXT = 'TODO'
LEVEL_NOTE = 'TODO'
