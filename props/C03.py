"""C03 - Clipped/cropped/translated/converted targets and trait defaults are exact."""
from common import *

LEVEL = 'proof'
CLAIMED = True

RULE = ('correspondence: random histories of 1..4 operations (draw_iter with unordered/duplicate points, fill_contiguous with '
        'full / short / over-long / empty / endless colour streams, fill_solid, clear) issued through random adapter stacks of '
        'depth 0..4 (clipped, cropped, translated, color_converted; rectangles chosen relative to the current level box: '
        'overlapping, containing, inside, disjoint, zero-sized, flat) over parents with non-origin and empty bounding boxes, a '
        'share of them shifted to +-2^20; every history runs on a draw_iter-only parent (tstack 0: real trait defaults), on a '
        'native parent (tstack 1) and as call log (tcalls: the calls that reach the parent, i.e. the re-cut colour streams of '
        'Clipped::fill_contiguous); tcrop drives the Cropped colour iterator alone through a clipped target (all crop positions '
        'of a small grid + random). Compared: reported bounding_box() of the outermost adapter + root pixel map / call log. '
        'A case is non-trivial when the model result has a non-empty map / log. search (p_stack): the same histories on the '
        'implementation against an independent set-theoretic reference (half-open boxes in i64, one shift, a list of clip sets, '
        'iterated colour map), checking the bounding box reported at EVERY level and the root pixel map; thorough adds the '
        'exhaustive one-adapter grids.')
EXHAUSTIVE = {'quick': False, 'thorough': False}
ASSUMPTIONS = ['extents of every rectangle (parent box, adapter areas, fill areas) are at most i32::MAX (size_fits); for a '
               'draw_iter-only parent additionally the area that reaches it and its box have representable far edges (rect_fits: '
               'x+w, y+h <= i32::MAX) - outside this range Rectangle::points saturates and the trait defaults lose pixels',
               'coordinate additions (translate, top_left + offset) are modelled unbounded; that they stay inside i32 on '
               'display-scale inputs is C08, not C03']
TRUSTED = ['modelled, not verified: Iterator::nth / zip / filter / map / repeat of core as list functions (snth, szip, ...); '
           'usize arithmetic of Cropped::new as unbounded Z (exact while width*height < 2^32, see C08)',
           'the conforming parent target (stores pixels inside its box, ignores the rest) is the harness IterTarget/NativeTarget; '
           'colour types are two test colours K2 -> K with Into = (7c+3) mod 256']
PARTIAL = []


def trivial(line, res):
    if line.startswith('tstack'):
        return res.endswith('MAP ') or res.endswith('MAP')
    return res.strip() in ('', 'none', '0')


# ---- generators -----------------------------------------------------------------------------------
def near(rng, box, spread=3, good=0.0):
    """a rectangle related to `box` = (x0,y0,x1,y1) half open or None: overlapping / inside / containing / disjoint / degenerate;
    with probability `good` the result is guaranteed to overlap the box"""
    if box is None:
        x0, y0, x1, y1 = rng.randrange(-3, 4), rng.randrange(-3, 4), rng.randrange(-3, 4), rng.randrange(-3, 4)
        x1, y1 = max(x0, x1) + 1, max(y0, y1) + 1
    else:
        x0, y0, x1, y1 = box
    if rng.random() < good:
        # pick a point of the box and grow a rectangle around it
        cx, cy = rng.randrange(x0, x1), rng.randrange(y0, y1)
        ax, ay = cx - rng.randrange(0, spread + 3), cy - rng.randrange(0, spread + 3)
        return (ax, ay, cx - ax + 1 + rng.randrange(0, spread + 3), cy - ay + 1 + rng.randrange(0, spread + 3))
    k = rng.random()
    if k < 0.08:      # zero sized / flat, anywhere near
        w, h = rng.choice([(0, 0), (0, rng.randrange(1, 6)), (rng.randrange(1, 6), 0), (0, 40), (40, 0)])
        return (rng.randrange(x0 - 2, x1 + 2), rng.randrange(y0 - 2, y1 + 2), w, h)
    if k < 0.16:      # disjoint
        dx = rng.choice([-1, 1]) * (x1 - x0 + rng.randrange(0, 3))
        return (x0 + dx, y0 + rng.randrange(-2, 3), max(0, x1 - x0 - rng.randrange(0, 2)), rng.randrange(0, 5))
    if k < 0.24:      # equal
        return (x0, y0, x1 - x0, y1 - y0)
    if k < 0.34:      # containing
        a, b = rng.randrange(0, spread), rng.randrange(0, spread)
        return (x0 - a, y0 - b, x1 - x0 + a + rng.randrange(0, spread), y1 - y0 + b + rng.randrange(0, spread))
    # general: corners within spread of the box
    ax, ay = rng.randrange(x0 - spread, x1 + 1), rng.randrange(y0 - spread, y1 + 1)
    bx, by = rng.randrange(ax, x1 + spread + 1), rng.randrange(ay, y1 + spread + 1)
    return (ax, ay, bx - ax, by - ay)


def bx_of(r):
    x, y, w, h = r
    return None if w == 0 or h == 0 else (x, y, x + w, y + h)


def bx_and(a, b):
    if a is None or b is None:
        return None
    r = (max(a[0], b[0]), max(a[1], b[1]), min(a[2], b[2]), min(a[3], b[3]))
    return None if r[0] >= r[2] or r[1] >= r[3] else r


def bx_shift(a, dx, dy):
    return None if a is None else (a[0] + dx, a[1] + dy, a[2] + dx, a[3] + dy)


def stream(rng, n):
    """colour stream for an area of n points: full, short, over-long, empty, or endless"""
    k = rng.random()
    if k < 0.12:
        return J('I', rng.randrange(1, 250))
    if k < 0.5:
        m = n
    elif k < 0.75:
        m = rng.randrange(0, n + 1)
    elif k < 0.8:
        m = 0
    else:
        m = n + rng.randrange(1, 9)
    return J('L', m, *[rng.randrange(1, 250) for _ in range(m)]) if m else 'L 0'


def history(rng, maxdepth=4, maxops=4, big=None):
    """returns the case line without suite name and kind: '<bb> <nad> <ads> <nops> <ops>'"""
    base = (0, 0)
    if big is None:
        big = rng.random() < 0.12
    if big:
        base = (rng.choice([-1, 1]) * rng.randrange(2 ** 20 - 20, 2 ** 20 + 1), rng.choice([-1, 1]) * rng.randrange(2 ** 20 - 20, 2 ** 20 + 1))
    k = rng.random()
    if k < 0.08:
        bb = (rng.randrange(-4, 5), rng.randrange(-4, 5)) + rng.choice([(0, 0), (0, 5), (6, 0)])
    else:
        bb = (rng.randrange(-6, 9), rng.randrange(-6, 9), rng.randrange(1, 11), rng.randrange(1, 11))
    bb = (bb[0] + base[0], bb[1] + base[1], bb[2], bb[3])
    level = bx_of(bb)
    empty_origin = (bb[0], bb[1])
    depth = rng.choice([0, 1, 1, 2, 2, 3, 3, 4][:2 * maxdepth]) if maxdepth else 0
    ads = []
    for _ in range(depth):
        k = rng.random()
        ref = level if level is not None else (empty_origin[0], empty_origin[1], empty_origin[0] + 1, empty_origin[1] + 1)
        if k < 0.35:
            r = near(rng, ref, good=0.7)
            ads.append(J('C', *r))
            level = bx_and(bx_of(r), level)
        elif k < 0.62:
            r = near(rng, ref, good=0.7)
            ads.append(J('R', *r))
            s = bx_and(bx_of(r), level)
            if s is None:
                level = None
                empty_origin = (0, 0)
            else:
                level = bx_shift(s, -s[0], -s[1])
        elif k < 0.88:
            if big and rng.random() < 0.5:
                d = (rng.choice([-1, 1]) * rng.randrange(2 ** 20 - 9, 2 ** 20 + 1), rng.choice([-1, 1]) * rng.randrange(2 ** 20 - 9, 2 ** 20 + 1))
            else:
                d = (rng.randrange(-5, 6), rng.randrange(-5, 6))
            ads.append(J('T', *d))
            level = bx_shift(level, -d[0], -d[1])
            empty_origin = (empty_origin[0] - d[0], empty_origin[1] - d[1])
        else:
            ads.append('V')
    ref = level if level is not None else (empty_origin[0], empty_origin[1], empty_origin[0] + 2, empty_origin[1] + 2)
    ops = []
    for _ in range(rng.randrange(1, maxops + 1)):
        k = rng.random()
        if k < 0.25:
            n = rng.randrange(0, 9)
            pts = []
            for _ in range(n):
                if pts and rng.random() < 0.25:
                    p = rng.choice(pts)[:2]
                else:
                    p = (rng.randrange(ref[0] - 3, ref[2] + 3), rng.randrange(ref[1] - 3, ref[3] + 3))
                pts.append((p[0], p[1], rng.randrange(1, 250)))
            ops.append(J('D', n, *[v for p in pts for v in p]))
        elif k < 0.65:
            r = near(rng, ref, 4, good=0.5)
            r = (r[0], r[1], min(r[2], 14), min(r[3], 14))
            ops.append(J('F', *r, stream(rng, r[2] * r[3])))
        elif k < 0.9:
            r = near(rng, ref, 4, good=0.5)
            ops.append(J('S', r[0], r[1], min(r[2], 40), min(r[3], 40), rng.randrange(1, 250)))
        else:
            ops.append(J('K', rng.randrange(1, 250)))
    return J(*bb, len(ads), *ads, len(ops), *ops)


def grid_rects(G, lo=-1):
    out = []
    for x in range(G):
        for y in range(G):
            for w in range(0, G - x + 1):
                for h in range(0, G - y + 1):
                    out.append((x + lo, y + lo, w, h))
    return out


def grid_cases(rng, n=None):
    """one adapter (C / R / T) over every parent box, adapter rectangle and fill area of a 3x3 grid"""
    gr = grid_rects(3)
    out = []
    for bb in gr:
        for a in gr:
            for area in gr:
                m = area[2] * area[3]
                for ad in ('C', 'R'):
                    full = J('L', m, *range(1, m + 1)) if m else 'L 0'
                    short = J('L', max(0, m - 2), *range(1, max(0, m - 2) + 1)) if m > 2 else 'L 0'
                    out.append(J(*bb, 1, ad, *a, 2, 'F', *area, full, 'S', *area, 77))
                    out.append(J(*bb, 1, ad, *a, 2, 'K', 9, 'F', *area, short))
    if n is not None and n < len(out):
        out = rng.sample(out, n)
    return out


def crop_cases(rng, tier):
    out = []
    G = 4
    for w in range(0, G + 1):
        for h in range(0, G + 1):
            n = w * h
            for r in grid_rects(G + 1, -1) if tier != 'quick' else rng.sample(grid_rects(G + 1, -1), 40):
                out.append(J('tcrop', w, h, *r, 'L', n, *range(n)))
                if n > 3:
                    out.append(J('tcrop', w, h, *r, 'L', n - 3, *range(n - 3)))
    for _ in range(400 if tier == 'quick' else 6000):
        w, h = rng.randrange(0, 13), rng.randrange(0, 13)
        r = near(rng, (0, 0, max(w, 1), max(h, 1)), 4)
        out.append(J('tcrop', w, h, *r, stream(rng, w * h)))
    return out


def cases(tier, rng):
    n = 3000 if tier == 'quick' else 60000
    for i in range(n):
        hst = history(rng)
        yield 'tstack 0 ' + hst
        yield 'tstack 1 ' + hst
        if i % 2 == 0:
            yield 'tcalls 1 ' + hst
    # adapter-free histories: the trait defaults alone on non-origin / empty boxes
    for _ in range(n // 6):
        hst = history(rng, maxdepth=0, maxops=3)
        yield 'tstack 0 ' + hst
        yield 'tstack 1 ' + hst
    for g in grid_cases(rng, 1200 if tier == 'quick' else None):
        yield 'tstack 0 ' + g
        yield 'tcalls 1 ' + g
    yield from crop_cases(rng, tier)


def search(tier, rng):
    n = 5000 if tier == 'quick' else 200000
    for _ in range(n):
        yield 'p_stack %d %s' % (rng.randrange(2), history(rng))
    for g in grid_cases(rng, 2500 if tier == 'quick' else None):
        yield 'p_stack %d %s' % (rng.randrange(2), g)


LEVEL_TEXT = ('Proof: 23 Coq theorems over the Gallina model of the draw-target layer (coq/Model/Target.v: trait defaults unfolded '
              'literally, the Cropped colour iterator as its next() state machine, the four adapters line by line). Proved for ALL '
              'inputs in range: default fill_contiguous/fill_solid/clear = row-major points paired with the stream (full, short, '
              'endless); the Cropped iterator yields exactly the colours at the row-major indices of crop /\\ area (initial skip, row '
              'skip, flat and disjoint crops) and never runs out of fuel; Clipped never touches a parent pixel outside clip /\\ parent '
              'box and inside acts exactly like the direct call for draw_iter, fill_contiguous, fill_solid, clear on both kinds of '
              'parent; Translated/Cropped/ColorConverted are exactly shift / shift+origin box without clipping / colour map; a stack '
              'of ANY depth equals the composition of these geometric maps (box, visible set, offset, colour map), lifted to whole '
              'histories. Tie: extracted model and real adapters run on the same random histories (both parent kinds, call logs) '
              'on every run; direct search against an independent reference.')
LEVEL_NOTE = ('Quantifier: the theorems cover stacks of any depth (the property asks for depth 3) and all operation histories. '
              'Trusted: Coq kernel, extraction, the OCaml/Rust drivers, the hand-written model (validated by differential testing, '
              'not proved equal to the Rust code), core iterator adaptors modelled as list functions. Arithmetic is unbounded Z: the '
              'theorems need only the extent/far-edge ranges stated in `assumptions`; absence of i32 overflow in translate is C08.')

# Mutation record (2026-09-28, scratch worktrees of /repo, EG_REPO=... ./check C03 [C01] [C08]); all caught:
#   clipped.rs   Clipped::new without the intersection; fill_solid without the intersection; draw_iter without the filter
#   cropped.rs   parent.translated(-area.top_left)
#   translated.rs bounding_box translated by +offset
#   contiguous.rs nth(initial_skip) ; nth(row_skip + 1) ; `self.x <= width` ; initial skip with crop width instead of
#                size.width ; row_skip without saturating_sub (revert of 980da77: PANIC contiguous.rs:84) ;
#                initial skip computed in u16 (caught by C08_targets tok only: needs display-scale areas)
#   core/src/draw_target/mod.rs  default fill_solid with bounding_box() as area ; default clear with an origin-based
#                rectangle ; default fill_contiguous clipping the area before zipping     (also caught by C01)
