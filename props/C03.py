"""C03 - Clipped/cropped/translated/converted targets and trait defaults are exact."""
from common import *

LEVEL = 'proof'
CLAIMED = True

RULE = ('correspondence: random histories of 1..4 operations (draw_iter with unordered/duplicate points - called directly or '
        'through the public wrappers Pixel::draw, PixelIteratorExt::draw, PixelIteratorExt::translated(d).draw -, fill_contiguous with '
        'full / short / over-long / empty / constant-endless colour streams incl. generated long streams `G n a b`, fill_solid, '
        'clear) issued through random adapter stacks of depth 0..4 (clipped, cropped, translated, color_converted; rectangles '
        'chosen relative to the exact current level box: overlapping, containing, inside, disjoint, zero-sized, flat; when the '
        'level box is empty half of the pixels sit exactly on its top left) over parents with non-origin and empty bounding '
        'boxes; strata: 12% shifted to +-2^20, parents touching the edge of i32 (far edge = i32::MAX / top left = i32::MIN, '
        'every intermediate coordinate representable), display-scale fill areas (64..400 wide, clip/crop windows deep inside, '
        'more than 2^16 skipped colours, distinct colours along the stream), the one-adapter grids (C, R, T). Every history '
        'runs on a draw_iter-only parent (tstack 0: real trait defaults), on a native parent (tstack 1) and as call log '
        '(tcalls: the calls that reach the parent, i.e. the re-cut colour streams of Clipped::fill_contiguous); tcrop drives the '
        'Cropped colour iterator alone through a clipped target (all crop positions of a small grid, random, display-scale). '
        'tinto / p_into_pixels: ContiguousIteratorExt::into_pixels on grid, random, zero-sized, i32-edge and display-sized areas with '
        'full / short / over-long / empty / endless streams against szip (points area) stream / the explicit row-major reference. '
        'Compared: reported bounding_box() of the outermost adapter + the root pixel map AFTER EVERY OPERATION / the call log. '
        'Stacks are built from the concrete nested library types (DrawTargetExt constructors called on the already adapted '
        'target, operations through the public DrawTarget methods); beyond depth 3 behind a forwarding wrapper. corpus/C03.txt '
        'pins the empty-clip / overhanging-crop / i32-edge / display-scale classes. A case is non-trivial when some map / the '
        'log is non-empty. search (p_stack): the same strata on the implementation against an independent set-theoretic '
        'reference in i64 (exact rectangles incl. the documented top left of empty intersections, one shift, a list of clip '
        'sets, iterated colour map), checking the exact box reported at EVERY level and the root pixel map after EVERY '
        'operation, and that the concrete nested types and the forwarded stack agree; p_chain: literal constructor chains on '
        'temporaries (t.translated(d).cropped(&r)... in 8 orders incl. color_converted), rebuilt for every operation; thorough '
        'adds the exhaustive one-adapter grids.')
EXHAUSTIVE = {'quick': False, 'thorough': False}
ASSUMPTIONS = ['extents of every rectangle (parent box, adapter areas, fill areas) are at most i32::MAX (size_fits); for a '
               'draw_iter-only parent additionally the area that reaches it and its box have representable far edges (rect_fits: '
               'x+w, y+h <= i32::MAX) - outside this range Rectangle::points saturates and the trait defaults lose pixels',
               'coordinate additions (translate, top_left + offset) are modelled unbounded; that they stay inside i32 on '
               'display-scale inputs is C08, not C03']
TRUSTED = ['modelled, not verified: Iterator::nth / zip / filter / map / repeat of core as list functions (snth, szip, ...); '
           'usize arithmetic of Cropped::new as unbounded Z (exact while width*height < 2^32, see C08)',
           'the conforming parent target (stores pixels inside its box, ignores the rest) is the harness IterTarget/NativeTarget; '
           'colour types are two test colours K2 -> K with Into = (7c+3) mod 256']
PARTIAL = []


def trivial(line, res):
    if line.startswith('tstack'):
        m = res.split('MAP', 1)
        return len(m) < 2 or m[1].replace('|', '').strip() == ''
    return res.strip() in ('', 'none', '0')


IMAX = 2 ** 31 - 1
IMIN = -2 ** 31


# ---- exact rectangles (x, y, w, h) with the documented intersection (zero-sized operands keep their top left when
#      it lies inside the other operand) - only used to steer the generators towards interesting inputs ----------
def r_empty(r):
    return r[2] == 0 or r[3] == 0


def r_has(r, x, y):
    return not r_empty(r) and r[0] <= x < r[0] + r[2] and r[1] <= y < r[1] + r[3]


def r_isect(a, b):
    if not r_empty(a) and not r_empty(b):
        x0, y0 = max(a[0], b[0]), max(a[1], b[1])
        x1, y1 = min(a[0] + a[2], b[0] + b[2]), min(a[1] + a[3], b[1] + b[3])
        return (x0, y0, x1 - x0, y1 - y0) if x0 < x1 and y0 < y1 else (0, 0, 0, 0)
    if r_empty(a) and not r_empty(b):
        return a if r_has(b, a[0], a[1]) else (0, 0, 0, 0)
    if not r_empty(a) and r_empty(b):
        return b if r_has(a, b[0], b[1]) else (0, 0, 0, 0)
    return (0, 0, 0, 0)


def near(rng, ref, spread=3, good=0.0):
    """a rectangle related to the non-empty rectangle `ref` = (x, y, w, h): overlapping / inside / containing / disjoint /
    degenerate; with probability `good` the result is guaranteed to overlap it"""
    x0, y0, x1, y1 = ref[0], ref[1], ref[0] + max(ref[2], 1), ref[1] + max(ref[3], 1)
    if rng.random() < good:
        cx, cy = rng.randrange(x0, x1), rng.randrange(y0, y1)
        ax, ay = cx - rng.randrange(0, spread + 3), cy - rng.randrange(0, spread + 3)
        return (ax, ay, cx - ax + 1 + rng.randrange(0, spread + 3), cy - ay + 1 + rng.randrange(0, spread + 3))
    k = rng.random()
    if k < 0.08:      # zero sized / flat, anywhere near (the top left of an empty rectangle matters: it survives
        #               intersection when it lies inside the other operand)
        w, h = rng.choice([(0, 0), (0, rng.randrange(1, 6)), (rng.randrange(1, 6), 0), (0, 40), (40, 0)])
        return (rng.randrange(x0 - 2, x1 + 2), rng.randrange(y0 - 2, y1 + 2), w, h)
    if k < 0.16:      # disjoint
        dx = rng.choice([-1, 1]) * (x1 - x0 + rng.randrange(0, 3))
        return (x0 + dx, y0 + rng.randrange(-2, 3), max(0, x1 - x0 - rng.randrange(0, 2)), rng.randrange(0, 5))
    if k < 0.24:      # equal
        return (x0, y0, x1 - x0, y1 - y0)
    if k < 0.34:      # containing
        a, b = rng.randrange(0, spread), rng.randrange(0, spread)
        return (x0 - a, y0 - b, x1 - x0 + a + rng.randrange(0, spread), y1 - y0 + b + rng.randrange(0, spread))
    ax, ay = rng.randrange(x0 - spread, x1 + 1), rng.randrange(y0 - spread, y1 + 1)
    bx, by = rng.randrange(ax, x1 + spread + 1), rng.randrange(ay, y1 + spread + 1)
    return (ax, ay, bx - ax, by - ay)


def stream(rng, n):
    """colour stream for an area of n points: full, short, over-long, empty, endless, or generated (G n a b)"""
    k = rng.random()
    if k < 0.12:
        return J('I', rng.randrange(1, 250))
    if k < 0.5:
        m = n
    elif k < 0.75:
        m = rng.randrange(0, n + 1)
    elif k < 0.8:
        m = 0
    else:
        m = n + rng.randrange(1, 9)
    if m > 40 or (m and rng.random() < 0.15):
        return J('G', m, rng.choice([1, 3, 7, 11, 250]), rng.randrange(0, 251))
    return J('L', m, *[rng.randrange(1, 250) for _ in range(m)]) if m else 'L 0'


def gen_ops(rng, level, maxops, lim=None, good=0.5):
    """operations aimed at the level box `level` (exact rectangle in the coordinates of the outermost adapter); when the
    box is empty, part of the pixels sit exactly on its top left (the only point an off-by-one emptiness test can leak).
    lim = (lo_x, hi_x, lo_y, hi_y): keep every coordinate and far edge inside these bounds (edge-of-i32 cases)"""
    ref = level if not r_empty(level) else (level[0], level[1], 2, 2)

    def fit(r):
        if lim is None:
            return r
        x = min(max(r[0], lim[0]), lim[1])
        y = min(max(r[1], lim[2]), lim[3])
        return (x, y, max(0, min(r[2], lim[1] - x)), max(0, min(r[3], lim[3] - y)))
    ops = []
    for _ in range(rng.randrange(1, maxops + 1)):
        k = rng.random()
        if k < 0.25:
            n = rng.randrange(0, 9)
            pts = []
            for _ in range(n):
                if pts and rng.random() < 0.25:
                    p = rng.choice(pts)[:2]
                elif r_empty(level) and rng.random() < 0.5:
                    p = (level[0], level[1])
                else:
                    p = (rng.randrange(ref[0] - 3, ref[0] + ref[2] + 3), rng.randrange(ref[1] - 3, ref[1] + ref[3] + 3))
                if lim is not None:
                    p = (min(max(p[0], lim[0]), lim[1]), min(max(p[1], lim[2]), lim[3]))
                pts.append((p[0], p[1], rng.randrange(1, 250)))
            # the same pixels through draw_iter directly or through the public wrappers that end in it:
            # Drawable for Pixel (one pixel), PixelIteratorExt::draw, PixelIteratorExt::translated(d).draw
            w = rng.random()
            if w < 0.5 or (lim is not None and w >= 0.8):
                ops.append(J('D', n, *[v for p in pts for v in p]))
            elif w < 0.65 and pts:
                ops.append(J('P', *pts[0]))
            elif w < 0.8 or not pts:
                ops.append(J('DI', n, *[v for p in pts for v in p]))
            else:
                d = (rng.randrange(-4, 5), rng.randrange(-4, 5))
                ops.append(J('DT', *d, n, *[v for p in pts for v in (p[0] - d[0], p[1] - d[1], p[2])]))
        elif k < 0.65:
            r = near(rng, ref, 4, good=good)
            r = fit((r[0], r[1], min(r[2], 14), min(r[3], 14)))
            ops.append(J('F', *r, stream(rng, r[2] * r[3])))
        elif k < 0.9:
            r = near(rng, ref, 4, good=good)
            ops.append(J('S', *fit((r[0], r[1], min(r[2], 40), min(r[3], 40))), rng.randrange(1, 250)))
        else:
            ops.append(J('K', rng.randrange(1, 250)))
    return ops


def history(rng, maxdepth=4, maxops=4, big=None, good=0.7):
    """returns the case line without suite name and kind: '<bb> <nad> <ads> <nops> <ops>'"""
    base = (0, 0)
    if big is None:
        big = rng.random() < 0.12
    if big:
        base = (rng.choice([-1, 1]) * rng.randrange(2 ** 20 - 20, 2 ** 20 + 1), rng.choice([-1, 1]) * rng.randrange(2 ** 20 - 20, 2 ** 20 + 1))
    k = rng.random()
    if k < 0.08:
        bb = (rng.randrange(-4, 5), rng.randrange(-4, 5)) + rng.choice([(0, 0), (0, 5), (6, 0)])
    else:
        bb = (rng.randrange(-6, 9), rng.randrange(-6, 9), rng.randrange(1, 11), rng.randrange(1, 11))
    bb = (bb[0] + base[0], bb[1] + base[1], bb[2], bb[3])
    level = bb                       # exact box of the current level, in its own coordinates
    depth = rng.choice([0, 1, 1, 2, 2, 3, 3, 4][:2 * maxdepth]) if maxdepth else 0
    ads = []
    for _ in range(depth):
        k = rng.random()
        ref = level if not r_empty(level) else (level[0], level[1], 1, 1)
        if k < 0.35:
            r = near(rng, ref, good=good)
            ads.append(J('C', *r))
            level = r_isect(r, level)
        elif k < 0.62:
            r = near(rng, ref, good=good)
            ads.append(J('R', *r))
            s = r_isect(r, level)
            level = (0, 0, s[2], s[3])
        elif k < 0.88:
            if big and rng.random() < 0.5:
                d = (rng.choice([-1, 1]) * rng.randrange(2 ** 20 - 9, 2 ** 20 + 1), rng.choice([-1, 1]) * rng.randrange(2 ** 20 - 9, 2 ** 20 + 1))
            else:
                d = (rng.randrange(-5, 6), rng.randrange(-5, 6))
            ads.append(J('T', *d))
            level = (level[0] - d[0], level[1] - d[1], level[2], level[3])
        else:
            ads.append('V')
    ops = gen_ops(rng, level, maxops)
    return J(*bb, len(ads), *ads, len(ops), *ops)


def edge_history(rng, maxops=3):
    """parents whose box touches the edge of i32 (far edge = i32::MAX, top left = i32::MIN, per axis independently);
    clipped / cropped / colour-converted / inward-translated stacks; every coordinate the library computes stays
    representable (the theorems' range rect_fits reaches exactly this edge)"""
    def axis():
        k = rng.random()
        w = rng.randrange(1, 11)
        if k < 0.45:
            return ('hi', IMAX - w - rng.choice([0, 0, 1, 3]), w)
        if k < 0.9:
            return ('lo', IMIN + rng.choice([0, 0, 1, 2]), w)
        return ('mid', rng.randrange(-6, 9), w)
    ax, ay = axis(), axis()
    bb = (ax[1], ay[1], ax[2], ay[2])
    # bounds for coordinates in ROOT space; `F` areas never start at i32::MIN (Clipped::fill_contiguous negates the
    # area's top left: -i32::MIN is outside i32, see C08)
    def lims(a):
        if a[0] == 'hi':
            return (IMAX - 40, IMAX)
        if a[0] == 'lo':
            return (IMIN + 1, IMIN + 40)
        return (-40, 40)
    lx, ly = lims(ax), lims(ay)

    offs = [(0, 0)]      # root image of the origin of every level built so far

    def level_lim(off):
        # bounds in the coordinates of a level whose origin maps to root `off`: the root image must lie in lx / ly and
        # the image in the coordinates of EVERY level in between must be i32 (the adapters translate step by step);
        # an F area never starts at i32::MIN, see above
        lo_x = max([lx[0] - off[0]] + [IMIN + 1 - (off[0] - o[0]) for o in offs + [off]])
        hi_x = min([lx[1] - off[0]] + [IMAX - (off[0] - o[0]) for o in offs + [off]])
        lo_y = max([ly[0] - off[1]] + [IMIN + 1 - (off[1] - o[1]) for o in offs + [off]])
        hi_y = min([ly[1] - off[1]] + [IMAX - (off[1] - o[1]) for o in offs + [off]])
        return (lo_x, hi_x, lo_y, hi_y)
    level, off = bb, (0, 0)
    ads = []
    for _ in range(rng.choice([0, 1, 1, 2, 2, 3])):
        if r_empty(level):
            break
        k = rng.random()
        # limits in the coordinates of the current level
        lim = level_lim(off)

        def fit(r):
            x = min(max(r[0], lim[0]), lim[1])
            y = min(max(r[1], lim[2]), lim[3])
            return (x, y, max(0, min(r[2], lim[1] - x)), max(0, min(r[3], lim[3] - y)))
        if k < 0.4:
            r = fit(near(rng, level, good=0.7))
            ads.append(J('C', *r))
            level = r_isect(r, level)
        elif k < 0.7:
            r = fit(near(rng, level, good=0.8))
            s = r_isect(r, level)
            no = (off[0] + s[0], off[1] + s[1])
            if r_empty(s) or not all(IMIN <= no[0] - o[0] <= IMAX and IMIN <= no[1] - o[1] <= IMAX for o in offs):
                continue
            ads.append(J('R', *r))
            off = (off[0] + s[0], off[1] + s[1])
            offs.append(off)
            level = (0, 0, s[2], s[3])
        elif k < 0.85:
            # the translated box AND the image of the new origin (where the zero rectangle of a disjoint intersection
            # lands) must stay representable
            d = (rng.randrange(-3, 4), rng.randrange(-3, 4))
            nb = (level[0] - d[0], level[1] - d[1])
            no = (off[0] + d[0], off[1] + d[1])
            if not (IMIN <= nb[0] and nb[0] + level[2] <= IMAX and IMIN <= nb[1] and nb[1] + level[3] <= IMAX
                    and all(IMIN <= no[0] - o[0] <= IMAX and IMIN <= no[1] - o[1] <= IMAX for o in offs)):
                continue
            ads.append(J('T', *d))
            off = (off[0] + d[0], off[1] + d[1])
            offs.append(off)
            level = (level[0] - d[0], level[1] - d[1], level[2], level[3])
        else:
            ads.append('V')
    ops = gen_ops(rng, level, maxops, lim=level_lim(off), good=0.7)
    return J(*bb, len(ads), *ads, len(ops), *ops)


def big_history(rng):
    """display-scale fill areas (the colour stream is a generated token, so the line stays short): a clipped / cropped
    window somewhere inside a 64..400 wide fill_contiguous; the number of skipped colours exceeds 2^16 in most cases"""
    W, H = rng.choice([64, 257, 300, 320, 400]), rng.choice([64, 240, 256, 300, 330])
    bx, by = rng.choice([(0, 0), (rng.randrange(-300, 300), rng.randrange(-300, 300))])
    bb = (bx, by, W, H) if rng.random() < 0.7 else (bx + rng.randrange(0, W // 2), by + rng.randrange(0, H // 2), W // 2, H // 3)
    cw, ch = rng.choice([1, 2, 5, 17, 50]), rng.choice([1, 3, 8, 20])
    cx, cy = bx + rng.randrange(-2, W - cw + 3), by + rng.choice([rng.randrange(-2, H - ch + 3), H - ch - rng.randrange(0, 30)])
    n = W * H
    m = rng.choice([n, n, n, n - rng.randrange(0, W * 30), n + 5, (cy - by + 1) * W])
    ga, gb = rng.choice([1, 3, 7, 11, 250]), rng.randrange(0, 251)
    area = (bx, by, W, H)
    k = rng.random()
    if k < 0.5:
        ads = [J('C', cx, cy, cw, ch)]
    elif k < 0.7:
        d = (rng.randrange(-9, 10), rng.randrange(-9, 10))
        ads = [J('C', cx, cy, cw, ch), J('T', *d)]
        area = (bx - d[0], by - d[1], W, H)
    elif k < 0.85:
        # crop a band, then clip a window inside the cropped coordinates
        band = (bx + 3, by + H // 2, W - 5, H // 2 - 2)
        s = r_isect(band, bb)
        ads = [J('R', *band), J('C', max(0, cx - s[0]), max(0, cy - s[1] - 1) % max(1, s[3]), cw, ch)]
        area = (bx - s[0], by - s[1], W, H)
    else:
        ads = ['V', J('C', cx, cy, cw, ch), J('C', cx - 1, cy + 1, cw + 5, ch)]
    return J(*bb, len(ads), *ads, 1, 'F', *area, 'G', max(0, m), ga, gb)


def grid_rects(G, lo=-1):
    out = []
    for x in range(G):
        for y in range(G):
            for w in range(0, G - x + 1):
                for h in range(0, G - y + 1):
                    out.append((x + lo, y + lo, w, h))
    return out


def grid_cases(rng, n=None):
    """one adapter (C / R / T) over every parent box, adapter rectangle (offset -1..1 for T) and fill area of a 3x3 grid"""
    gr = grid_rects(3)
    out = []
    if n is not None:
        # a random sample of the grid without enumerating it
        for _ in range(n):
            bb, area, a = rng.choice(gr), rng.choice(gr), rng.choice(gr)
            m = area[2] * area[3]
            full = J('L', m, *range(1, m + 1)) if m else 'L 0'
            short = J('L', max(0, m - 2), *range(1, max(0, m - 2) + 1)) if m > 2 else 'L 0'
            k = rng.randrange(5)
            if k < 4:
                ad = 'C' if k < 2 else 'R'
                out.append(J(*bb, 1, ad, *a, 2, 'F', *area, full, 'S', *area, 77) if k % 2 == 0 else J(*bb, 1, ad, *a, 2, 'K', 9, 'F', *area, short))
            else:
                out.append(J(*bb, 1, 'T', rng.randrange(-1, 2), rng.randrange(-1, 2), 3, 'F', *area, full, 'K', 9, 'S', *area, 77))
        return out
    for bb in gr:
        for area in gr:
            m = area[2] * area[3]
            full = J('L', m, *range(1, m + 1)) if m else 'L 0'
            short = J('L', max(0, m - 2), *range(1, max(0, m - 2) + 1)) if m > 2 else 'L 0'
            for a in gr:
                for ad in ('C', 'R'):
                    out.append(J(*bb, 1, ad, *a, 2, 'F', *area, full, 'S', *area, 77))
                    out.append(J(*bb, 1, ad, *a, 2, 'K', 9, 'F', *area, short))
            for dx in (-1, 0, 1):
                for dy in (-1, 0, 1):
                    out.append(J(*bb, 1, 'T', dx, dy, 3, 'F', *area, full, 'K', 9, 'S', *area, 77))
    return out


BIG_FIXED = [
    # every colour distinct modulo 251 along the stream; windows deep inside display-sized areas
    'tcrop 300 300 -1 219 302 3 G 90000 7 1',
    'tcrop 320 240 5 210 50 20 G 76800 7 1',
    'tcrop 257 256 255 254 5 5 G 65792 7 1',
    'tcrop 320 240 300 205 40 40 G 70000 3 5',
    'tcrop 400 330 0 164 1 1 G 132000 11 0',
    'tstack 1 0 0 300 300 1 C -1 219 302 3 1 F 0 0 300 300 G 90000 7 1',
    'tstack 1 0 0 320 240 1 C 5 210 50 20 1 F 0 0 320 240 G 76800 7 1',
    'tstack 0 0 0 320 240 1 C 5 210 50 20 1 F 0 0 320 240 G 76800 7 1',
    'tstack 1 0 0 257 256 1 C 255 254 5 5 1 F 0 0 257 256 G 65792 7 1',
    'tstack 0 -7 9 320 240 2 C 100 215 9 9 T 3 -4 1 F -10 5 320 240 G 76800 11 2',
    'tcalls 1 0 0 320 240 2 R 10 200 300 40 C 280 5 9 9 1 F -10 -200 320 240 G 76800 7 1',
]


def crop_cases(rng, tier):
    out = []
    G = 4
    for w in range(0, G + 1):
        for h in range(0, G + 1):
            n = w * h
            for r in grid_rects(G + 1, -1) if tier != 'quick' else rng.sample(grid_rects(G + 1, -1), 40):
                out.append(J('tcrop', w, h, *r, 'L', n, *range(n)))
                if n > 3:
                    out.append(J('tcrop', w, h, *r, 'L', n - 3, *range(n - 3)))
    for _ in range(400 if tier == 'quick' else 6000):
        w, h = rng.randrange(0, 13), rng.randrange(0, 13)
        r = near(rng, (0, 0, max(w, 1), max(h, 1)), 4)
        out.append(J('tcrop', w, h, *r, stream(rng, w * h)))
    # display-scale areas: small windows anywhere inside (and partly outside) a 200..400 wide area
    for _ in range(40 if tier == 'quick' else 1500):
        w, h = rng.choice([257, 300, 320, 400]), rng.choice([240, 256, 300, 330])
        cw, ch = rng.choice([0, 1, 3, 9, 40]), rng.choice([0, 1, 2, 7])
        r = (rng.randrange(-3, w + 2), rng.randrange(-3, h + 2), cw, ch)
        n = w * h
        out.append(J('tcrop', w, h, *r, 'G', rng.choice([n, n, n - rng.randrange(0, 40 * w), n + 9]), rng.choice([1, 3, 7, 11]), rng.randrange(251)))
    return out


def into_cases(rng, tier, suite):
    """ContiguousIteratorExt::into_pixels: all areas of a small grid x full / short / over-long / empty / endless streams,
    random non-origin and zero-sized areas, areas at the edge of i32, a few display-sized ones"""
    out = []
    for r in grid_rects(4, -2):
        n = r[2] * r[3]
        for m in sorted(set([0, max(0, n - 1), n, n + 3])):
            out.append(J(suite, *r, 'L', m, *range(1, m + 1)))
        out.append(J(suite, *r, 'I', 9))
    for _ in range(300 if tier == 'quick' else 20000):
        k = rng.random()
        w, h = (rng.choice([(0, 0), (0, 7), (7, 0)]) if k < 0.1 else (rng.randrange(1, 14), rng.randrange(1, 14)))
        if k < 0.75:
            x, y = rng.randrange(-70, 71), rng.randrange(-70, 71)
        else:
            x = rng.choice([IMAX - w - rng.randrange(0, 3), IMIN + rng.randrange(0, 3), rng.randrange(-2 ** 20, 2 ** 20)])
            y = rng.choice([IMAX - h - rng.randrange(0, 3), IMIN + rng.randrange(0, 3), rng.randrange(-2 ** 20, 2 ** 20)])
        out.append(J(suite, x, y, w, h, stream(rng, w * h)))
    for w, h in ((320, 240), (257, 256), (300, 1), (1, 300)):
        out.append(J(suite, rng.randrange(-50, 50), rng.randrange(-50, 50), w, h, 'G', w * h - rng.choice([0, 0, 7]), 7, 1))
    return out


def cases(tier, rng):
    yield from BIG_FIXED
    yield from into_cases(rng, tier, 'tinto')
    n = 3000 if tier == 'quick' else 60000
    for i in range(n):
        hst = history(rng)
        yield 'tstack 0 ' + hst
        yield 'tstack 1 ' + hst
        if i % 2 == 0:
            yield 'tcalls 1 ' + hst
    # adapter-free histories: the trait defaults alone on non-origin / empty boxes
    for _ in range(n // 6):
        hst = history(rng, maxdepth=0, maxops=3)
        yield 'tstack 0 ' + hst
        yield 'tstack 1 ' + hst
    # parents at the edge of i32
    for i in range(n // 8):
        hst = edge_history(rng)
        yield 'tstack %d %s' % (i % 2, hst)
        if i % 3 == 0:
            yield 'tcalls 1 ' + hst
    # display-scale fill areas
    for i in range(60 if tier == 'quick' else 1500):
        hst = big_history(rng)
        yield 'tstack %d %s' % (1 if i % 3 else 0, hst)
        if i % 3 == 0:
            yield 'tcalls 1 ' + hst
    for g in grid_cases(rng, 1200 if tier == 'quick' else None):
        yield 'tstack 0 ' + g
        yield 'tcalls 1 ' + g
    yield from crop_cases(rng, tier)


def chain_case(rng):
    """literal constructor chains on temporaries (c03.rs chain_apply): variant, two rectangles, an offset, ops"""
    bb = (rng.randrange(-6, 9), rng.randrange(-6, 9), rng.randrange(1, 11), rng.randrange(1, 11))
    r = near(rng, bb, good=0.8)
    r2 = near(rng, (0, 0, max(1, r[2]), max(1, r[3])) if rng.random() < 0.5 else bb, good=0.8)
    d = (rng.randrange(-4, 5), rng.randrange(-4, 5))
    ref = rng.choice([bb, (0, 0, bb[2], bb[3]), (bb[0] - d[0], bb[1] - d[1], bb[2], bb[3])])
    ops = gen_ops(rng, ref, 3)
    return J(rng.randrange(2), *bb, rng.randrange(8), *r, *r2, *d, len(ops), *ops)


def search(tier, rng):
    yield from into_cases(rng, tier, 'p_into_pixels')
    n = 5000 if tier == 'quick' else 200000
    for _ in range(n):
        yield 'p_stack %d %s' % (rng.randrange(2), history(rng, good=0.85))
    for _ in range(n // 8):
        yield 'p_stack %d %s' % (rng.randrange(2), edge_history(rng))
    for _ in range(60 if tier == 'quick' else 2000):
        yield 'p_stack %d %s' % (rng.randrange(2), big_history(rng))
    for _ in range(n // 5):
        yield 'p_chain ' + chain_case(rng)
    for g in grid_cases(rng, 2500 if tier == 'quick' else None):
        yield 'p_stack %d %s' % (rng.randrange(2), g)


LEVEL_TEXT = ('Proof: 30 Coq theorems over the Gallina model of the draw-target layer (coq/Model/Target.v: trait defaults unfolded '
              'literally, the Cropped colour iterator as its next() state machine, the four adapters line by line). Proved for ALL '
              'inputs in range: default fill_contiguous/fill_solid/clear = row-major points paired with the stream (full, short, '
              'endless); the Cropped iterator yields exactly the colours at the row-major indices of crop /\\ area (initial skip, row '
              'skip, flat and disjoint crops) and never runs out of fuel; Clipped never touches a parent pixel outside clip /\\ parent '
              'box and inside acts exactly like the direct call for draw_iter, fill_contiguous, fill_solid, clear on both kinds of '
              'parent; Translated/Cropped/ColorConverted are exactly shift / shift+origin box without clipping / colour map; a stack '
              'of ANY depth equals the composition of these geometric maps (box, visible set, offset, colour map), lifted to whole '
              'histories. Tie: extracted model and real adapters run on the same random histories (both parent kinds, call logs) '
              'on every run; direct search against an independent reference.')
LEVEL_NOTE = ('Quantifier: the theorems cover stacks of any depth (the property asks for depth 3) and all operation histories. '
              'No-escape is proved at pixel-map level (C03_clip_no_escape) AND at call level (C03_clip_call_area_inside: every pixel / '
              'the whole area handed to the parent lies in clip /\\ parent box, no hypothesis). For a draw_iter-only parent the general '
              'stack theorems carry a side condition on the lowered call (its area must not saturate Rectangle::points); '
              'C03_stack_compose_small / _display_scale replace it by input-level magnitude bounds. '
              'Trusted: Coq kernel, extraction, the OCaml/Rust drivers, the hand-written model (validated by differential testing, '
              'not proved equal to the Rust code), core iterator adaptors modelled as list functions. Arithmetic is unbounded Z: the '
              'theorems need only the extent/far-edge ranges stated in `assumptions`; absence of i32 overflow in translate is C08.')

# Mutation record (2026-09-28, scratch worktrees of /repo, EG_REPO=... ./check C03 [C01] [C08]); all caught:
#   clipped.rs   Clipped::new without the intersection; fill_solid without the intersection; draw_iter without the filter
#   cropped.rs   parent.translated(-area.top_left)
#   translated.rs bounding_box translated by +offset
#   contiguous.rs nth(initial_skip) ; nth(row_skip + 1) ; `self.x <= width` ; initial skip with crop width instead of
#                size.width ; row_skip without saturating_sub (revert of 980da77: PANIC contiguous.rs:84) ;
#                initial skip computed in u16 (caught by C08_targets tok only: needs display-scale areas)
#   core/src/draw_target/mod.rs  default fill_solid with bounding_box() as area ; default clear with an origin-based
#                rectangle ; default fill_contiguous clipping the area before zipping     (also caught by C01)

# Round 2 (2026-09-28), after the second audit (notes/audit2/C03.md), re-run on scratch worktrees; all caught by ./check C03:
#   contiguous.rs initial skip truncated to u16 (no panic, wrong colours at display scale): 36-43 correspondence lines and
#                12-20 search lines per seed + corpus (before: 0 / 0); the overflow-checked `as u16 * as u16` form: PANIC
#   seeded C03-A (crop origin not intersected): ~2200 correspondence / ~1650 search lines per seed, 5 corpus lines
#   seeded C03-B (empty clip leaks its top-left pixel): 137-183 correspondence / 43-52 search lines per seed, 5 corpus
#                lines (before: 4-12 / 0-5)
#   draw_target/mod.rs DrawTargetExt::cropped pre-clipping the area to an origin box; Translated::clear filling its own
#                (translated) bounding box on the parent; ColorConverted::clear as fill_solid(parent box) (same pixels,
#                different call: reported by the call log as correspondence-broken)
# Round 3 (API entry points): Pixel::draw drawing at p+(1,0): 158-177 correspondence / 88-110 search lines per seed;
#   PixelIteratorExt::draw dropping the first pixel: 263-280 / 80-116; IntoPixels over a transposed area (width/height
#   swapped): 481-501 / 486-495 (tinto / p_into_pixels; ./check C01 does not see it: both kinds of target are affected alike)
