"""C04 - Target errors stop drawing immediately and are returned unchanged  (metadata; generators live here and/or in props/C04_*.py parts)"""
CLAIMED = False   # set True by the owner once ./check C04 passes with real theorems
LEVEL = 'proof'
LEVEL_TEXT = 'TODO'
LEVEL_NOTE = 'TODO'
