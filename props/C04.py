"""C04 - Target errors stop drawing immediately and are returned unchanged."""
from common import *

LEVEL = 'proof'
NEEDS_ERRFLOW = True     # ./check runs translate/errflow/run.sh (regenerates coq/Gen/ErrFlow.v from $EG_REPO)
RULE = ('translator: translate/errflow (syn) re-reads every anchored file of $EG_REPO on every run and regenerates the '
        'control-flow skeleton of every function returning Result<_, *::Error>; Properties/C04.v decides by vm_compute that every '
        'call site of a propagating function is Propagated (?, tail, return) and nothing is Other. '
        'search (implementation only): p_errflow = every drawable family (styled rectangle solid+dotted / circle / ellipse / rounded '
        'rectangle / triangle / line / polyline thin+thick+translated / arc / sector, Image of ImageRaw, SubImage, SubImage of SubImage, '
        'Text single and multi line with background, decorations, character spacing, alignments, Pixel iterators, Pixel::draw, clear) '
        'x adapter stacks (none, clipped, cropped, translated, color_converted, nested up to depth 5, run-time built) '
        'x {native target, draw_iter-only target} x {Rgb565, Rgb888}; for EVERY k < n (n = calls of the fault-free run) the k-th call '
        'fails with error value k: draw must return Err(k), the log must end with the failing call and equal the fault-free prefix '
        '(calls compared with all arguments, pixel lists and colour streams included). Fixed grid (every fixed drawable x 4 bases x 12 stacks, '
        'also in the quick tier; with an 888 base the drawable draws Rgb888 unless the stack contains cc) + random drawables/stacks from '
        'VERIF_SEED (1500 quick / 40000 thorough). Site coverage of the sweep (translate/errflow/site_coverage.txt, produced by '
        'mutation_tests.py --per-site: one swallow-the-error mutation per translated call site, sweep judged alone): 77 of the 79 call sites '
        'give a concrete failing (drawable, stack, k); the remaining 2 (MonoFontDrawTarget::fill_solid with BinaryColor::On, '
        'mono_font/draw_target.rs:45 and :122) cannot be reached through the public API (private module, draw_string_binary only fills Off).')
EXHAUSTIVE = {'quick': False, 'thorough': False}
ASSUMPTIONS = ['the underlying target and any callee outside the anchored files (foreign ImageDrawable / TextRenderer / DrawTarget '
               'implementations) themselves stop at their first failing call and return its error (assume/guarantee: the theorem is '
               'about the library code between the caller and the target)',
               'panics are not errors: a panicking path (unreachable!(), overflow) is outside C04',
               'events of the Coq semantics carry (callee name, call site) but NO call arguments: "the calls before the failure are the same" '
               'is proved up to these events; that the faulted run passes the same ARGUMENTS as the fault-free run is determinism of the Rust '
               'code (control and data never depend on what the target answers) and is checked by p_errflow only (whole Call values compared)',
               'loop counts, branch choices and dynamic dispatch are an oracle shared by the fault-free and the faulted run (the Point returned '
               'by draw_string/draw_whitespace is branched on, but is computed from text and font only)']
TRUSTED = ['modelled, not verified: the translator translate/errflow (Rust, syn 2): its recognition of a propagating call by method/function '
           'name (set recomputed from the signatures on every run) and of the disposition of the call\'s Result; dynamic dispatch is '
           'over-approximated in the Coq semantics (a call may resolve to ANY anchored function of that name, to the underlying target, '
           'or to a compliant foreign callee)',
           'completeness of the call-site recognition is self-checked per function by an independent token census (`name(` tokens with a '
           'propagating name = translated call sites, else Other); a callee NOT defined in the scanned tree (closure parameter, foreign trait '
           'method) is recognised only in result / `?` position, a discarded Result of such a callee is visible to the dynamic sweep only',
           '"returned unchanged" additionally needs caller and callee to have the same error type: C04_repo_adapter_error_is_parent_error '
           'decides (from the regenerated table of every `impl DrawTarget`) that each declares `type Error = T::Error` for its own type '
           'parameter T: DrawTarget or is Infallible; a `?` in a function that does not return Result<_, X::Error> is Other; error types of '
           'non-DrawTarget callees are fixed by their signatures Result<_, D::Error> (that is how functions are selected)',
           'items are dropped as test-only only if their cfg predicate is false with test=off (cfg(test), all(test, ..)); every other cfg '
           '(not(test), features) is kept, so mutually exclusive cfg variants are all in the table',
           'code inside macro_rules! bodies is not parsed; the translator fails closed if such a body contains `.name(` with a propagating name']
PARTIAL = ['C04_propagating_stops / C04_repo_errors_stop_drawing: clause "calls before the failure equal the fault-free run" holds for '
           '(callee, call-site) events; equality of call arguments is covered by the sweep p_errflow only (see ASSUMPTIONS)']


def trivial(line, res):
    return res in ('', 'none', '0')


# ---------------------------------------------------------------------------------------------- spec builders
def st(fill='-', stroke='-', width=1, align=1, dotted=0):
    return J(fill, stroke, width, align, dotted)


def hexs(s):
    return s.encode('utf-8').hex() if s else '-'


def text(s, font=0, tc=7, bg='-', ul=0, sk=0, align=0, base=3, lh=0, x=4, y=12):
    return J('text', font, tc, bg, ul, sk, align, base, lh, x, y, hexs(s))


def rend(mode, width, s, **kw):
    return J('rend', mode, width, *text(s, **kw).split(' ')[1:])


def image(kind, w, h, x, y, sub=(0, 0, 0, 0), sub2=(0, 0, 0, 0)):
    return J('image', kind, w, h, x, y, *sub, *sub2)


STYLES = [
    st(fill=3), st(stroke=5, width=1), st(stroke=5, width=3), st(fill=3, stroke=5, width=2),
    st(fill=3, stroke=5, width=4, align=0), st(fill=3, stroke=5, width=3, align=2), st(stroke=9, width=0, fill=2),
    st(stroke=5, width=7, align=1), st(),
]
DOTTED = [st(stroke=5, width=2, dotted=1), st(fill=4, stroke=5, width=5, dotted=1), st(stroke=6, width=1, dotted=1, align=0),
          st(stroke=6, width=9, dotted=1, align=2)]

STACKS = [
    '-', 'cl:2:1:30:25', 'cr:3:2:40:30', 'tr:5:-3', 'cc',
    'tr:2:3,cl:0:0:30:30', 'cl:-5:-5:50:40,cr:4:4:30:30,tr:-2:1', 'cc,tr:1:1,cl:0:0:40:40',
    'cr:0:0:50:50,cc,cl:5:5:20:20,tr:3:3,cr:1:1:30:30', 'cl:0:0:0:0', 'cl:8:8:9:7,cl:10:9:20:20', 'tr:-7:4,tr:3:3,cc,cc',
]
BASES = ['nat565', 'iter565', 'nat888', 'iter888']


def fixed_drawables():
    out = []
    for s in STYLES + DOTTED:
        out.append(J('rect', 3, 2, 20, 14, s))
        out.append(J('circle', 2, 3, 17, s))
        out.append(J('ellipse', 1, 2, 23, 14, s))
        out.append(J('rrect', 2, 2, 26, 18, 4, 4, 6, 3, 5, 5, 2, 7, s))
        out.append(J('tri', 2, 3, 28, 9, 11, 24, s))
        out.append(J('line', 1, 2, 25, 17, s))
        out.append(J('poly', 4, 0, 0, 12, 9, 20, 2, 28, 16, 0, 0, s))
        out.append(J('poly', 4, 0, 0, 12, 9, 20, 2, 28, 16, 3, 4, s))
        out.append(J('arc', 2, 2, 21, 20, 230, s))
        out.append(J('sector', 2, 2, 21, -30, 250, s))
    out += [J('rect', 0, 0, 0, 0, st(fill=1, stroke=2, width=2)), J('circle', 5, 5, 0, st(fill=1)), J('circle', 5, 5, 1, st(fill=1, stroke=2)),
            J('rect', 1, 1, 12, 3, st(stroke=2, width=5)), J('rect', -30, -30, 90, 70, st(fill=1, stroke=2, width=3)),
            J('poly', 1, 3, 3, 0, 0, st(stroke=2, width=4)), J('poly', 0, 0, 0, st(stroke=2, width=4)),
            J('rect', 2, 2, 40, 30, st(stroke=5, width=3, dotted=1)), J('rect', 2, 2, 41, 33, st(stroke=5, width=6, dotted=1, fill=2))]
    # images
    out += [image(0, 9, 7, 3, 2), image(3, 8, 8, 10, 10), image(0, 0, 0, 1, 1), image(1, 12, 10, 2, 3, (2, 1, 7, 6)),
            image(1, 12, 10, 2, 3, (8, 6, 9, 9)), image(2, 12, 10, -2, 3, (1, 1, 10, 8), (2, 2, 5, 4)),
            image(2, 12, 10, 2, 3, (1, 1, 10, 8), (7, 7, 5, 4)), image(0, 40, 30, -20, -15)]
    # text
    out += [text('Hello'), text('Hello World', bg=2), text('ab\ncd\n\nef', bg=2, ul=1, sk=9), text('a b  c', font=2, bg=3, ul=1),
            text('spaced out', font=3, bg=3, sk=1, tc='-'), text('xy\r\nz', font=2, tc=4, bg='-', ul=6, align=1),
            text('right\naligned text', align=2, base=0, ul=1, lh=14), text('mid', align=1, base=2, sk=1, lh=-150, bg=1),
            text('', bg=1, ul=1), text('\n\n', bg=1, ul=1), text('näïve §', font=4, bg=5, ul=1, sk=1),
            text('BIG 10x20', font=5, bg=5, ul=3, sk=4, base=1), text('only decoration', tc='-', bg='-', ul=5, sk=6),
            text('clipped text that is long enough to leave the target', bg=2, ul=1, x=-10, y=5),
            text('invisible', tc='-', bg='-')]
    # TextRenderer API used directly (draw_whitespace is not reachable through Text)
    out += [rend(1, 9, '', bg=2, ul=1, sk=5), rend(1, 9, '', bg='-', ul=1, sk=1), rend(1, 5, '', bg=3), rend(1, 0, '', bg=3, ul=1),
            rend(1, 7, '', tc='-', bg='-', ul=4), rend(0, 0, 'ab c', bg=2, ul=1, font=2), rend(2, 6, 'xy', bg=2, ul=1, sk=1),
            rend(2, 4, 'q', tc=3, bg='-', sk=8, base=1, font=3), rend(1, 300, '', bg=2, sk=1, x=-100)]
    # pixel iterators / Pixel::draw / clear
    px = [(1, 1, 3), (2, 5, 4), (40, 40, 5), (-3, 2, 6), (7, 7, 7), (100, 100, 8)]
    flat = ' '.join(J(*p) for p in px)
    out += [J('pixels', m, len(px), flat) for m in (0, 1, 2)] + [J('pixels', 0, 0), J('pixels', 2, 0), J('clear', 9)]
    return out


def rnd_style(rng):
    fill = rng.choice(['-', rng.randrange(1, 60)])
    stroke = rng.choice(['-', rng.randrange(1, 60), rng.randrange(1, 60)])
    return st(fill, stroke, rng.choice([0, 1, 1, 2, 3, 4, 6, 9]), rng.randrange(3), 1 if rng.random() < 0.2 else 0)


def rnd_rect(rng, lo=-8, hi=30, m=26):
    return (rng.randrange(lo, hi), rng.randrange(lo, hi), rng.choice([0, 1, rng.randrange(0, m), rng.randrange(0, m)]),
            rng.choice([0, 1, rng.randrange(0, m), rng.randrange(0, m)]))


def rnd_drawable(rng):
    k = rng.randrange(15)
    p = lambda: (rng.randrange(-6, 34), rng.randrange(-6, 30))
    s = rnd_style(rng)
    if k == 0:
        return J('rect', *rnd_rect(rng), s)
    if k == 1:
        return J('circle', *p(), rng.randrange(0, 28), s)
    if k == 2:
        return J('ellipse', *rnd_rect(rng), s)
    if k == 3:
        r = rnd_rect(rng)
        return J('rrect', *r, *[rng.randrange(0, 12) for _ in range(8)], s)
    if k == 4:
        return J('tri', *p(), *p(), *p(), s)
    if k == 5:
        return J('line', *p(), *p(), s)
    if k == 6:
        n = rng.randrange(0, 6)
        pts = [c for _ in range(n) for c in p()]
        return J('poly', n, *pts, *rng.choice([(0, 0), (rng.randrange(-4, 5), rng.randrange(-4, 5))]), s)
    if k == 7:
        return J('arc', *p(), rng.randrange(0, 26), rng.randrange(-360, 361), rng.randrange(-400, 401), s)
    if k == 8:
        return J('sector', *p(), rng.randrange(0, 26), rng.randrange(-360, 361), rng.randrange(-400, 401), s)
    if k == 9:
        w, h = rng.randrange(0, 14), rng.randrange(0, 12)
        return image(rng.randrange(4), w, h, *p(), rnd_rect(rng, -2, 8, 12), rnd_rect(rng, -2, 6, 8))
    if k == 14:
        o = lambda: rng.choice(['-', rng.randrange(1, 40)])
        s_ = ''.join(rng.choice('abXY 01 ') for _ in range(rng.randrange(0, 6)))
        return rend(rng.randrange(3), rng.choice([0, 1, 5, 12, 40]), s_, font=rng.randrange(6), tc=o(), bg=o(), ul=rng.choice([0, 1, 17]),
                    sk=rng.choice([0, 1, 23]), base=rng.randrange(4), x=p()[0], y=p()[1])
    if k in (10, 11, 12):
        alpha = 'abcXYZ 019.,  \n\n\r' + 'éß'
        s_ = ''.join(rng.choice(alpha) for _ in range(rng.randrange(0, 18)))
        o = lambda: rng.choice(['-', rng.randrange(1, 40)])
        return text(s_, font=rng.randrange(6), tc=o(), bg=o(), ul=rng.choice([0, 0, 1, 17]), sk=rng.choice([0, 0, 1, 23]),
                    align=rng.randrange(3), base=rng.randrange(4), lh=rng.choice([0, 0, 9, 25, -50, -200]), x=p()[0], y=p()[1])
    n = rng.randrange(0, 9)
    return J('pixels', rng.randrange(3), n, *[c for _ in range(n) for c in (*p(), rng.randrange(1, 30))])


def rnd_stack(rng):
    d = rng.choice([0, 1, 1, 2, 2, 3, 4, 6])
    parts = []
    for _ in range(d):
        k = rng.randrange(4)
        if k == 0:
            parts.append('cl:%d:%d:%d:%d' % rnd_rect(rng, -10, 20, 60))
        elif k == 1:
            parts.append('cr:%d:%d:%d:%d' % rnd_rect(rng, -10, 20, 60))
        elif k == 2:
            parts.append('tr:%d:%d' % (rng.randrange(-9, 10), rng.randrange(-9, 10)))
        else:
            parts.append('cc')
    return ','.join(parts) if parts else '-'


def cases(tier, rng):
    return iter(())


def search(tier, rng):
    fx = fixed_drawables()
    for d in fx:
        for b in BASES:
            for s in STACKS:
                yield J('p_errflow', b, s, d)
    n = 1500 if tier == 'quick' else 40000
    for _ in range(n):
        yield J('p_errflow', rng.choice(BASES), rnd_stack(rng), rnd_drawable(rng))


LEVEL_TEXT = ('Proof: the generic Coq theorem C04_propagating_stops (coq/Proofs/Errlang.v, induction over skeletons incl. loops, then over the '
              'call depth) says: in ANY table of function skeletons in which every call site is Propagated and nothing is Other, for every entry '
              'function, every oracle (loop counts, branch choices, dynamic dispatch of every call to the underlying target or to ANY translated '
              'function of that name) and every k < n (n = calls of the fault-free run), the run whose k-th target call fails with e returns Err e '
              'unchanged and its log is exactly the first k fault-free calls plus the failing call, nothing after it; a fault at k >= n changes '
              'nothing. Per run, translate/errflow (Rust, syn) regenerates the skeleton of EVERY function in src/ and core/src/ returning '
              'Result<_, X::Error> (59 functions, 79 call sites, 16 names; items dropped only if test-only) and C04_repo_offending_sites_none / C04_repo_errflow_ok / '
              'C04_repo_no_other decide by vm_compute that all sites are Propagated (?, tail expression, return) - so a `let _ =`, `;`, `.ok()`, '
              '`.unwrap_or..`, a result bound to a variable, a closure/macro/helper that swallows, map_err, a hand-made Err breaks a theorem; '
              'C04_repo_errors_stop_drawing is the instance for the repository table. C04_repo_covers_builtin / C04_repo_covers_adapters pin by '
              '(function, file) that all 9 draw_styled, Styled::draw, Text::draw, the MonoTextStyle functions, Image/ImageRaw/SubImage, Pixel, '
              'the pixel iterator, the scanline helpers, all 4 adapters, the 3 MonoFontDrawTarget impls and the 3 trait defaults are in the table '
              'with call sites; C04_repo_site_census: per file, table call sites = an independent whole-file token census (no site lost); '
              'C04_repo_adapter_error_is_parent_error: every impl DrawTarget has type Error = T::Error (its parent) or Infallible. The dynamic sweep p_errflow (implementation only) fails '
              'every k < n on the real code for every drawable family x adapter stack x {native, draw_iter-only} target and supplies the '
              'concrete (drawable, stack, k) replay.')
LEVEL_NOTE = ('The theorem is about the skeleton semantics (coq/Model/Errlang.v), not about Rust: the translator (call recognition by name, '
              'classification of what happens to each Result) is modelled, not verified; it fails closed (unknown shapes -> Other -> theorem breaks; '
              'unparseable file / macro_rules body calling a propagating method -> translator error -> VIOLATION). Control decisions are an oracle '
              'shared by the fault-free and the faulted run (they do not depend on the Ok value of target calls, which is ()); foreign callees are '
              'atomic leaves assumed compliant; panics are outside C04; events carry no call arguments (PARTIAL). 20 seeded mutations (dropped ?, .ok() on one border only, deferred error in '
              'Text::draw, retry, call after the failure, stroke-only discard, swallowing adapter / trait default / helper / closure / nested fn / '
              'macro_rules body / cfg(not(test)) helper / Option helper with ?, fn pointer, map_err, continue-after-error, coordinator seeds C04-A '
              'and C04-B) are all reported as VIOLATION with the static side broken, 19 of them also with a concrete failing (drawable, stack, k) '
              'from the sweep (map_err(|e| e) preserves behaviour); a benign refactor (new propagating helper) stays OK. Per call site: 77 of 79 '
              'sites are reached by the sweep alone, 2 are unreachable through the public API (translate/errflow/site_coverage.txt).')
CLAIMED = True
