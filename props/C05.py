"""C05 - points() enumerates exactly the points contains() accepts
(metadata + the Rectangle/Circle/Ellipse generators; further shapes add props/C05_*.py parts)"""
from common import *

LEVEL = 'proof'
POSITIONS = [(0, 0), (-7, 3), (-30, -41), (5, -2)]


def cases(tier, rng):
    N = 20 if tier == 'quick' else 40
    for d in range(0, N + 1):
        for (x, y) in POSITIONS[:3]:
            yield J('circ_geom', x, y, d, 2)
        for n in range(-4, 5):
            yield J('circ_offset', 3, -5, d, n)
        yield J('circ_wc', -4, 9, d)
    k = 0
    for w in range(0, N + 1):
        for h in range(0, N + 1):
            x, y = POSITIONS[k % len(POSITIONS)]
            k += 1
            yield J('ell_geom', x, y, w, h, 2)
            yield J('ell_offset', x, y, w, h, (k % 9) - 4)
            yield J('ell_wc', y, x, w, h)
    # larger and random shapes
    n = 150 if tier == 'quick' else 1500
    for _ in range(n):
        x, y = coord(rng), coord(rng)
        d = rng.randrange(0, 90)
        yield J('circ_geom', x, y, d, 1)
        yield J('circ_offset', x, y, d, rng.randrange(-50, 51))
        w, h = rng.choice([(rng.randrange(0, 70), rng.randrange(0, 70)), (rng.randrange(0, 6), rng.randrange(0, 120)),
                           (rng.randrange(0, 120), rng.randrange(0, 6))])
        yield J('ell_geom', x, y, w, h, 1)
        yield J('ell_offset', x, y, w, h, rng.randrange(-40, 41))
    # display-sized shapes (the ellipse test needs 64 bit products here: repair c18b215)
    for (w, h) in [(320, 240), (400, 3), (3, 400), (257, 255), (2, 301)] + ([(640, 480), (1000, 7)] if tier != 'quick' else []):
        yield J('ell_geom', -160, -100, w, h, 1)
    yield J('circ_geom', -100, -130, 240 if tier == 'quick' else 500, 1)
    for _ in range(n):
        # range edges of the model's saturating operations (positions only; no point lists)
        x, y = coord(rng, True), coord(rng, True)
        yield J('circ_offset', x, y, extent(rng, True), rng.randrange(-2 ** 19, 2 ** 19))
        yield J('ell_offset', x, y, extent(rng, True), extent(rng, True), rng.randrange(-2 ** 19, 2 ** 19))
        yield J('circ_wc', x, y, extent(rng, True))
        yield J('ell_wc', x, y, extent(rng, True), extent(rng, True))


def search(tier, rng):
    N = 24 if tier == 'quick' else 64
    for d in range(0, N + 1):
        for (x, y) in POSITIONS:
            yield J('p_circ_c05', x, y, d)
    k = 0
    for w in range(0, N + 1):
        for h in range(0, N + 1):
            x, y = POSITIONS[k % len(POSITIONS)]
            k += 1
            yield J('p_ell_c05', x, y, w, h)
    for w in range(0, 7):
        for h in range(0, 7):
            yield J('p_rect_c05', -3, 2, w, h)
    n = 300 if tier == 'quick' else 4000
    for _ in range(n):
        x, y = coord(rng), coord(rng)
        yield J('p_circ_c05', x, y, rng.randrange(0, 150))
        w, h = rng.choice([(rng.randrange(0, 80), rng.randrange(0, 80)), (rng.randrange(0, 6), rng.randrange(0, 200)),
                           (rng.randrange(0, 200), rng.randrange(0, 6))])
        yield J('p_ell_c05', x, y, w, h)
        yield J('p_rect_c05', *rect(rng))


def trivial(line, res):
    return res in ('', 'none', '0') or res.endswith('PTS  IN ')


RULE = ('Rectangle/Circle/Ellipse: correspondence of contains() over the bounding box + margin, the points() list, bounding_box(), '
        'center(), offset(), with_center() between the extracted model and the code for ALL diameters 0..N and ALL axis pairs '
        '0..N x 0..N (N=20 quick, 40 thorough) at several positions incl. negative, plus random larger shapes and range-edge '
        'positions for the saturating operations. search: the C05 predicate itself (points() == row-major filter of contains() over '
        'box+margin, strictly row-major, inside bounding_box(), far probes outside the box) on the code for all sizes up to 24/64 '
        'and random sizes up to 200. non-trivial = the shape has at least one point.')
EXHAUSTIVE = {'quick': False, 'thorough': False}
ASSUMPTIONS = ['top-left coordinates within +-2^29, diameter / width / height within 0..2^29: the range in which the saturating '
               'operations of the model are not reached; products (diameter^2, width^2*height^2, squared doubled distances) are unbounded '
               'integers in the model while the code computes the circle test in i32/u32 and the ellipse test in i64/u64 (since c18b215) - '
               'agreement therefore needs diameter < 2^15 resp. width*height < 2^31 and probe points within that distance of the centre '
               '(arithmetic overflow at larger sizes is the subject of C08, not of C05)']
TRUSTED = ['modelled, not verified: `as u32` of a non-negative i32 squared distance, u32 `/` as Z.div, Range<i32>::find as List.find '
           'over the integer range']
PARTIAL = []

LEVEL_TEXT = ('Proof: Coq theorems over the Gallina models of Rectangle, Circle and Ellipse state that points() is literally '
              '`filter contains (row-major points of bounding_box())` - hence every accepted point exactly once, in row-major order, '
              'inside the bounding box - and that contains() is false outside the bounding box, for every position within +-2^29 and '
              'every size (0, 1, 2, thin and flat shapes included). The scanline iterators are modelled as written (first hit per row, '
              'mirrored right end, circle: a row without hit ends the iteration, ellipse: such rows are skipped) and proved equal to the '
              'filter via a generic scanline lemma (mirror symmetry + convexity of the row predicate) and, for circles, the lemma that '
              'every row of the box has a hit. The models are tied to the code by running extracted model and real methods on the same '
              'inputs on every run (all diameters / axis pairs up to N). Other shapes: see the parts.')
LEVEL_NOTE = ('Trusted: Coq kernel, extraction (ExtrOcamlBasic), the OCaml/Rust drivers; the hand-written model is validated by '
              'differential testing, not proved equal to the Rust code; arithmetic is unbounded Z (see assumptions).')

CLAIMED = True
