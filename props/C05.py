"""C05 - points() enumerates exactly the points contains() accepts
(metadata + the Rectangle/Circle/Ellipse generators; further shapes add props/C05_*.py parts)"""
from common import *

LEVEL = 'proof'
POSITIONS = [(0, 0), (-7, 3), (-30, -41), (5, -2)]


def cases(tier, rng):
    N = 20 if tier == 'quick' else 40
    for d in range(0, N + 1):
        for (x, y) in POSITIONS[:3]:
            yield J('circ_geom', x, y, d, 2)
        for n in range(-4, 5):
            yield J('circ_offset', 3, -5, d, n)
        yield J('circ_wc', -4, 9, d)
    k = 0
    for w in range(0, N + 1):
        for h in range(0, N + 1):
            x, y = POSITIONS[k % len(POSITIONS)]
            k += 1
            yield J('ell_geom', x, y, w, h, 2)
            yield J('ell_offset', x, y, w, h, (k % 9) - 4)
            yield J('ell_wc', y, x, w, h)
    # larger and random shapes
    n = 150 if tier == 'quick' else 1500
    for _ in range(n):
        x, y = coord(rng), coord(rng)
        d = rng.randrange(0, 90)
        yield J('circ_geom', x, y, d, 1)
        yield J('circ_offset', x, y, d, rng.randrange(-50, 51))
        w, h = rng.choice([(rng.randrange(0, 70), rng.randrange(0, 70)), (rng.randrange(0, 6), rng.randrange(0, 120)),
                           (rng.randrange(0, 120), rng.randrange(0, 6))])
        yield J('ell_geom', x, y, w, h, 1)
        yield J('ell_offset', x, y, w, h, rng.randrange(-40, 41))
    # display-sized shapes (the ellipse test needs 64 bit products here: repair c18b215)
    for (w, h) in [(320, 240), (400, 3), (3, 400), (257, 255), (2, 301)] + ([(640, 480), (1000, 7)] if tier != 'quick' else []):
        yield J('ell_geom', -160, -100, w, h, 1)
    yield J('circ_geom', -100, -130, 240 if tier == 'quick' else 500, 1)
    # Rectangle points()/contains() (suites of C16, run here too so that the C05 rectangle theorems are tied by ./check C05)
    for w in range(0, 7):
        for h in range(0, 7):
            x, y = POSITIONS[(w + h) % 4]
            yield J('rect_points', x, y, w, h)
            for (qx, qy) in [(x - 1, y), (x, y - 1), (x, y), (x + w - 1, y + h - 1), (x + w, y + h - 1), (x + w - 1, y + h), (x + w // 2, y + h // 2)]:
                yield J('rect_contains', x, y, w, h, qx, qy)
    for _ in range(n):
        r = rect(rng)
        yield J('rect_points', *r)
        yield J('rect_contains', *r, r[0] + rng.randrange(-2, r[2] + 3), r[1] + rng.randrange(-2, r[3] + 3))
    # contains() only, on both sides of the machine ranges (model = checked arithmetic: PANIC when an intermediate does not fit)
    yield from machine_cases(tier, rng)
    for _ in range(n):
        # range edges of the model's saturating operations (positions only; no point lists)
        x, y = coord(rng, True), coord(rng, True)
        yield J('circ_offset', x, y, extent(rng, True), rng.randrange(-2 ** 19, 2 ** 19))
        yield J('ell_offset', x, y, extent(rng, True), extent(rng, True), rng.randrange(-2 ** 19, 2 ** 19))
        yield J('circ_wc', x, y, extent(rng, True))
        yield J('ell_wc', x, y, extent(rng, True), extent(rng, True))


def machine_cases(tier, rng):
    import math
    dirs = [(1, 0), (-1, 0), (0, 1), (0, -1), (1, 1), (-1, 1), (1, -1), (-1, -1), (2, 1), (-1, 2)]
    for d in [0, 1, 5, 11, 100, 1000, 20000, 32767, 32768, 32769, 40000, 46340, 46341, 65535, 65536, 70000]:
        for (x, y) in [(0, 0), (-(d // 2), -(d // 2)), (1000, -2000)]:
            cx, cy = x + max(d - 1, 0) // 2, y + max(d - 1, 0) // 2
            pts = [(cx, cy), (x, y), (x - 1, y), (x + d - 1, y + d - 1), (x + d, y + d), (x, cy), (x - 1, cy), (cx, y), (cx, y - 1)]
            for (sx, sy) in dirs:
                nrm = math.hypot(sx, sy)
                for r in [d / 2 - 1.5, d / 2 - 0.5, d / 2 + 0.5, 23168, 23170, 23171, 23173, 32768, 32773, 65536]:
                    pts.append((cx + int(sx * r / nrm), cy + int(sy * r / nrm)))
            for (qx, qy) in pts:
                yield J('circ_in', x, y, d, qx, qy)
    yield 'circ_in 0 0 11 32773 5'
    sizes = [(320, 240), (1000, 500), (46340, 46340), (46341, 46341), (65535, 65535), (65536, 65536), (40000, 30000), (65536, 32768),
             (65537, 32768), (100000, 20000), (3, 1000000), (1000000, 3), (2, 2 ** 29), (1, 5), (0, 9), (12, 12)]
    for (w, h) in sizes:
        for (x, y) in [(0, 0), (-(w // 2), -(h // 2))]:
            cx, cy = x + max(w - 1, 0) // 2, y + max(h - 1, 0) // 2
            rx = (2 ** 31) // max(h, 1)
            ry = (2 ** 31) // max(w, 1)
            pts = [(cx, cy), (x, y), (x - 1, y), (x + w - 1, y + h - 1), (x + w, y + h), (x, cy), (x - 1, cy), (cx, y), (cx, y - 1),
                   (x + w // 7, y + h // 7), (x + w - 1 - w // 7, y + h // 6)]
            for k in (1, 2):
                for j in (-2, 0, 1, 3):
                    pts += [(cx + k * rx + j, cy), (cx - k * rx - j, cy + 1), (cx, cy + k * ry + j), (cx + 1, cy - k * ry - j), (cx + k * rx + j, cy + k * ry - j)]
            for (qx, qy) in pts:
                if abs(qx) < 2 ** 31 and abs(qy) < 2 ** 31:
                    yield J('ell_in', x, y, w, h, qx, qy)
    n = 200 if tier == 'quick' else 4000
    for _ in range(n):
        d = rng.choice([rng.randrange(0, 70000), rng.randrange(32000, 33000), rng.randrange(0, 300)])
        x, y = rng.randrange(-50000, 50000), rng.randrange(-50000, 50000)
        cx, cy = x + d // 2, y + d // 2
        r = rng.choice([d // 2, d // 2 + 1, rng.randrange(0, 70000), rng.randrange(23160, 23180), rng.randrange(32760, 32780)])
        ang = rng.random() * 6.2832
        yield J('circ_in', x, y, d, cx + int(r * math.cos(ang)), cy + int(r * math.sin(ang)))
        w, h = rng.choice([(rng.randrange(0, 70000), rng.randrange(0, 70000)), (rng.randrange(0, 2000), rng.randrange(0, 2000)), (rng.randrange(0, 8), rng.randrange(0, 2 ** 22))])
        cx, cy = x + w // 2, y + h // 2
        rr = rng.choice([1.0, 0.99, 1.01, rng.random() * 3, (2 ** 31) / max(w * h, 1) * 2])
        qx, qy = cx + int(rr * w / 2 * math.cos(ang)), cy + int(rr * h / 2 * math.sin(ang))
        if abs(qx) < 2 ** 31 and abs(qy) < 2 ** 31:
            yield J('ell_in', x, y, w, h, qx, qy)


def search(tier, rng):
    for d in [0, 1, 2, 5, 11, 64, 240, 1000, 20000, 32768, 32769, 46341, 65535]:
        for (x, y) in [(0, 0), (-7, 3), (1000, -2000)]:
            yield J('p_circ_far', x, y, d)
    for (w, h) in [(11, 11), (320, 240), (1000, 500), (500, 1000), (3, 200), (40000, 30000), (65535, 2), (2, 65535), (1, 1), (100, 7)]:
        for (x, y) in [(0, 0), (-7, 3)]:
            yield J('p_ell_far', x, y, w, h)
    N = 24 if tier == 'quick' else 64
    for d in range(0, N + 1):
        for (x, y) in POSITIONS:
            yield J('p_circ_c05', x, y, d)
    k = 0
    for w in range(0, N + 1):
        for h in range(0, N + 1):
            x, y = POSITIONS[k % len(POSITIONS)]
            k += 1
            yield J('p_ell_c05', x, y, w, h)
    for w in range(0, 7):
        for h in range(0, 7):
            yield J('p_rect_c05', -3, 2, w, h)
    n = 300 if tier == 'quick' else 4000
    for _ in range(n):
        x, y = coord(rng), coord(rng)
        yield J('p_circ_c05', x, y, rng.randrange(0, 150))
        w, h = rng.choice([(rng.randrange(0, 80), rng.randrange(0, 80)), (rng.randrange(0, 6), rng.randrange(0, 200)),
                           (rng.randrange(0, 200), rng.randrange(0, 6))])
        yield J('p_ell_c05', x, y, w, h)
        yield J('p_rect_c05', *rect(rng))


def trivial(line, res):
    return res in ('', 'none', '0') or res.endswith('PTS  IN ')


RULE = ('Rectangle/Circle/Ellipse: correspondence of contains() over the bounding box + margin, the points() list, bounding_box(), '
        'center(), offset(), with_center() between the extracted model and the code for ALL diameters 0..N and ALL axis pairs '
        '0..N x 0..N (N=20 quick, 40 thorough) at several positions incl. negative, plus random larger shapes, display-sized shapes and '
        'range-edge positions for the saturating operations; Rectangle points()/contains() for all sizes 0..6 x 0..6 + random; '
        'circ_in / ell_in: contains() alone for diameters up to 70000 and axes up to 2^29 with probes at the centre, the box edges, the curve '
        'and on BOTH sides of the machine range (model = checked arithmetic, answers PANIC exactly when an intermediate does not fit; the '
        'harness is built with overflow checks). search: the C05 predicate itself (points() == row-major filter of contains() over '
        'box+margin, strictly row-major, inside bounding_box(), far probes outside the box) on the code for all sizes up to 24/64 '
        'and random sizes up to 200; p_circ_far / p_ell_far: contains() on far points at the boundary of the no-overflow range (recomputed '
        'in i128): inside it no panic and false outside the box; beyond it only an observation is reported. non-trivial = the shape has a point.')
EXHAUSTIVE = {'quick': False, 'thorough': False}
ASSUMPTIONS = ['Circle: top-left within +-2^29 and diameter <= 2^15 (circle_mok): then every probe points()/draw() make themselves fits the '
               'machine arithmetic of the code (i32 `length_squared`, u32 threshold) and the unbounded model equals it (theorems '
               'C05_circle_box_probes_ok, C05_circle_machine_agrees). Theorems that quantify over a point p carry probe_ok c p = "every '
               'intermediate result of contains(p) fits its Rust type"; for d < 2^16 this is exactly 4*dist^2 <= i32::MAX, i.e. p within about '
               '23170 px of the centre (C05_circle_probe_ok_exact). OUTSIDE that range the code does not satisfy clause 5: a build with '
               'overflow checks panics and a release build wraps, e.g. Circle::new((0,0),11).contains((32773,5)) == true (observed; the '
               'property probes "the bounding box plus a margin", which is inside the range).',
               'Ellipse: top-left within +-2^29 and width*height <= 2^31 (ellipse_mok; equal axes therefore <= 46340, the circle threshold is '
               'computed in u32); eprobe_ok e p = every intermediate of Ellipse::contains(p) fits (i32 differences, u64 products since c18b215): '
               'far probes with h^2*dx^2 + w^2*dy^2 >= 2^64 overflow (panic / wrap) and are outside the claim.',
               'Rectangle: coordinates within +-2^29, extents within 2^29 (no saturating operation reached).']
TRUSTED = ['modelled, not verified: `as u32` of a non-negative i32 squared distance, u32 `/` as Z.div, Range<i32>::find as List.find '
           'over the integer range']
PARTIAL = []

LEVEL_TEXT = ('Proof: Coq theorems over the Gallina models of Rectangle, Circle and Ellipse state that points() is literally '
              '`filter contains (row-major points of bounding_box())` - hence every accepted point exactly once, in row-major order, '
              'inside the bounding box - and that contains() is false outside the bounding box, for every position within +-2^29, every size '
              '(0, 1, 2, thin and flat shapes included) up to diameter 2^15 resp. width*height 2^31, and every probe point for which the '
              'i32/u32/u64 arithmetic of the code does not overflow (exact condition probe_ok, proved equivalent to 4*dist^2 <= i32::MAX for '
              'circles). In that range the checked machine evaluation is proved equal to the unbounded model, and the checked model is compared '
              'with the code on both sides of the range. The scanline iterators are modelled as written (first hit per row, '
              'mirrored right end, circle: a row without hit ends the iteration, ellipse: such rows are skipped) and proved equal to the '
              'filter via a generic scanline lemma (mirror symmetry + convexity of the row predicate) and, for circles, the lemma that '
              'every row of the box has a hit. The models are tied to the code by running extracted model and real methods on the same '
              'inputs on every run (all diameters / axis pairs up to N). Other shapes: see the parts.')
LEVEL_NOTE = ('Trusted: Coq kernel, extraction (ExtrOcamlBasic), the OCaml/Rust drivers; the hand-written model is validated by '
              'differential testing, not proved equal to the Rust code; arithmetic is unbounded Z (see assumptions).')

CLAIMED = True
