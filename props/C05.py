"""C05 - points() enumerates exactly the points contains() accepts  (metadata; generators live here and/or in props/C05_*.py parts)"""
CLAIMED = False   # set True by the owner once ./check C05 passes with real theorems
LEVEL = 'proof'
LEVEL_TEXT = 'TODO'
LEVEL_NOTE = 'TODO'
