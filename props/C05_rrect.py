"""C05, RoundedRectangle part: contains / points / confine of the model vs the real code; points() = filter contains()."""
from common import *
from rrect_common import *

RULE = ('rrect correspondence (rr_all = confine_radii + contains() bitmap over box+2 + points() + bounding_box; rr_contains_pt): '
        '(i) EXHAUSTIVE equal corner radii: sizes 0..12 x 0..12, radii 0..8 x 0..8 (13 689 shapes); (ii) diagonal / adjacent corner pairs swept '
        'exhaustively (all four components 0..8) on selected sizes, the other corners zero; (iii) random unequal radii 0..8 on sizes 0..12; '
        '(iv) random sizes up to 60 with radii up to 200 (confined), thin shapes over-represented; (v) single points on shapes placed up to +-2^20 '
        'with sizes up to 10^4. rrect search: p_rr_builder (every CornerRadiiBuilder setter alone / chained / on a full builder, all, top/right/bottom/left, From<&CornerRadii>, CornerRadii::new, with_equal_corners, new, against struct literals); p_rr_points (points() == row-major filter of contains() over box+3; contains false outside the box) on the same '
        'distributions; p_rr_sweep (implementation only): for EVERY size 0..12 x 0..12 every combination of the 8 radius components over {0,1,2} '
        '(quick; {0,1,2,3} and {0,1,3,5,8} on more sizes in thorough): points == filter contains, confined radii fit, rows/columns contiguous.')
PARTIAL = []
ASSUMPTIONS = ['rrect domain rr_dom = rr_ok (base rectangle within +-2^29 / extents within 2^29: no i32/u32 saturation; radii non-negative) and '
               'rr_arith_ok = true (every intermediate of confine [u32 products], EllipseQuadrant/EllipseContains [u32/u64], RoundedRectangleContains::new, '
               'scanlines [i32] fits its Rust type); C08_rrect_arith_fits: sides <= 16383 and radii <= 65535 suffice']
TRUSTED = ['rrect: hand-written model coq/Model/Rrect.v (Scanlines/Points as the lists they yield, Range::find/rfind as List.find on the range) '
           'validated by differential testing against the real code, not proved equal to it']


def pairs(sizes):
    for (w, h) in sizes:
        for (i, j) in [(0, 2), (1, 3), (0, 1), (0, 3)]:
            for a in range(0, 9, 1):
                for b in range(0, 9, 2):
                    for c in range(0, 9, 1):
                        for d in range(0, 9, 2):
                            r = [0] * 8
                            r[2 * i], r[2 * i + 1], r[2 * j], r[2 * j + 1] = a, b, c, d
                            yield [1, -1, w, h] + r


def cases(tier, rng):
    # regression shapes of the repaired defects h, i and the overlapping-corner repair
    yield J('rr_all', 0, 0, 100, 10, 60, 10, 50, 0, 0, 0, 0, 9)
    yield J('rr_all', 0, 0, 20, 40, *([1, 10] * 4))
    yield J('rr_all', 0, 0, 10, 10, 10, 10, 0, 0, 10, 10, 0, 0)
    for g in equal_grid():
        yield J('rr_all', *g)
    sizes = [(10, 10), (5, 9)] if tier == 'quick' else [(10, 10), (5, 9), (12, 3), (1, 7), (7, 7), (8, 12), (2, 2), (3, 11)]
    for g in pairs(sizes):
        yield J('rr_all', *g)
    n = 12000 if tier == 'quick' else 300000
    for _ in range(n):
        yield J('rr_all', *small(rng))
    for _ in range(n // 4):
        yield J('rr_all', *medium(rng))
    for _ in range(n // 4):
        x, y = coord(rng, True), coord(rng, True)
        w, h = rng.randrange(10001), rng.randrange(10001)
        g = [x, y, w, h] + radii(rng, 5000)
        yield J('rr_contains_pt', *g, x + rng.randrange(-2, w + 3), y + rng.randrange(-2, h + 3))
        k = rng.randrange(4)   # a point near a corner
        cx = x + (0 if k in (0, 3) else w) + rng.randrange(-40, 41)
        cy = y + (0 if k in (0, 1) else h) + rng.randrange(-40, 41)
        yield J('rr_contains_pt', *g, cx, cy)


def search(tier, rng):
    yield J('p_rr_points', 0, 0, 20, 40, *([1, 10] * 4))
    yield J('p_rr_points', 0, 0, 10, 10, 10, 10, 0, 0, 10, 10, 0, 0)
    for w in range(13):
        for h in range(13):
            yield J('p_rr_sweep', w, h, 0)
    if tier != 'quick':
        for w in range(0, 9):
            for h in range(0, 9):
                yield J('p_rr_sweep', w, h, 1)
        for (w, h) in [(9, 9), (12, 7), (5, 11), (16, 16), (3, 12), (10, 2)]:
            yield J('p_rr_sweep', w, h, 2)
            yield J('p_rr_sweep', w, h, 3)
    n = 8000 if tier == 'quick' else 200000
    # construction API (CornerRadiiBuilder, CornerRadii::new, with_equal_corners) against struct literals
    yield J('p_rr_builder', 3, -2, 20, 30, 1, 2, 3, 4, 5, 6, 7, 8)
    for _ in range(n // 4):
        yield J('p_rr_builder', *(small(rng) if rng.random() < 0.5 else medium(rng)))
    for _ in range(n):
        yield J('p_rr_points', *small(rng))
    for _ in range(n // 2):
        yield J('p_rr_points', *medium(rng))
