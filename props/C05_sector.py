"""C05, sector part: Sector::points() vs Sector::contains() (shared predicate over the bounding-box points)."""
from common import *
from C18_sector import hook, D, rand_angle, rand_sweep

RULE = ('sector: points() and contains() (probed on the bounding box plus a margin of 0..3) of the implementation against the '
        'model for whole-degree and random angle pairs (normals via the hook), d 0..60, positions +-70 and +-2^20; search: '
        'points() == filter contains over box+margin, strictly row-major, inside bounding_box(), d 0..40, all sweeps incl. 0 and >= 360')
ASSUMPTIONS = ['sector bounding box within +-2^29 (rect_ok) for the membership / order corollaries; C05_sector_points_spec itself is unconditional']
TRUSTED = ['the plane sector (normals, operation) is a parameter of the model: C05 for sectors holds whatever the trigonometry returns']


def cases(tier, rng):
    out = []
    n = 1500 if tier == 'quick' else 30000
    spec = []
    for _ in range(n):
        k = rng.random()
        d = rng.choice([0, 1, 2, 3, 4, 5]) if k < 0.25 else rng.randrange(0, 25) if k < 0.8 else rng.randrange(0, 55)
        big = rng.random() < 0.1
        spec.append((coord(rng, big), coord(rng, big), d, rand_angle(rng), rand_sweep(rng), rng.randrange(0, 4)))
    g = [(s, w) for s in range(0, 360, 30) for w in (-400, -360, -270, -180, -91, -1, 0, 1, 45, 90, 180, 181, 359, 360)]
    for s, w in g:
        for d in (0, 1, 2, 3, 4, 5, 6, 11, 20):
            spec.append((1, -2, d, D(s), D(w), 2))
    hs = hook([(t[3], t[4]) for t in spec])
    for (x, y, d, a, s, m), nn in zip(spec, hs):
        ps = J(*nn[:5])
        out.append(J('sec_points', x, y, d, a, s, ps))
        if d + 2 * m <= 60:
            out.append(J('sec_contains', x, y, d, a, s, ps, m))
    return out


def search(tier, rng):
    out = []
    for s in range(0, 360, 15 if tier == 'quick' else 3):
        for w in (-720, -360, -300, -180, -90, -1, 0, 1, 54, 90, 179, 180, 270, 359, 360):
            for d in (0, 1, 2, 3, 4, 5, 9, 16):
                out.append(J('p_sec_c05', -2, 3, d, D(s), D(w), 3))
    n = 2000 if tier == 'quick' else 40000
    for _ in range(n):
        big = rng.random() < 0.1
        out.append(J('p_sec_c05', coord(rng, big), coord(rng, big), rng.randrange(0, 41), rand_angle(rng), rand_sweep(rng), rng.randrange(0, 5)))
    return out
