"""C05, triangle share: Triangle::points() enumerates exactly what Triangle::contains() accepts (non-zero area)."""
from common import *
import importlib.util, os

_spec = importlib.util.spec_from_file_location('c19_gen', os.path.join(os.path.dirname(os.path.abspath(__file__)), 'C19.py'))
_c19 = importlib.util.module_from_spec(_spec)
_spec.loader.exec_module(_c19)

RULE = ('triangle: correspondence of Triangle::contains() over the bounding box grown by a margin, for ALL vertex triples (up to order) of a 7x7 grid + all '
        'ordered triples of a 4x4 grid (thorough: all 117 649 ordered triples of the 7x7 grid; colinear/coincident included) + random triples up to +-16 '
        '(some up to +-40) and at the range edge +-8192; search p_tri_c05: points() == row-major filter of contains() over box + margin (each once, inside '
        'the box; non-zero area) on all triples (up to order) of the 7x7 grid + all ordered triples of a 5x5 grid and random ones up to +-60')
PARTIAL = []
TRUSTED = []
ASSUMPTIONS = ['triangle vertex coordinates within +-8192 (tri_ok) and non-zero area, as in the property text']


def cases(tier, rng):
    for t in (list(_c19.grid_triples(4)) + list(_c19.grid_multisets(7)) if tier == 'quick' else _c19.grid_triples(7)):
        yield J('tri_contains_map', *t, 1)
    n = 1200 if tier == 'quick' else 20000
    for i in range(n):
        t = _c19.rnd_tri(rng, 40 if i % 20 == 0 else 16)
        yield J('tri_contains_map', *t, 2)
    for _ in range(n // 10):
        yield J('tri_contains_map', *_c19.edge_tri(rng), 1)
        t = tuple(rng.randrange(-8192, 8193) for _ in range(6))
        for _ in range(3):
            yield J('tri_contains', *t, rng.randrange(-8192, 8193), rng.randrange(-8192, 8193))


def search(tier, rng):
    for t in (list(_c19.grid_triples(5)) + list(_c19.grid_multisets(7)) if tier == 'quick' else _c19.grid_triples(7)):
        yield J('p_tri_c05', *t, 2)
    n = 2500 if tier == 'quick' else 40000
    for _ in range(n):
        yield J('p_tri_c05', *_c19.rnd_tri(rng, 60), 2)
    for _ in range(n // 10):
        yield J('p_tri_c05', *_c19.edge_tri(rng), 1)
