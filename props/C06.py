"""C06 - Stroke and fill of closed shapes follow fill_area()/stroke_area()  (metadata; generators live here and/or in props/C06_*.py parts)"""
CLAIMED = False   # set True by the owner once ./check C06 passes with real theorems
LEVEL = 'proof'
LEVEL_TEXT = 'TODO'
LEVEL_NOTE = 'TODO'
