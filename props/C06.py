"""C06 - Stroke and fill of closed shapes follow fill_area()/stroke_area()
(metadata + the Rectangle/Circle/Ellipse generators; RoundedRectangle adds props/C06_rrect.py)"""
from common import *

LEVEL = 'proof'
COLOURS = [(1, 1), (1, 0), (0, 1), (0, 0)]       # (stroke set, fill set)
POS = [(0, 0), (-7, 3), (-30, -41), (5, -2)]


def styles(maxw):
    for w in range(0, maxw + 1):
        for al in range(3):
            for (s, f) in COLOURS:
                yield (w, al, s, f)


def cases(tier, rng):
    quick = tier == 'quick'
    # exhaustive small shapes x all stroke widths up to wider-than-the-shape x alignments x colour combinations
    D, WD = (9, 6) if quick else (16, 10)
    k = 0
    for d in range(0, D + 1):
        for st in styles(WD):
            x, y = POS[k % 4]
            k += 1
            yield J('circ_styled', x, y, d, *st)
    E, WE = (6, 4) if quick else (10, 7)
    for w in range(0, E + 1):
        for h in range(0, E + 1):
            for st in styles(WE):
                x, y = POS[k % 4]
                k += 1
                # both shapes get every style (all widths x alignments x colour combinations) on every cell
                yield J('ell_styled', x, y, w, h, *st)
                yield J('rect_styled', x, y, w, h, *st)
    # the saturating operations on the stroke-width path, at the u32 / i32 edges
    for w in [0, 1, 2, 3, 4, 5, 2 ** 31 - 2, 2 ** 31 - 1, 2 ** 31, 2 ** 31 + 1, 2 ** 32 - 3, 2 ** 32 - 2, 2 ** 32 - 1, 2 ** 30, 65535, 65536]:
        for al in range(3):
            yield J('style_split', w, al)
    n = 600 if quick else 8000
    for _ in range(n):
        x, y = coord(rng), coord(rng)
        st = (rng.choice([0, 1, 2, 3, rng.randrange(0, 30)]), rng.randrange(3), *rng.choice(COLOURS))
        yield J('circ_styled', x, y, rng.randrange(0, 60), *st)
        w, h = rng.choice([(rng.randrange(0, 50), rng.randrange(0, 50)), (rng.randrange(0, 6), rng.randrange(0, 80)),
                           (rng.randrange(0, 80), rng.randrange(0, 6))])
        yield J('ell_styled', x, y, w, h, *st)
        yield J('rect_styled', x, y, w, h, *st)
    # partly / fully outside the target box (-200,-200) 500x500
    for _ in range(n // 10):
        x, y = rng.choice([-230, -205, 280, 295, 320]), rng.choice([-230, -205, 0, 280, 295])
        st = (rng.randrange(0, 12), rng.randrange(3), *rng.choice(COLOURS))
        yield J('circ_styled', x, y, rng.randrange(0, 50), *st)
        yield J('ell_styled', x, y, rng.randrange(0, 50), rng.randrange(0, 50), *st)
        yield J('rect_styled', x, y, rng.randrange(0, 50), rng.randrange(0, 50), *st)


def search(tier, rng):
    quick = tier == 'quick'
    D, WD = (12, 8) if quick else (24, 14)
    for d in range(0, D + 1):
        for st in styles(WD):
            yield J('p_circ_c06', -3, 2, d, *st)
    E, WE = (7, 5) if quick else (12, 8)
    k = 0
    for w in range(0, E + 1):
        for h in range(0, E + 1):
            for st in styles(WE):
                k += 1
                yield J('p_ell_c06', 4, -6, w, h, *st)
                yield J('p_rect_c06', 4, -6, w, h, *st)
    for st in styles(4):
        yield J('p_style_api', *st)
    n = 500 if quick else 8000
    for _ in range(n):
        x, y = coord(rng), coord(rng)
        st = (rng.choice([0, 1, 2, 3, rng.randrange(0, 40)]), rng.randrange(3), *rng.choice(COLOURS))
        yield J('p_circ_c06', x, y, rng.randrange(0, 70), *st)
        w, h = rng.choice([(rng.randrange(0, 60), rng.randrange(0, 60)), (rng.randrange(0, 6), rng.randrange(0, 90)),
                           (rng.randrange(0, 90), rng.randrange(0, 6))])
        yield J('p_ell_c06', x, y, w, h, *st)
        yield J('p_rect_c06', x, y, w, h, *st)


def trivial(line, res):
    return res in ('', 'none', '0') or ' DRAW  DRAWI  PIX ' in res + ' '


RULE = ('Rectangle/Circle/Ellipse: correspondence of styled draw() (pixel map on a native and on a draw_iter-only recording target), '
        'pixels() (item list), fill_area(), stroke_area() and the styled bounding box between the extracted model and the code for ALL '
        'diameters 0..D resp. axis/side pairs 0..E x ALL stroke widths 0..W (wider than the shape included) x 3 alignments x '
        '{both, stroke only, fill only, none} (D,W = 9,6 quick / 16,10 thorough; E,W = 6,4 / 10,7; every style goes to BOTH ellipse and rectangle), '
        'style_split: stroke_area()/fill_area()/styled box of fixed shapes for widths 0..5, 65535/6, 2^30, 2^31-2..2^31+1, 2^32-3..2^32-1 x 3 alignments '
        '(saturating_add(1), saturating_as, saturating_add/sub(2*offset)), plus random larger and thin shapes, '
        'wide strokes and shapes partly outside the target. search: the C06 predicate itself on the code - the pixel maps of draw() '
        '(both targets) and pixels() equal "fill colour on fill_area().contains, stroke colour on stroke_area().contains minus fill area if '
        'width > 0", pixels() yields no point twice, the areas equal the documented grow/shrink rule recomputed independently, an inside '
        'stroke stays inside and an outside stroke stays outside; p_style_api + every styled suite: the style API entry points (PrimitiveStyle::new / '
        'default / with_fill / with_stroke, PrimitiveStyleBuilder::new / default / From<&style> / every setter and reset_*, StrokeAlignment::default, '
        'Styled::new vs into_styled) agree with the field-by-field value and draw the same image. non-trivial = something is painted.')
EXHAUSTIVE = {'quick': False, 'thorough': False}
ASSUMPTIONS = ['coordinates, extents and stroke width within 2^27 (no saturating operation of the model is reached, also not in the '
               'stroke area); the saturating branch of the width split itself is covered for every u32 width by C06_stroke_split_saturating and '
               'tied by the style_split cases at the u32 / i32 edges',
               'squared distances and products are unbounded integers in the model; they equal the machine arithmetic of the code when the STROKE '
               'area is in the range of C05: diameter + 2*width <= 2^15 (circle), (w + 2*width)*(h + 2*width) <= 2^31 (ellipse) - theorems '
               'C06_circle_areas_in_machine_range / C06_ellipse_areas_in_machine_range; beyond it the code overflows (C08 is about that)',
               'solid stroke style (the wording of C06); the dotted rectangle border of rectangle/styled.rs is not modelled; circle/ellipse '
               'theorems hold for both stroke kinds but only Solid is run against the code']
TRUSTED = ['modelled, not verified: a draw() is represented by the list of fill_solid calls it issues and a correct target paints '
           'exactly the rectangle of each call (C01(a)/C03 are about targets); `as u32`/`as i32` casts of in-range values; '
           'Option<Range>::unwrap_or_else in StyledScanline::new']
PARTIAL = []

LEVEL_TEXT = ('Proof: Coq theorems over the Gallina models of the styled Rectangle, Circle and Ellipse (fill rectangle + four border '
              'rectangles with the min/saturating arithmetic as written; StyledScanlines = scanline of the stroke area with the fill range '
              'searched inside it, three-way match on the colours in draw_styled and in the pixel iterator, effective_stroke_color vs '
              'stroke_color as written) state that the pixel map of draw() and of pixels() is exactly: fill colour where fill_area() contains '
              'the point, stroke colour where stroke_area() does and fill_area() does not (width > 0), nothing elsewhere - for every stroke '
              'width including wider than the shape, the three alignments and every combination of set/unset colours. The areas are proved to '
              'be the shape grown by the outside / shrunk by the inside part of the width (collapsed when the inside part eats the shape), '
              'with the corollaries that an inside stroke never leaves the shape and an outside stroke never enters it. Models are tied to the '
              'code by running extracted model and real code on the same inputs on every run.')
LEVEL_NOTE = ('Trusted: Coq kernel, extraction (ExtrOcamlBasic), the OCaml/Rust drivers; the hand-written model is validated by '
              'differential testing, not proved equal to the Rust code; arithmetic is unbounded Z (see assumptions). "pixels() yields '
              'no point twice" is a theorem for all three shapes (circle/ellipse: items are strictly row-major).')

CLAIMED = True
