"""C06, RoundedRectangle part: styled drawing of the model vs the real code; stroke/fill follow stroke_area()/fill_area()."""
from common import *
from rrect_common import *

RULE = ('rrect correspondence rr_styled: stroke_area(), fill_area(), styled bounding_box(), pixel map of draw() on a draw_iter-only and on a native '
        'target (target boxes: large, or a random small box clipping the shape), the pixels() sequence and its pixel map, for random small shapes '
        '(sizes 0..12, radii 0..8) and medium shapes (up to 60, radii up to 200) x stroke widths 0..12 (wider than the shape included: collapsed fill areas) '
        'x 3 alignments x fill/stroke present/absent; plus EXHAUSTIVE equal-corner shapes 0..8 x 0..8, radii 0..4, widths 0..5, 3 alignments. '
        'rrect search p_rr_styled on the implementation: the image of draw() (both targets) and pixels() == fill colour on fill_area().contains, stroke '
        'colour on stroke_area().contains minus fill area (width > 0), nothing else over the union of the boxes + 3; boxes of the two areas grown/shrunk '
        'by the outside/inside part; inside strokes stay inside, outside strokes outside.')
PARTIAL = []
ASSUMPTIONS = ['rrect (styled_dom): stroke area and fill area in rr_dom (within +-2^29 / 2^29, no saturation, every intermediate fits its type); pixel semantics of fill_solid = the points of the area inside the '
               'target box (C01(a)/C03 own the target-side semantics); solid strokes',
               'rrect KNOWN FINDING class K06_rrect_fill_outside_stroke (some fill_area() point outside stroke_area()): excluded from C06_rrect_styled_spec by a '
               'machine-checked boolean class predicate, witnessed by C06_rrect_styled_spec_refuted; the class predicate itself is compared model vs code (rr_k06); '
               'C06_rrect_no_oversize_no_K06 / C06_rrect_input_no_K06: the class is empty when no radius needs confinement in either area (input-checkable)']
TRUSTED = ['rrect: hand-written model coq/Model/Rrect.v + Model/Style.v validated by differential testing (rr_styled), not proved equal to the Rust code']


def tbox(rng, g):
    if rng.random() < 0.5:
        return [-300, -300, 600, 600]
    return [g[0] + rng.randrange(-6, 7), g[1] + rng.randrange(-6, 7), rng.randrange(0, g[2] + 8), rng.randrange(0, g[3] + 8)]


def styled(rng):
    g = small(rng) if rng.random() < 0.65 else medium(rng)
    return g + style(rng, 12 if rng.random() < 0.8 else 40)


def grid(maxs, maxr, maxw):
    for w in range(maxs + 1):
        for h in range(maxs + 1):
            for a in range(maxr + 1):
                for b in range(maxr + 1):
                    for sw in range(maxw + 1):
                        for al in range(3):
                            yield [0, 0, w, h] + [a, b] * 4 + [5, 7, sw, al]


def cases(tier, rng):
    yield J('rr_styled', 0, 0, 4, 20, *([1, 1] * 4), 5, 7, 3, 0, -5, -5, 30, 30)
    yield 'rr_styled 0 0 4 29 0 0 0 0 9 51 0 0 5 7 1 0 -5 -5 40 40'
    yield 'rr_styled -13 3 57 42 57 2 0 0 48 25 8 2 5 0 1 1 -20 -5 90 60'
    for g in grid(8, 4, 5) if tier != 'quick' else grid(6, 2, 3):
        yield J('rr_styled', *g, -20, -20, 60, 60)
    n = 8000 if tier == 'quick' else 200000
    for _ in range(n):
        g = styled(rng)
        yield J('rr_styled', *g, *tbox(rng, g))
    # the class predicate of the known finding (model vs implementation), oversized radii over-represented
    yield 'rr_k06 0 0 4 29 0 0 0 0 9 51 0 0 5 7 1 0'
    yield 'rr_k06 -13 3 57 42 57 2 0 0 48 25 8 2 5 0 1 1'
    for _ in range(n if tier == 'quick' else n // 8):
        g = styled(rng)
        g[2], g[3] = min(g[2], 40), min(g[3], 40)
        if rng.random() < 0.5:
            g[2], g[3] = rng.randrange(1, 40), rng.randrange(1, 40)
            g[4:12] = [rng.choice([0, rng.randrange(100)]) for _ in range(8)]
            g[14] = rng.randrange(1, 5)
        yield J('rr_k06', *g)


def search(tier, rng):
    yield J('p_rr_styled', 0, 0, 4, 20, *([1, 1] * 4), 5, 7, 3, 0)
    # notes/findings/FINDINGS-C06.md (class K06_rrect_fill_outside_stroke): fill_area() point outside stroke_area()
    yield 'p_rr_styled 0 0 4 29 0 0 0 0 9 51 0 0 5 7 1 0'
    yield 'p_rr_styled -13 3 57 42 57 2 0 0 48 25 8 2 5 0 1 1'
    for g in grid(8, 4, 5) if tier != 'quick' else grid(6, 3, 4):
        yield J('p_rr_styled', *g)
    n = 12000 if tier == 'quick' else 300000
    for _ in range(n):
        yield J('p_rr_styled', *styled(rng))
