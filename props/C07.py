"""C07 - Rendering commutes with translation  (metadata + implementation-side search; Coq parts in Properties/C07_*.v)"""
from common import *

CLAIMED = True
LEVEL = 'proof'
LEVEL_TEXT = ('Proof, assembled from parts (coq/Properties/C07_*.v): contains / points / bounding boxes / draw / pixels() commute with translation for Rectangle (C07_geometry_*), styled Rectangle/Circle/Ellipse (C07_circle_*), RoundedRectangle (C07_rrect_*), Sector/Arc (C07_sector_*, C07_arc_*), images (C07_image_*, translate_mut = translate), text incl. the returned next position (C07_text_*), triangles and thin polylines incl. translate field vs moved vertices (C07_tri_*), and the thick-stroke pipeline: LinearEquation, IntersectionParams (round_div as written incl. the saturating cast; C07_join_round_div_shift is the arithmetic core of repair a4a7ab8), Line::extents (ParallelsIterator), LineJoin, ThickSegment, Scanline and their composition up to pixels(), the fill_solid rectangles of draw() and the styled bounding box of thick polylines and stroked triangles with all three alignments (C07_join_*).')
LEVEL_NOTE = ("The thick-pipeline composition theorems assume that no USED join intersection reaches round_div's saturating cast and that segment corners lie within +-2^29 (computable predicates poly_hyps / tri_hyps, evaluated by the model oracle on every generated case); they are input-only - no hypothesis on internal values - for vertices within +-V with V + 6*width + 8 <= 8191 (C07_join_*_translate_range; covers 320x240 panels and +-1024 with strokes up to ~1100), and for single line pairs within +-511. Thick single lines: translation of the thick model is a theorem of the C17 part. Other i32/i64 arithmetic is modelled unbounded (valid to about +-2^13 for thick strokes, 2^27..2^29 elsewhere). Models tied to the code by hook-level and pixel-exact differential testing plus the search p_translate (every family, offsets across the axes).")
PARTIAL = ['thick polylines / stroked triangles beyond V + 6*width + 8 <= 8191: the composition theorems carry computable hypotheses on internal values (no saturation of used join intersections, corners within 2^29) instead of a pure coordinate bound (beyond about +-2^13 the i32 arithmetic of the code is the limit anyway)',
           'translate_mut = translate: theorem for images, rectangles and the models that define both; for the other families checked by the search p_translate (incl. Styled::translate / translate_mut themselves)']
RULE = ('search p_translate: every drawable family of the zoo (styled rectangle/circle/ellipse/rounded rectangle/triangle/line/polyline/arc/sector '
        'with random fill/stroke/width/alignment, images, sub-images, text with 8 fonts x alignments x baselines x line heights x decorations) '
        'x offsets d (small, across the axes, and up to +-2000): pixel map of x.translate(d) = shifted map of x, same for translate_mut, '
        'bounding boxes (non-empty), points(), contains() over box+margin, pixels(), text next position, polyline moved by vertices vs translate.')


def search(tier, rng):
    n = 6000 if tier == 'quick' else 120000
    for c in axis_line_cases():
        yield J('p_translate', -17, -19, c)
    # regression inputs of the repaired defect l first
    yield 'p_translate 13 -11 tri 0 0 3 1 3 9 S 1 1 4 1'
    yield 'p_translate -7 -9 poly 0 0 3 0 0 3 0 0 6 S 0 1 4 1'
    for k in range(n):
        fam = FAMILIES[k % len(FAMILIES)] if k % 3 else rng.choice(['tri', 'poly', 'line'])
        r = rng.random()
        if r < 0.5:
            d = (rng.randrange(-40, 41), rng.randrange(-40, 41))
        elif r < 0.8:
            d = (rng.randrange(-7, 8), rng.randrange(-7, 8))
        else:
            d = (rng.randrange(-2000, 2001), rng.randrange(-2000, 2001))
        yield J('p_translate', *d, zoo_case(rng, fam, dotted=True))
