"""C07 - Rendering commutes with translation  (metadata + implementation-side search; Coq parts in Properties/C07_*.v)"""
from common import *

CLAIMED = False  # until theorem parts are merged
LEVEL = 'proof'
LEVEL_TEXT = 'TODO'
LEVEL_NOTE = 'TODO'
RULE = ('search p_translate: every drawable family of the zoo (styled rectangle/circle/ellipse/rounded rectangle/triangle/line/polyline/arc/sector '
        'with random fill/stroke/width/alignment, images, sub-images, text with 8 fonts x alignments x baselines x line heights x decorations) '
        'x offsets d (small, across the axes, and up to +-2000): pixel map of x.translate(d) = shifted map of x, same for translate_mut, '
        'bounding boxes (non-empty), points(), contains() over box+margin, pixels(), text next position, polyline moved by vertices vs translate.')


def search(tier, rng):
    n = 6000 if tier == 'quick' else 120000
    # regression inputs of the repaired defect l first
    yield 'p_translate 13 -11 tri 0 0 3 1 3 9 S 1 1 4 1'
    yield 'p_translate -7 -9 poly 0 0 3 0 0 3 0 0 6 S 0 1 4 1'
    for k in range(n):
        fam = FAMILIES[k % len(FAMILIES)] if k % 3 else rng.choice(['tri', 'poly', 'line'])
        r = rng.random()
        if r < 0.5:
            d = (rng.randrange(-40, 41), rng.randrange(-40, 41))
        elif r < 0.8:
            d = (rng.randrange(-7, 8), rng.randrange(-7, 8))
        else:
            d = (rng.randrange(-2000, 2001), rng.randrange(-2000, 2001))
        yield J('p_translate', *d, zoo_case(rng, fam))
