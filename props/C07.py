"""C07 - Rendering commutes with translation  (metadata; generators live here and/or in props/C07_*.py parts)"""
CLAIMED = False   # set True by the owner once ./check C07 passes with real theorems
LEVEL = 'proof'
LEVEL_TEXT = 'TODO'
LEVEL_NOTE = 'TODO'
