"""C07 part for the families rectangle / circle / ellipse (theorems in coq/Properties/C07_circle.v)."""
from common import *

COLOURS = [(1, 1), (1, 0), (0, 1), (0, 0)]


def cases(tier, rng):
    # model <-> code tie at a position and at its translate (the model's translate only moves the top-left corner)
    n = 150 if tier == 'quick' else 3000
    for _ in range(n):
        x, y = coord(rng), coord(rng)
        dx, dy = rng.randrange(-60, 61), rng.randrange(-60, 61)
        st = (rng.choice([0, 1, 2, rng.randrange(0, 12)]), rng.randrange(3), *rng.choice(COLOURS))
        d, w, h = rng.randrange(0, 30), rng.randrange(0, 25), rng.randrange(0, 25)
        for (a, b) in ((x, y), (x + dx, y + dy)):
            yield J('circ_styled', a, b, d, *st)
            yield J('ell_styled', a, b, w, h, *st)
            yield J('rect_styled', a, b, w, h, *st)
            yield J('circ_geom', a, b, d, 1)
            yield J('ell_geom', a, b, w, h, 1)


RULE = ('part circle (rectangle/circle/ellipse): correspondence of contains()/points()/draw()/pixels() between extracted model and code '
        'for random shapes at a position and at its translate (offsets up to +-60, across the axes).')
ASSUMPTIONS = ['part circle: as C05/C06, for the shape and for its translate']
PARTIAL = []
TRUSTED = []
