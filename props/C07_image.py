"""C07, image part - Image::translate / translate_mut (correspondence of Model image_translate + search on the implementation)"""
from common import *
import C09 as base

RULE = ('image part: Image::new(d, o).translate(t) / translate_mut(t) for d = ImageRaw or 1..2 nested sub images, 7 raw widths x 2 orders, '
        'sizes 0..8, offsets and t small / across the axes / up to +-2^20: correspondence of box, pixel map and call areas with the model; '
        'search: map, box and call areas of the translated image = those of the original moved by t, translate_mut = translate.')
PARTIAL = []
TRUSTED = []
ASSUMPTIONS = []


def tr_case(rng, pre):
    bpp, alt = rng.choice(base.BPPS), rng.randrange(2)
    w, h = rng.randrange(0, 9), rng.randrange(0, 9)
    nsub = rng.choice([0, 0, 1, 2])
    region = (0, 0, w, h)
    subs = []
    for _ in range(nsub):
        a = base.sub_area(rng, region[2] - region[0], region[3] - region[1])
        subs += list(a)
        region = base.clip(region, a)
    sw, sh = region[2] - region[0], region[3] - region[1]

    def off():
        k = rng.random()
        if k < 0.15:
            return rng.choice([-1, 1]) * rng.randrange(2 ** 20 - 40, 2 ** 20)
        if k < 0.3:
            return 0
        return rng.randrange(-15, 16)
    ox, oy, tx, ty = off(), off(), off(), off()
    # the target the translated image is drawn on: around / across where it lands
    lx, ly = ox + tx, oy + ty
    k = rng.random()
    if k < 0.6:
        bb = (lx - 2, ly - 2, sw + 4, sh + 4)
    elif k < 0.9:
        bb = (lx + rng.randrange(-3, sw + 2), ly + rng.randrange(-3, sh + 2), rng.randrange(0, sw + 4), rng.randrange(0, sh + 4))
    else:
        bb = (lx + sw + 1, ly, 3, 3)
    return J(pre + 'img_translate', bpp, alt, w, h, base.stride(w, bpp) * h, rng.randrange(2 ** 30), ox, oy, tx, ty,
             rng.randrange(2), *bb, nsub, *subs)


def cases(tier, rng):
    for _ in range(1500 if tier == 'quick' else 30000):
        yield tr_case(rng, '')


def search(tier, rng):
    for _ in range(1500 if tier == 'quick' else 30000):
        yield tr_case(rng, 'p_')
