"""C07, join part: the thick stroke join machinery (Model/Join.v, Proofs/Join.v, Properties/C07_join.v)."""
from common import *

HOOK_SUITES = True    # joinh_* suites read internals through verif_hooks (hook commit fe5d89e in /repo)

RULE = ('join correspondence: (hook level, feature verif_hooks) Line::extents, LinearEquation, IntersectionParams incl. nearly parallel pairs, '
        'LineJoin::start/end/from_points with all three stroke offsets, ThickSegment bounding box and scanline intersection, on random '
        'coordinates up to +-500 and widths 0..40; (public API level) thick polylines (2..6 vertices, widths 2..12, repeated vertices, reversals, colinear and nearly colinear runs, '
        'sharp angles, coordinates on both sides of the axes and up to +-300; bounding boxes also on a display-scale stratum +-1024 with widths up to 128) through Polyline.into_styled(w).pixels() (exact order), '
        'draw() (exact fill_solid rectangles) and the styled bounding box; thick triangles (all alignments, with and without fill, sharp and nearly '
        'flat ones) through pixels(), draw() and the styled bounding box; model = extracted Model/Join.v + Model/JoinTri.v. '
        'search p_translate (suite of C07.py) on thick triangles / polylines with coordinates within +-12 moved across the axes (join rounding ties); '
        'search p_thick_join: pixels() = draw(), all pixels inside the styled bounding box, and for strokes with segments >= 6 widths and interior '
        'angles >= 15 degrees a real-number reference: every stroke pixel lies within 1.2 * reach + 1.5 of a segment or within the miter limit '
        '(2 widths + 2) of a join, and the inner 55 percent of the stroke band along every segment is covered')
PARTIAL = ['the input-only composition theorems (C07_join_*_translate_range) hold for vertices within +-V with V + 6*width + 8 <= 8191 '
           '(e.g. coordinates within +-7000 with stroke <= 197; Proofs/JoinPointBound.v ports the argument of C08_join_point_bound); beyond that range the composition theorems C07_join_polyline_* / C07_join_triangle_* carry the '
           'computable hypotheses poly_hyps / tri_hyps (no used rounded intersection reaches the saturating cast; segment corners within +-2^29), '
           'which the model oracle evaluates on every generated case (suites join_poly_hyp, join_tri_hyp: true on all inputs up to +-2^13, '
           'widths <= 64); beyond +-8191 for the edge lines the unbounded model no longer equals the i32 arithmetic of the code anyway (Proofs/JoinTri.v, last comment)']
ASSUMPTIONS = ['join theorems: the saturating cast of round_div is modelled; theorems that go through it assume it is not reached '
               '(isect_nosat / join_nosat / poly_nosat, computable predicates of the input; guaranteed for all line pairs within +-511 by '
               'C07_join_intersection_translate); all other i32/i64 arithmetic of the join code is modelled unbounded: model and code agree '
               'while |coordinates| <= 2^13 and width <= 2^13 (normal vector determinant and dot products stay below 2^31), which is the range '
               'the correspondence suites sample']
TRUSTED = ['modelled, not verified: i64::div_euclid as floor division by a positive divisor, az::SaturatingAs i64->i32 as clamping']


def c_small(rng):
    return rng.randrange(-12, 13)


def c_mid(rng):
    return rng.randrange(-60, 61)


def poly_pts(rng):
    n = rng.choice([2, 2, 3, 3, 3, 4, 4, 5, 6])
    c = rng.choice([c_small] * 8 + [c_mid] * 7 + [lambda r: r.randrange(-300, 301)])
    pts = []
    for _ in range(n):
        k = rng.random()
        if pts and k < 0.08:
            pts.append(rng.choice(pts))                      # repeated vertex
        elif len(pts) >= 2 and k < 0.2:                      # colinear / nearly colinear continuation or reversal
            (ax, ay), (bx, by) = pts[-2], pts[-1]
            m = rng.choice([-2, -1, 1, 2, 3])
            pts.append((bx + m * (bx - ax) + rng.choice([0, 0, 1, -1]), by + m * (by - ay) + rng.choice([0, 0, 0, 1])))
        else:
            pts.append((c(rng), c(rng)))
    return pts


def flat(pts):
    return [v for p in pts for v in p]


def width(rng):
    return rng.choice([2, 2, 3, 3, 4, 5, 6, 7, 8, 10, 12, rng.randrange(2, 30)])


def hook_cases(tier, rng, n):
    for _ in range(n):
        c = rng.choice([c_small, c_mid, lambda r: r.randrange(-500, 501), lambda r: r.randrange(-8192, 8193)])
        a = [c(rng) for _ in range(8)]
        w = rng.choice([0, 1, 2, 3, 4, 5, 6, 8, 11, rng.randrange(0, 40)])
        so = rng.randrange(3)
        yield J('joinh_extents', *a[:4], w, so)
        yield J('joinh_lineq', *a[:6])
        yield J('joinh_isect', *a)
        if rng.random() < 0.3:   # nearly parallel pair
            dx, dy = a[2] - a[0], a[3] - a[1]
            m = rng.choice([1, 2, -1, 3])
            yield J('joinh_isect', *a[:4], a[4], a[5], a[4] + m * dx + rng.choice([0, 1, -1]), a[5] + m * dy + rng.choice([0, 1]))
        pts = poly_pts(rng)
        while len(pts) < 4:
            pts.append((c(rng), c(rng)))
        f = flat(pts[:4])
        yield J('joinh_join', rng.choice([0, 1, 2, 2, 2, 2]), *f[:6], w, so)
        yield J('joinh_segment', *f, rng.randrange(2), rng.randrange(2), w, so, f[3] + rng.randrange(-w - 2, w + 3))


def cases(tier, rng):
    n = 1000 if tier == 'quick' else 30000
    # all joins of a small fan: mid at the origin, both arms on a grid, widths 2..6
    G = 3 if tier == 'quick' else 5
    for ax in range(-G, G + 1):
        for ay in range(-G, G + 1):
            for bx in range(-G, G + 1, 1 if tier != 'quick' else 2):
                for by in range(-G, G + 1, 1 if tier != 'quick' else 2):
                    w = 2 + (ax * 7 + ay * 5 + bx * 3 + by) % 5
                    yield J('join_poly_pixels', w, 0, 0, 2 * ax, 2 * ay, 0, 0, 2 * bx, 2 * by)
    for _ in range(n):
        pts = poly_pts(rng)
        w = width(rng)
        t = rng.choice([(0, 0), (0, 0), (rng.randrange(-20, 21), rng.randrange(-20, 21))])
        yield J('join_poly_pixels', w, *t, *flat(pts))
        yield J('join_poly_bbox', w, *flat(pts))
        if rng.random() < 0.5:
            yield J('join_poly_rects', w, *flat(pts))
    # thick triangles: the only public way to LineJoin::from_points with StrokeOffset::Left / Right
    for _ in range(n):
        t = flat(tri_pts(rng))
        w = rng.choice([0, 1, 2, 3, 4, 5, 6, 8, 10, rng.randrange(2, 24)])
        al, fl = rng.randrange(3), rng.randrange(2)
        yield J(rng.choice(['join_tri_pixels', 'join_tri_pixels', 'join_tri_rects']), w, al, fl, *t)
        yield J('join_tri_bbox', w, al, fl, *t)
        yield J('join_tri_fused', w, al, fl, *t)      # C01_join: model-side evaluation of the hypothesis jt_fused
    # display-scale stratum (+-1024, widths up to 128): bounding boxes are cheap on the model side, pixel suites are not
    nb = 200 if tier == 'quick' else 4000
    for k in range(nb):
        pts, t, w = big_poly(rng), big_tri(rng), big_width(rng)
        yield J('join_poly_bbox', w, *flat(pts))
        yield J('join_tri_bbox', w, rng.randrange(3), 0, *flat(t))
        if k % (50 if tier == 'quick' else 40) == 0:
            sm = [(x // 4, y // 4) for x, y in pts]          # +-256: a few thousand pixels per case
            yield J('join_poly_pixels', min(w, 40), 0, 0, *flat(sm))
            yield J('join_tri_pixels', min(w, 40), rng.randrange(3), rng.randrange(2), *flat([(x // 4, y // 4) for x, y in t]))
    # the hypotheses of the composition theorems hold on display-scale input (model-side evaluation; the implementation
    # side answers the constant 1): coordinates within +-2^13 before and after the move, widths 2..64
    for _ in range(n):
        B = rng.choice([20, 300, 4096, 8192])
        pts = []
        for i in range(rng.choice([2, 3, 3, 4, 5])):
            if len(pts) >= 2 and rng.random() < 0.3:
                (ax, ay), (bx, by) = pts[-2], pts[-1]
                m = rng.choice([-2, -1, 1, 2])
                q = (bx + m * (bx - ax) + rng.choice([0, 1, -1]), by + m * (by - ay) + rng.choice([0, 0, 1]))
                pts.append((max(-B, min(B, q[0])), max(-B, min(B, q[1]))))
            else:
                pts.append((rng.randrange(-B, B + 1), rng.randrange(-B, B + 1)))
        d = (rng.randrange(-B, B + 1), rng.randrange(-B, B + 1))
        yield J('join_poly_hyp', rng.randrange(2, 65), *d, *flat(pts))
        t = [rng.randrange(-B, B + 1) for _ in range(6)]
        if rng.random() < 0.3:    # nearly flat triangle
            t[4], t[5] = (t[0] + t[2]) // 2 + rng.choice([0, 1, -1]), (t[1] + t[3]) // 2 + rng.choice([1, -1, 2])
        yield J('join_tri_hyp', rng.randrange(0, 65), rng.randrange(3), *d, *t)
    if HOOK_SUITES:
        yield from hook_cases(tier, rng, 6 * n)


def big_poly(rng):
    """display-scale stratum: vertices within +-1024"""
    n = rng.choice([2, 3, 3, 4])
    return [(rng.randrange(-1024, 1025), rng.randrange(-1024, 1025)) for _ in range(n)]


def big_tri(rng):
    return [(rng.randrange(-1024, 1025), rng.randrange(-1024, 1025)) for _ in range(3)]


def big_width(rng):
    return rng.choice([2, 3, 5, 8, 16, 33, 64, 100, 128, rng.randrange(2, 129)])


def tri_pts(rng):
    c = rng.choice([c_small] * 8 + [c_mid] * 7 + [lambda r: r.randrange(-200, 201)])
    k = rng.random()
    a = (c(rng), c(rng))
    if k < 0.15:     # sharp: two vertices close together, far from the third
        b = (a[0] + rng.randrange(-3, 4), a[1] + rng.randrange(-3, 4))
        return [a, b, (c(rng), c(rng))]
    if k < 0.25:     # nearly flat
        b = (c(rng), c(rng))
        m = rng.choice([2, 3])
        return [a, b, (a[0] + (b[0] - a[0]) // m + rng.choice([0, 1, -1]), a[1] + (b[1] - a[1]) // m + rng.choice([1, -1, 2]))]
    return [a, (c(rng), c(rng)), (c(rng), c(rng))]


def tame_path(rng, w, n, closed=False):
    """vertices with segment lengths >= 6w and interior angles >= 15 degrees (what p_thick's geometric reference needs);
    a third of the joins are sharp (15..35 degrees: around the miter limit), the rest anything up to straight"""
    import math
    for _ in range(50):
        x, y = rng.randrange(-40, 41), rng.randrange(-40, 41)
        heading = rng.uniform(0, 2 * math.pi)
        pts = [(x, y)]
        for k in range(n - 1):
            ln = rng.uniform(6.2 * w + 1, 6.2 * w + 40)
            x, y = x + ln * math.cos(heading), y + ln * math.sin(heading)
            pts.append((round(x), round(y)))
            interior = rng.uniform(16, 36) if rng.random() < 0.35 else rng.uniform(16, 180)
            heading += (math.pi - math.radians(interior)) * rng.choice([-1, 1])
        if not closed:
            return pts
        # triangle: accept when the closing side and both new angles are tame as well
        def ang(a, b, c):
            u = (a[0] - b[0], a[1] - b[1]); v = (c[0] - b[0], c[1] - b[1])
            d = math.hypot(*u) * math.hypot(*v)
            return math.degrees(math.acos(max(-1, min(1, (u[0] * v[0] + u[1] * v[1]) / d)))) if d else 0
        a, b, c = pts
        if math.hypot(a[0] - c[0], a[1] - c[1]) >= 6 * w + 1 and min(ang(c, a, b), ang(a, b, c), ang(b, c, a)) >= 15.5:
            return pts
    return pts


def translate_cases(tier, rng):
    """p_translate (harness/src/suites/c07.rs) aimed at the join rounding: thick triangles / polylines with small coordinates around
    the origin (rounding ties x.5 of the join corners are frequent there, and their sign changes across the axes), moved across the axes"""
    n = 2500 if tier == 'quick' else 50000
    for _ in range(n):
        w = rng.choice([2, 3, 4, 4, 5, 6, 8])
        d = (rng.randrange(-40, 41), rng.randrange(-40, 41)) if rng.random() < 0.8 else (rng.randrange(-3000, 3001), rng.randrange(-3000, 3001))
        if rng.random() < 0.5:
            v = [rng.randrange(-12, 13) for _ in range(6)]
            yield J('p_translate', *d, 'tri', *v, 'S', rng.randrange(2), 1, w, rng.randrange(3))
        else:
            k = rng.choice([3, 3, 4, 5])
            v = [rng.randrange(-12, 13) for _ in range(2 * k)]
            yield J('p_translate', *d, 'poly', 0, 0, k, *v, 'S', 0, 1, w, 1)


def search(tier, rng):
    yield from translate_cases(tier, rng)
    n = 2500 if tier == 'quick' else 50000
    for _ in range(n):
        w = rng.choice([2, 3, 3, 4, 5, 6, 7, 8, 10, 12])
        yield J('p_thick_join poly', w, *flat(tame_path(rng, w, rng.choice([2, 3, 3, 4, 5]))))
        yield J('p_thick_join tri', w, rng.randrange(3), *flat(tame_path(rng, w, 3, closed=True)))
        if rng.random() < 0.2:   # display-scale stratum, implementation only: +-1024, widths up to 128
            yield J('p_thick_join poly', big_width(rng), *flat(big_poly(rng)))
            yield J('p_thick_join tri', big_width(rng), rng.randrange(3), *flat(big_tri(rng)))
        if rng.random() < 0.5:   # anything: pixels() = draw(), inside the styled bounding box
            yield J('p_thick_join poly', width(rng), *flat(poly_pts(rng)))
            yield J('p_thick_join tri', width(rng), rng.randrange(3), *flat(tri_pts(rng)))
