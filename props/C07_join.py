"""C07, join part: the thick stroke join machinery (Model/Join.v, Proofs/Join.v, Properties/C07_join.v)."""
from common import *

HOOK_SUITES = False   # joinh_* suites need verif hook functions that are not in /repo yet (notes/join-hook.patch)

RULE = ('join correspondence: thick polylines (2..6 vertices, widths 2..12, repeated vertices, reversals, colinear and nearly colinear runs, '
        'sharp angles, coordinates on both sides of the axes and up to +-300) through Polyline.into_styled(w).pixels() (exact order), '
        'draw() (exact fill_solid rectangles) and the styled bounding box, model = extracted Model/Join.v')
PARTIAL = []
ASSUMPTIONS = ['join theorems: no saturation in the join intersection (stated as |coordinates| <= 511 for IntersectionParams::intersection, '
               'or as the explicit in-range hypothesis of the raw quotient); widths and coordinates in the range where i32/i64 arithmetic does not overflow']
TRUSTED = ['modelled, not verified: i64::div_euclid as floor division by a positive divisor, az::SaturatingAs i64->i32 as clamping']


def c_small(rng):
    return rng.randrange(-12, 13)


def c_mid(rng):
    return rng.randrange(-60, 61)


def poly_pts(rng):
    n = rng.choice([2, 2, 3, 3, 3, 4, 4, 5, 6])
    c = rng.choice([c_small, c_small, c_mid, lambda r: r.randrange(-300, 301)])
    pts = []
    for _ in range(n):
        k = rng.random()
        if pts and k < 0.08:
            pts.append(rng.choice(pts))                      # repeated vertex
        elif len(pts) >= 2 and k < 0.2:                      # colinear / nearly colinear continuation or reversal
            (ax, ay), (bx, by) = pts[-2], pts[-1]
            m = rng.choice([-2, -1, 1, 2, 3])
            pts.append((bx + m * (bx - ax) + rng.choice([0, 0, 1, -1]), by + m * (by - ay) + rng.choice([0, 0, 0, 1])))
        else:
            pts.append((c(rng), c(rng)))
    return pts


def flat(pts):
    return [v for p in pts for v in p]


def width(rng):
    return rng.choice([2, 2, 3, 3, 4, 5, 6, 7, 8, 10, 12, rng.randrange(2, 30)])


def hook_cases(tier, rng, n):
    for _ in range(n):
        c = rng.choice([c_small, c_mid, lambda r: r.randrange(-500, 501)])
        a = [c(rng) for _ in range(8)]
        w = rng.choice([0, 1, 2, 3, 4, 5, 6, 8, 11, rng.randrange(0, 40)])
        so = rng.randrange(3)
        yield J('joinh_extents', *a[:4], w, so)
        yield J('joinh_lineq', *a[:6])
        yield J('joinh_isect', *a)
        if rng.random() < 0.3:   # nearly parallel pair
            dx, dy = a[2] - a[0], a[3] - a[1]
            m = rng.choice([1, 2, -1, 3])
            yield J('joinh_isect', *a[:4], a[4], a[5], a[4] + m * dx + rng.choice([0, 1, -1]), a[5] + m * dy + rng.choice([0, 1]))
        pts = poly_pts(rng)
        while len(pts) < 4:
            pts.append((c(rng), c(rng)))
        f = flat(pts[:4])
        yield J('joinh_join', rng.choice([0, 1, 2, 2, 2, 2]), *f[:6], w, so)
        yield J('joinh_segment', *f, rng.randrange(2), rng.randrange(2), w, so, f[3] + rng.randrange(-w - 2, w + 3))


def cases(tier, rng):
    n = 2500 if tier == 'quick' else 40000
    # all joins of a small fan: mid at the origin, both arms on a grid, widths 2..6
    G = 3 if tier == 'quick' else 5
    for ax in range(-G, G + 1):
        for ay in range(-G, G + 1):
            for bx in range(-G, G + 1, 1 if tier != 'quick' else 2):
                for by in range(-G, G + 1, 1 if tier != 'quick' else 2):
                    w = 2 + (ax * 7 + ay * 5 + bx * 3 + by) % 5
                    yield J('join_poly_pixels', w, 0, 0, 2 * ax, 2 * ay, 0, 0, 2 * bx, 2 * by)
    for _ in range(n):
        pts = poly_pts(rng)
        w = width(rng)
        t = rng.choice([(0, 0), (0, 0), (rng.randrange(-20, 21), rng.randrange(-20, 21))])
        yield J('join_poly_pixels', w, *t, *flat(pts))
        yield J('join_poly_bbox', w, *flat(pts))
        if rng.random() < 0.5:
            yield J('join_poly_rects', w, *flat(pts))
    if HOOK_SUITES:
        yield from hook_cases(tier, rng, n)
