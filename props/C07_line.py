"""C07, line part: points(), pixels(), bounding boxes and draw() of a translated line are the translated ones."""
from common import *

RULE = ('line part: search p_line_translate: lines with deltas in [-R,R]^2 (R=6 quick / 10 thorough) x widths {0,1,2,3,5,8} x offsets '
        'across both axes, and random lines up to 200 long x widths up to 30 x offsets up to +-5000: translate = translate_mut, points(), '
        'bounding_box(), Styled pixels() (ordered), styled bounding_box(), Styled::translate and the drawn pixel map all shift exactly.')
PARTIAL = []
TRUSTED = []
ASSUMPTIONS = []

OFFS = [(1, 0), (0, -1), (-7, -9), (13, -11), (-40, 25), (1000, -2000)]


def search(tier, rng):
    R = 6 if tier == 'quick' else 10
    k = 0
    for x in range(-R, R + 1):
        for y in range(-R, R + 1):
            for w in (0, 1, 2, 3, 5, 8):
                d = OFFS[k % len(OFFS)]
                k += 1
                yield J('p_line_translate', d[0], d[1], 2, -3, 2 + x, -3 + y, w)
    for _ in range(1500 if tier == 'quick' else 30000):
        x0, y0 = rng.randrange(-100, 101), rng.randrange(-100, 101)
        m = rng.choice([3, 15, 60, 200])
        d = rng.choice(OFFS) if rng.random() < 0.3 else (rng.randrange(-5000, 5001), rng.randrange(-5000, 5001))
        yield J('p_line_translate', d[0], d[1], x0, y0, x0 + rng.randrange(-m, m + 1), y0 + rng.randrange(-m, m + 1),
                rng.choice([0, 1, 2, 3, 4, 5, 6, 9, 14, 30]))
