"""C07, RoundedRectangle part: contains / points / bounding boxes / draw / pixels commute with translation."""
from common import *
from rrect_common import *
from C06_rrect import styled

RULE = ('rrect correspondence: rr_all / rr_styled on shapes at positions on both sides of the axes (the model is compared at the translated position too). '
        'rrect search p_rr_translate on the implementation: translate == translate_mut, only the position changes, points() shifted, contains() shifted over '
        'box+2, styled bounding box shifted (non-empty), draw() image (both target kinds) and pixels() sequence shifted; offsets small, across the axes, up to +-2000.')
PARTIAL = []
ASSUMPTIONS = ['rrect: see the C06 rrect part (styled_ok range; class K06_rrect_fill_outside_stroke excluded where stated)']


def cases(tier, rng):
    n = 1500 if tier == 'quick' else 30000
    for _ in range(n):
        g = small(rng)
        d = (rng.randrange(-50, 51), rng.randrange(-50, 51))
        yield J('rr_all', *g)
        yield J('rr_all', g[0] + d[0], g[1] + d[1], *g[2:])
        yield J('rr_translate', *g, *d)
        yield J('rr_translate', *g, rng.randrange(-2000, 2001), rng.randrange(-2000, 2001))


def search(tier, rng):
    n = 6000 if tier == 'quick' else 150000
    for _ in range(n):
        g = styled(rng)
        r = rng.random()
        d = (rng.randrange(-40, 41), rng.randrange(-40, 41)) if r < 0.5 else (rng.randrange(-7, 8), rng.randrange(-7, 8)) if r < 0.8 else (rng.randrange(-2000, 2001), rng.randrange(-2000, 2001))
        yield J('p_rr_translate', *d, *g)
