"""C07, sector + arc part: contains / points / styled drawing commute with translation."""
from common import *

RULE = ('sector/arc: search p_translate on arc/sector zoo cases (whole-degree angles incl. 0, +-360, > 360; widths 0..12; offsets '
        'small, across the axes and up to +-2000): draw(translate) = shifted draw, translate_mut, bounding boxes, points(), contains(), pixels(); '
        'the model the theorems are about is tied to the code by the C18/C02 sector correspondence suites')
ASSUMPTIONS = ['bounding boxes within +-2^29 before and after the move (rect_ok)']


def search(tier, rng):
    n = 1500 if tier == 'quick' else 40000
    for k in range(n):
        r = rng.random()
        if r < 0.5:
            d = (rng.randrange(-40, 41), rng.randrange(-40, 41))
        elif r < 0.8:
            d = (rng.randrange(-7, 8), rng.randrange(-7, 8))
        else:
            d = (rng.randrange(-2000, 2001), rng.randrange(-2000, 2001))
        yield J('p_translate', *d, zoo_case(rng, 'arc' if k % 2 else 'sector'))
