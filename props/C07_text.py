"""C07 text clause: Text rendering, next position and bounding box commute with translation (part of C07)."""
from common import *
import C14 as g
import C15 as t

RULE = ('text: search p_c07_text = built-in fonts x 16 colour/decoration roles x alignments x baselines x line heights x multi-line strings x positions x offsets d '
        '(small, across the axes, up to +-2^20): pixel map of text.translate(d) = shifted map, translate_mut = translate, next position and bounding box shift by d.')
ASSUMPTIONS = ['text: every line of the text and of its translate inside |coordinates| <= 2^28']
TRUSTED = []
PARTIAL = []


def search(tier, rng):
    maps, fonts = g.table()
    n = 4000 if tier == 'quick' else 80000
    for k in range(n):
        name, mi = fonts[rng.randrange(len(fonts))]
        x, y = g.position(rng)
        r = rng.random()
        d = (rng.randrange(-40, 41), rng.randrange(-40, 41)) if r < 0.6 else (rng.randrange(-2 ** 20, 2 ** 20), rng.randrange(-2 ** 20, 2 ** 20))
        yield J('p_c07_text', name, *g.style(rng, k % 16), *t.tstyle(rng), x, y, *d, g.lst(t.multiline(rng, maps[mi][1])))
