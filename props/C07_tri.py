"""C07, triangle / polyline part: rendering commutes with translation."""
from common import *
import importlib.util, os

_spec = importlib.util.spec_from_file_location('c19_gen', os.path.join(os.path.dirname(os.path.abspath(__file__)), 'C19.py'))
_c19 = importlib.util.module_from_spec(_spec)
_spec.loader.exec_module(_c19)

RULE = ('triangle/polyline: search p_translate (draw / pixels() / points() / contains() / bounding boxes of x.translate(d) = shifted ones of x, '
        'translate_mut = translate, polyline moved by vertices = translate field) on styled triangles and polylines with stroke widths 0..=12, '
        '3 alignments: ALL vertex triples (up to order) of a 4x4 grid x 6 styles x 3 offsets, random ones up to +-30 with offsets up to +-2000, '
        'and the regression inputs of the repaired rounding defect; correspondence of the models the theorems cite (tri_points, tri_bbox, '
        'tri_contains_map, tri_styled_w0, poly_points, poly_points_tt, poly_bbox, poly_styled_thin) at a position and at its translate.')
PARTIAL = ['thick strokes (width >= 1 for triangles, >= 2 for polylines) are not in this part: Properties/C07_join.v, C07_join_range.v (pipeline model) and the search p_translate']
TRUSTED = []
ASSUMPTIONS = ['triangle coordinates within +-8192 before and after the translation (tri_ok)']

STYLES = ['S 1 0 0 1', 'S 0 1 1 1', 'S 1 1 2 0', 'S 0 1 3 1', 'S 1 1 4 2', 'S 0 1 5 0']
OFFS = [(13, -11), (-7, -9), (1000, 3)]


def cases(tier, rng):
    """ties of the models the C07_tri theorems cite (so that `./check C07` alone corresponds them), each at a position and at its
    translate: Triangle::points() / contains() / bounding_box(), the styled fill, Polyline::points() / bounding_box() with the
    translate field (once and twice), the thin styled polyline"""
    n = 400 if tier == 'quick' else 6000
    for t in list(_c19.grid_multisets(4)) + [_c19.rnd_tri(rng) for _ in range(n)]:
        d = rng.choice(OFFS + [(rng.randrange(-40, 41), rng.randrange(-40, 41))])
        for tt in (t, tuple(c + d[i % 2] for i, c in enumerate(t))):
            yield J('tri_points', *tt)
            yield J('tri_bbox', *tt)
            yield J('tri_contains_map', *tt, 1)
            yield J('tri_styled_w0', *tt, 1, 0, 1)
    for _ in range(n):
        vs = _c19.rnd_poly(rng)
        tr = (rng.randrange(-20, 21), rng.randrange(-20, 21))
        d = (rng.randrange(-40, 41), rng.randrange(-40, 41))
        yield J('poly_points', *tr, *_c19.flat(vs))
        yield J('poly_points_tt', *d, *tr, *_c19.flat(vs))
        yield J('poly_points', 0, 0, *_c19.flat([(x + tr[0] + d[0], y + tr[1] + d[1]) for x, y in vs]))
        yield J('poly_bbox', *tr, *_c19.flat(vs))
        yield J('poly_bbox', tr[0] + d[0], tr[1] + d[1], *_c19.flat(vs))
        yield J('poly_styled_thin', *tr, 1, 1, len(vs), *_c19.flat(vs))
        yield J('poly_styled_thin', tr[0] + d[0], tr[1] + d[1], 1, 1, len(vs), *_c19.flat(vs))


def search(tier, rng):
    yield 'p_translate 13 -11 tri 0 0 3 1 3 9 S 1 1 4 1'
    yield 'p_translate -7 -9 poly 0 0 3 0 0 3 0 0 6 S 0 1 4 1'
    for t in _c19.grid_multisets(3 if tier == 'quick' else 4):
        for k, s in enumerate(STYLES):
            d = OFFS[(k + t[0] + t[3]) % 3]
            yield J('p_translate', *d, 'tri', *t, s)
    n = 2500 if tier == 'quick' else 50000
    for k in range(n):
        r = rng.random()
        if r < 0.5:
            d = (rng.randrange(-40, 41), rng.randrange(-40, 41))
        elif r < 0.8:
            d = (rng.randrange(-7, 8), rng.randrange(-7, 8))
        else:
            d = (rng.randrange(-2000, 2001), rng.randrange(-2000, 2001))
        yield J('p_translate', *d, zoo_case(rng, 'tri' if k % 2 else 'poly'))
