"""C07, triangle / polyline part: rendering commutes with translation."""
from common import *
import importlib.util, os

_spec = importlib.util.spec_from_file_location('c19_gen', os.path.join(os.path.dirname(os.path.abspath(__file__)), 'C19.py'))
_c19 = importlib.util.module_from_spec(_spec)
_spec.loader.exec_module(_c19)

RULE = ('triangle/polyline: search p_translate (draw / pixels() / points() / contains() / bounding boxes of x.translate(d) = shifted ones of x, '
        'translate_mut = translate, polyline moved by vertices = translate field) on styled triangles and polylines with stroke widths 0..=12, '
        '3 alignments: ALL vertex triples (up to order) of a 4x4 grid x 6 styles x 3 offsets, random ones up to +-30 with offsets up to +-2000, '
        'and the regression inputs of the repaired rounding defect.')
PARTIAL = ['thick strokes (width >= 1 for triangles, >= 2 for polylines): joins / thick segments / scanline merging not modelled here '
           '(join arithmetic: Properties/C07_join.v): search only']
TRUSTED = []
ASSUMPTIONS = ['triangle coordinates within +-8192 before and after the translation (tri_ok)']

STYLES = ['S 1 0 0 1', 'S 0 1 1 1', 'S 1 1 2 0', 'S 0 1 3 1', 'S 1 1 4 2', 'S 0 1 5 0']
OFFS = [(13, -11), (-7, -9), (1000, 3)]


def search(tier, rng):
    yield 'p_translate 13 -11 tri 0 0 3 1 3 9 S 1 1 4 1'
    yield 'p_translate -7 -9 poly 0 0 3 0 0 3 0 0 6 S 0 1 4 1'
    for t in _c19.grid_multisets(3 if tier == 'quick' else 4):
        for k, s in enumerate(STYLES):
            d = OFFS[(k + t[0] + t[3]) % 3]
            yield J('p_translate', *d, 'tri', *t, s)
    n = 2500 if tier == 'quick' else 50000
    for k in range(n):
        r = rng.random()
        if r < 0.5:
            d = (rng.randrange(-40, 41), rng.randrange(-40, 41))
        elif r < 0.8:
            d = (rng.randrange(-7, 8), rng.randrange(-7, 8))
        else:
            d = (rng.randrange(-2000, 2001), rng.randrange(-2000, 2001))
        yield J('p_translate', *d, zoo_case(rng, 'tri' if k % 2 else 'poly'))
