"""C08 - Rendering is total and allocation-free on display-scale inputs  (metadata; generators live here and/or in props/C08_*.py parts)"""
CLAIMED = False   # set True by the owner once ./check C08 passes with real theorems
LEVEL = 'proof'
LEVEL_TEXT = 'TODO'
LEVEL_NOTE = 'TODO'
