"""C08 - Rendering is total and allocation-free on display-scale inputs  (metadata + implementation-side search)"""
from common import *

CLAIMED = True
LEVEL = 'proof'
LEVEL_TEXT = (
    'Proof for the listed functions, search for the rest. coq/Model/Overflow.v, Overflow2.v, OverflowWalk.v give, for each covered Rust '
    'function f, an executable boolean f_ok that conjoins, in source order, "this intermediate fits its Rust type (i32/u32/i64/u64/usize), '
    'this divisor is not zero, this index is in range, this debug_assert holds" for every site of f and of the callees it reaches. '
    'coq/Properties/C08.v, C08_shapes.v, C08_bridge.v prove (lia/nia, no axioms) f_ok = true for ALL display-scale inputs '
    '(|coordinate| <= 1024, extents <= 1024, stroke widths and offsets <= 128, mono fonts up to 64 px cells and 65536 characters, line '
    'heights <= 1024 px / 400 %) for: Point/Size/Rectangle operations; PrimitiveStyle stroke/fill areas; Circle / Ellipse contains, center_2x, '
    'thresholds, offset, styled constructors and scanline probes; EllipseQuadrant (on its real domain, corners up to 2048); '
    'CornerRadii::confine (never enlarges a radius); RoundedRectangle quadrants, RoundedRectangleContains::new, contains (exact control flow) '
    'and offset; Sector contains / thresholds and PlaneSector::point_type (normals as parameters); Line delta / perpendicular / midpoint; '
    'the complete Line::points loop (exactly major_length <= 2049 steps); the WHOLE thick-line walk (ParallelsIterator::new for the three stroke '
    'offsets, every next() incl. the next_parallel loop, ThickPoints with every Bresenham run, Line::extents, LineJoin::from_points from three '
    'display-scale vertices), composed from the line builder\'s state invariant and the join builder\'s extents range; LinearEquation, '
    'IntersectionParams, join points (|coordinate| <= 25921801: SaturatingAs never saturates) and the miter test; Triangle area_doubled / '
    'contains (whole path), sorted_clockwise, edge intersections; polyline vertex translation; Scanline; thick segment iterators; mono text '
    'layout, MonoFont::glyph, decoration boxes, glyph mapping ranges; LineHeight; ImageRaw bytes_per_row / data_width / draw / draw_sub_image / '
    'pixel; ContiguousPixels (stops after exactly w*h+1 calls) and Cropped; solid and dotted rectangle borders (integer part). Documented panics '
    '(Index, from_slice, new_const, ClosedThickSegmentIter::new with one point) are stated with their exact precondition (iff). '
    'Rejection: SubImage::new handles every area outside the recorded class K08_subimage_area_overflow for ALL machine inputs '
    '(C08_shapes_sub_image_new_total); the class itself is a recorded finding with a machine-checked witness. '
    'Tie 1 (translator): translate/gen_arith.py regenerates from the tree under test the identifier-free skeleton (operators, arithmetic / '
    'saturating / checked methods, calls of the crate\'s arithmetic helpers, casts, conversions, indexing, unwrap, panicking macros, guards '
    'against literals, grouping) of every non-test function of 73 source files; C08_sites_covered (vm_compute reflection) requires each to '
    'equal the recorded skeleton or be literal-only; unmodelled_fns is empty. Functions covered by another part (C08_raw, C08_targets, '
    'C08_image) or consisting of Real / f32 arithmetic are recorded by reference / as search-only, so that a change forces a re-read. '
    'Tie 2 (correspondence): 26 ok_* suites compare f_ok with "did the real function panic" (overflow checks + debug assertions) on inputs '
    'straddling every boundary, far outside display scale, incl. the whole thick-line walk, extents and joins through verif_hooks. '
    'Search p_total (implementation only): every drawable family and constructor, null font, degenerate objects, 7x7 contains grid, 9 adapter '
    'stacks, rejections, default and fixed_point builds: no panic, 0 heap allocations, step budget 16 x bounding-box area, 30 s watchdog.')
LEVEL_NOTE = (
    'NOT modelled, hence not proved: heap allocation of the compiled crate (supporting evidence only: the counting global allocator of '
    'the harness reads 0 around every library call of p_total; C08_no_std_scan states the facts of the translator\'s scan: both crates '
    '#![no_std], 0 alloc:: / std:: paths outside test code in the 114 files scanned) and the internals of the dependency crates (az, '
    'micromath, fixed, float-cmp, byteorder): Real / Angle arithmetic (trigonometry, dotted border positions, bevel angles) is external and '
    'covered by the search on both feature sets only. The f_ok predicates are hand-written; they are tied to the code by the skeleton check '
    '(shape of the arithmetic, not its operands) and by differential testing, not proved equal to the Rust code. Totality of whole draw() '
    'calls is a theorem for Line::points, thick lines, extents, joins, ContiguousPixels and text lines; for scanline fills (circle, ellipse, '
    'rounded rectangle, triangle, polyline), arcs and sectors the per-probe / per-step predicates are proved on the range of the stroke '
    'area but the iterators are not modelled as loops: their composition is covered by p_total (see PARTIAL). usize is a parameter '
    '(>= 32 bit) in the theorems and 64 bit in the correspondence. debug_assert!s are treated as panic sites. The ok_* comparison is '
    'verdict-level (OK / PANIC), not per site.')
RULE = ('correspondence ok_*: f_ok (model) vs panic / no panic (implementation, overflow checks + debug assertions) for 26 suites on '
        'boundary-straddling inputs (i32/u32 edges, 2^15..2^16 for products, 2^63 for the thick-line threshold, custom mono fonts, '
        'verif_hooks line equations / extents / joins, whole thick lines, rounded rectangles, styled circles / ellipses, documented panics); '
        'distinct = distinct case lines, every result is OK or PANIC (both verdicts occur in every suite). '
        'search p_total: every drawable family x boundary-biased display-scale values (coordinates and sizes from '
        '{0,1,2,63..65,255..257,240,320,480,1023,1024} and negatives, corner-biased vertices, zero-length lines, coincident and collinear '
        'vertices, stroke widths {0,1,2,3,63..65,127,128}, dotted rectangles with widths 1..128, line heights up to 1024 px / 400 %, '
        'display-scale images, null font x 4 baselines x 3 alignments), every query (contains on a 7x7 grid + corners) and draw, the other '
        'public constructors, 9 adapter stacks, out-of-range rejections incl. extreme sub image areas (class K08_subimage_area_overflow), '
        'in a build with overflow checks and debug assertions, counting global allocator, explicit step budget, watchdog; all arc / sector / '
        'dotted rectangle cases and a random quarter of the rest again on the fixed_point build (p_fixed_point lines).')
ASSUMPTIONS = ['display scale as stated in each theorem (ds_* / edge_* / pbound predicates of coq/Model/Overflow.v); outside it f_ok may be false '
               '(and the code then panics with overflow checks: the correspondence suites exercise exactly that)',
               'genuine panics of public operators are preconditions of their theorems: Size - Size needs b <= a, Point / Size division needs '
               'a non-zero divisor, Index needs idx < 2, Triangle::from_slice needs 3 points, ImageRaw::new_const the exact data length',
               'C08_is_collapsed_step_total assumes the inner corner of the join within +-131072']
TRUSTED = ['translate/gen_arith.py (tokeniser-level skeletons; operands are not compared, only the shape of the arithmetic)',
           'the mapping function -> predicate in translate/record_skeletons.py / the `recorded` table is maintained by hand (its 4th column is a '
           'comment; it is checked dynamically only for the functions that have an ok_* suite)',
           'modelled, not verified: az::SaturatingAs, i32 `/` as Z.quot, u32 and usize `/` as Z.div, `as` between equal-width integers as wrap']
PARTIAL = [
    'Triangle::is_collapsed: C08_is_collapsed_step_total assumes the inner corner of the join within +-131072 (the proved bound of a '
    'join point is 25921801, which is not enough for the i32 dot product of check_side); covered by p_total',
    'families with per-probe / per-step theorems only (the iterator loops themselves are not modelled; composition by p_total): circle / '
    'ellipse / rounded rectangle scanline and styled iterators, DistanceIterator, arc and sector points / styled pixels, triangle scanline '
    'iterator and styled triangle, polyline points / scanline iterator / styled polyline, ThickSegment::intersection and '
    'edges_bounding_box, Scanline::bresenham_intersection, text draw through MonoFontDrawTarget (glyph pixels)',
    'no theorem at all, search only: Real / Angle arithmetic (geometry/real.rs, angle.rs: trigonometry table and f32 / I16F16 operators), '
    'PlaneSector::new, the bevel part of sector/styled.rs StyledPixelsIterator::new, the dot positions of dotted rectangle borders '
    '(rectangle/styled.rs dot_positions_*), OriginLinearEquation::with_angle beyond its integer part',
    'recorded by reference to another part instead of re-proved: load_store.rs, iterator/raw.rs, framebuffer.rs (C08_raw); draw_target/*.rs, '
    'iterator/pixel.rs (C08_targets); image/sub_image.rs (C08_image)',
    'no ok_* correspondence (skeleton tie + p_total only) for: EllipseQuadrant alone (covered through ok_rrect_contains), increase / '
    'decrease_error and next_all / previous_all alone (covered through ok_extents / ok_thick_points), text lines, ImageRaw draw / pixel, '
    'ContiguousPixels, Cropped (image and targets parts), the predicates of Model/Overflow2.v other than rrect contains and the styled '
    'circle / ellipse constructors',
]

B = [0, 1, 2, 63, 64, 65, 255, 256, 257, 240, 320, 480, 1023, 1024]
W = [0, 1, 2, 3, 63, 64, 65, 127, 128]


def cb(rng):
    v = rng.choice(B) if rng.random() < 0.8 else rng.randrange(0, 1025)
    return v if rng.random() < 0.6 else -v


def xb(rng):
    k = rng.random()
    if k < 0.75:
        return rng.choice([-1024, -1023, -1000, 1000, 1023, 1024])
    if k < 0.9:
        return rng.choice([0, 1, -1, 2, -2])
    return cb(rng)


def eb(rng):
    return rng.choice(B) if rng.random() < 0.8 else rng.randrange(0, 1025)


# ---- correspondence: f_ok (model) vs "did the real function panic" (overflow checks on), on values straddling
# the boundary of every predicate ----------------------------------------------------------------------------
I32 = 2 ** 31
EDGES_I = [0, 1, -1, 2, -2, 3, 1023, 1024, -1024, 2 ** 15 - 1, 2 ** 15, 2 ** 15 + 1, -2 ** 15, 46340, 46341, -46341, 2 ** 16 - 1, 2 ** 16, 2 ** 16 + 1,
           2 ** 20, 2 ** 30 - 1, 2 ** 30, 2 ** 30 + 1, -2 ** 30, -2 ** 30 - 1, I32 - 2, I32 - 1, -I32 + 1, -I32]
EDGES_U = [0, 1, 2, 3, 4, 5, 1023, 1024, 2 ** 15, 46340, 46341, 2 ** 16 - 1, 2 ** 16, 2 ** 16 + 1, 2 ** 20, 2 ** 30, I32 - 2, I32 - 1, I32, I32 + 1,
           2 ** 32 - 2, 2 ** 32 - 1]


def ei(rng, small=0.25):
    k = rng.random()
    if k < small:
        return rng.randrange(-40, 41)
    if k < 0.8:
        v = rng.choice(EDGES_I) + rng.choice([0, 0, 0, 1, -1, 7, -7])
        return max(-I32, min(I32 - 1, v))
    return rng.randrange(-I32, I32)


def eu(rng, small=0.25):
    k = rng.random()
    if k < small:
        return rng.randrange(0, 41)
    if k < 0.8:
        return max(0, min(2 ** 32 - 1, rng.choice(EDGES_U) + rng.choice([0, 0, 0, 1, -1, 7, -7])))
    return rng.randrange(0, 2 ** 32)


def near(rng, c, spread=3):
    return c + rng.randrange(-spread, spread + 1)


def ci(v):
    return max(-I32, min(I32 - 1, v))


def cu(v):
    return max(0, min(2 ** 32 - 1, v))


def isqrt(n):
    import math
    return math.isqrt(n)


def cases(tier, rng):
    n = 2500 if tier == 'quick' else 25000
    for _ in range(n):
        a, b, c, d = ei(rng), ei(rng), ei(rng), ei(rng)
        yield J('ok_point', rng.choice(['add', 'sub', 'mul', 'div', 'neg', 'abs', 'cmul', 'cdiv', 'addassign']), a, b, c, d)
        # sums / differences / products right at the i32 boundary
        x = ei(rng)
        yield J('ok_point', 'add', x, 0, ci(near(rng, I32 - 1 - x) if x >= 0 else near(rng, -I32 - x)), 0)
        yield J('ok_point', 'sub', 0, x, 0, ci(near(rng, x - I32 + 1) if x >= 0 else near(rng, x + I32)))
        k = rng.choice([2, 3, 7, 255, 46340, 46341, 65536, -2, -3, -46341, -65536])
        yield J('ok_point', 'mul', ci(near(rng, (I32 - 1) // abs(k)) * rng.choice([1, -1])), 1, k, 0)
        yield J('ok_point', 'div', rng.choice([-I32, -I32 + 1, I32 - 1, a]), rng.choice([-I32, b]), rng.choice([-1, 0, 1, 2, c]), 0)
        yield J('ok_point', rng.choice(['addsize', 'subsize']), a, b, eu(rng), eu(rng))
        u1, u2, u3, u4 = eu(rng), eu(rng), eu(rng), eu(rng)
        yield J('ok_size', rng.choice(['add', 'sub', 'mul', 'div', 'cmul', 'cdiv', 'sat']), u1, u2, u3, u4)
        yield J('ok_size', 'add', u1, 0, cu(near(rng, 2 ** 32 - 1 - u1)), 0)
        yield J('ok_size', 'sub', u1, u2, cu(near(rng, u1)), cu(near(rng, u2)))
        k = rng.choice([2, 3, 255, 65535, 65536, 65537])
        yield J('ok_size', 'mul', cu(near(rng, (2 ** 32 - 1) // k)), 1, k, 0)
        # rectangles: corners near the i32 edge, extents near 2^31 / 2^32
        r = (ei(rng), ei(rng), eu(rng), eu(rng))
        r2 = (ei(rng), ei(rng), eu(rng), eu(rng))
        xe = ci(rng.choice([I32 - 1, I32 - 2, 2 ** 30, 5, -I32]) - rng.choice([0, 1, 2, 1000]))
        rb = (xe, ei(rng), cu(near(rng, I32 - 1 - xe)) if xe >= 0 else eu(rng), eu(rng))
        for rr in (r, rb):
            yield J('ok_rect', rng.choice(['br', 'center', 'withcenter', 'rows']), *rr)
            yield J('ok_rect', 'contains', *rr, ci(rr[0] + rng.choice([-1, 0, 1])), ci(rr[1] + rng.choice([-1, 0, 1])))
            yield J('ok_rect', 'anchor', *rr, rng.randrange(3), rng.randrange(3))
            yield J('ok_rect', 'resized', *rr, eu(rng), eu(rng), rng.randrange(3), rng.randrange(3))
            yield J('ok_rect', 'offset', *rr, rng.choice([ei(rng), rng.randrange(-130, 131), -I32, I32 - 1]))
            yield J('ok_rect', 'styledbb', *rr, eu(rng), rng.randrange(3))
            yield J('ok_rect', 'inter', *rr, *r2)
            yield J('ok_rect', 'envelope', *rr, *r2)
        yield J('ok_rect', 'corners', a, b, c, d)
        yield J('ok_rect', 'corners', a, 0, ci(near(rng, a - I32 + 1) if a >= 0 else near(rng, a + I32)), 0)
        # circle: diameter near 2^16 (u32 pow), distances near sqrt(2^31) / sqrt(2^30)
        dd = rng.choice([0, 1, 2, 3, 4, 5, 100, 65535, 65536, 65537, 2 ** 20, eu(rng)])
        cx, cy = rng.choice([0, 10, -1000, ei(rng)]), rng.choice([0, -10, 1000])
        off = rng.choice([0, 5, 16383, 16384, 23169, 23170, 23171, 32767, 32768, 100000])
        yield J('ok_circle_contains', cx, cy, dd, max(-I32, min(I32 - 1, cx + off)), cy + rng.choice([0, 3, off]))
        # ellipse: w*h near 2^32 (u64 product of squares), w = h near 2^16, far points (b*x near 2^64)
        w = rng.choice([1, 2, 3, 320, 1024, 65535, 65536, 65537, 2 ** 20, 2 ** 31, 2 ** 32 - 1, eu(rng)])
        h = rng.choice([w, near(rng, (2 ** 32) // max(w, 1), 2), 240, eu(rng)])
        h = max(0, min(2 ** 32 - 1, h))
        far = rng.choice([0, 100, 2 ** 15, 2 ** 20, 2 ** 24, 2 ** 28, 2 ** 29, 2 ** 30 - 1])
        yield J('ok_ellipse_contains', rng.choice([0, -500, 7]), 0, w, h, far, rng.choice([0, far, -far]))
        yield J('ok_ellipse_contains', cx, 0, eu(rng), eu(rng), ei(rng), ei(rng))
        # confine: radii sums near 2^32, products near 2^32
        sides = [rng.choice([0, 1, 10, 100, 1024, 65535, 65536, 65537, 2 ** 31, eu(rng)]) for _ in range(2)]
        rad = [rng.choice([0, 1, 5, 60, 1000, 65536, 2 ** 31 - 1, 2 ** 31, 2 ** 31 + 1, 2 ** 32 - 1, eu(rng)]) for _ in range(8)]
        yield J('ok_confine', *sides, *rad)
        rad = [rng.choice([0, 1, 5, 60, 1000, 4000, 65535, 65536, 65537]) for _ in range(8)]
        yield J('ok_confine', rng.choice([10, 1000, 65535, 65536, 65537]), rng.choice([10, 1000, 65536]), *rad)
        # lines: short lines next to the i32 edge (the run and its trailing update), long deltas (2 * delta)
        ex, ey = rng.choice([I32 - 1, -I32, I32 - 20, -I32 + 20, 0, 2 ** 30]), rng.choice([I32 - 1, -I32, 0, 77])
        dx, dy = rng.randrange(-12, 13), rng.randrange(-12, 13)
        cl = lambda v: max(-I32, min(I32 - 1, v))
        yield J('ok_line_points', cl(ex - dx), cl(ey - dy), ex, ey)
        yield J('ok_line_points', ex, ey, cl(ex - dx), cl(ey - dy))
        big = rng.choice([2 ** 30 - 1, 2 ** 30, 2 ** 30 + 1, I32 - 1, 2 ** 31 - 2])
        yield J('ok_line_misc', rng.choice(['delta', 'midpoint']), rng.choice([0, -1, 1, -big]), ei(rng), rng.choice([big, 0, -big]), ei(rng))
        yield J('ok_line_misc', rng.choice(['delta', 'midpoint']), a, b, c, d)
        # thick line construction: (2w)^2 * len^2 near 2^63, len^2 near 2^31 (i32 length_squared), deltas near 2^30
        L = rng.choice([1, 2, 5, 100, 1000, 23170, 32767, 32768, 32769, 46340, 46341, 46342, 2 ** 20, 2 ** 29, 2 ** 30 - 1, 2 ** 30, 2 ** 30 + 1])
        L2 = L * L if rng.random() < 0.5 else 2 * L * L
        ww = rng.choice([0, 1, 2, 30, 128, near(rng, isqrt((2 ** 63 - 1) // max(L2, 1)) // 2, 2), 2 ** 30, 2 ** 31 - 1, 2 ** 31, 2 ** 32 - 1, eu(rng)])
        ww = max(0, min(2 ** 32 - 1, ww))
        sx, sy = ci(rng.choice([0, 0, 5, -1000, I32 - 1 - L, -I32])), rng.choice([0, 3, -7])
        if L2 == L * L:
            yield J('ok_thick_new', sx, sy, cl(sx + L), sy, ww)
            yield J('ok_thick_new', sy, sx, sy, cl(sx + L), ww)
        else:
            yield J('ok_thick_new', sx, sy, cl(sx + L), cl(sy + L), ww)
            yield J('ok_thick_new', cl(sx + L), cl(sy + L), sx, sy, ww)
        yield J('ok_thick_new', a, b, a, b, ww)
        # triangles: products near 2^31 need coordinates near 2^15 / 2^16; query = vertex, centroid, or box corner
        m = rng.choice([10, 1000, 23170, 32768, 46341, 65536, 2 ** 17])
        tv = [rng.randrange(-m, m + 1) for _ in range(6)]
        if rng.random() < 0.3:
            tv[rng.randrange(6)] = rng.choice([m, -m])
        q = rng.choice([(tv[0], tv[1]), (tv[4], tv[5]), ((tv[0] + tv[2] + tv[4]) // 3, (tv[1] + tv[3] + tv[5]) // 3),
                        (min(tv[0], tv[2], tv[4]), max(tv[1], tv[3], tv[5])), (m + 5, 0)])
        yield J('ok_tri_contains', *tv, *q)
        if m <= 1000:
            yield J('ok_tri_contains', *tv, rng.randrange(-m, m + 1), rng.randrange(-m, m + 1))
        # rounded rectangle contains: quadrant corners near the i32 edge, radii near 2^15..2^16 (u64 products of squares), inside / outside queries
        rx, ry = rng.choice([0, -1000, 1024, I32 - 3000, -I32, ei(rng)]), rng.choice([0, 1024, -I32, I32 - 70000, ei(rng)])
        rw, rh = rng.choice([0, 1, 10, 1024, 2000, 65536, 2 ** 20, eu(rng)]), rng.choice([0, 1, 10, 1024, 65535, 2 ** 31 - 1, eu(rng)])
        rad = [rng.choice([0, 1, 5, 500, 1024, 32767, 32768, 46341, 65536, 2 ** 20, eu(rng)]) for _ in range(8)]
        qx_, qy_ = ci(rx + rng.choice([0, 1, rw // 2, max(rw - 1, 0), rw, -1])), ci(ry + rng.choice([0, 1, rh // 2, max(rh - 1, 0), rh, -1]))
        yield J('ok_rrect_contains', rx, ry, rw, rh, *rad, qx_, qy_)
        rr_ = (rng.randrange(-1024, 1025), rng.randrange(-1024, 1025), rng.randrange(0, 1025), rng.randrange(0, 1025))
        yield J('ok_rrect_contains', *rr_, *[rng.randrange(0, 1025) for _ in range(8)], ci(rr_[0] + rng.randrange(-2, rr_[2] + 3)), ci(rr_[1] + rng.randrange(-2, rr_[3] + 3)))
        # styled circle / ellipse constructors: stroke / fill area offsets, centre, thresholds
        sd = rng.choice([0, 1, 5, 65535, 65536, 65537, 2 ** 31 - 1, 2 ** 31, 2 ** 32 - 1, eu(rng)])
        swd = rng.choice([0, 1, 2, 128, 65536, 2 ** 31 - 1, 2 ** 31, 2 ** 32 - 1, eu(rng)])
        yield J('ok_styled_circle', ei(rng), ei(rng), sd, 0, swd, rng.randrange(3))
        yield J('ok_styled_ellipse', ei(rng), ei(rng), sd, rng.choice([sd, 3, 65536, eu(rng)]), swd, rng.randrange(3))
        yield J('ok_styled_circle', rng.randrange(-1024, 1025), rng.randrange(-1024, 1025), rng.randrange(0, 1025), 0, rng.randrange(0, 129), rng.randrange(3))
        yield J('ok_index', rng.choice([0, 1, 2, 3, 2 ** 31, 2 ** 40]))
        yield J('ok_from_slice', rng.randrange(0, 6))
        cw_, ch_, cb_ = rng.randrange(0, 20), rng.randrange(0, 9), rng.choice([1, 8, 16, 24])
        yield J('ok_new_const', cw_, ch_, cb_, max(0, (cw_ * cb_ + 7) // 8 * ch_ + rng.choice([0, 0, 1, -1, 5])))
        # whole thick-line walk (ParallelsIterator, Line::extents, ThickPoints, LineJoin::from_points through verif_hooks):
        # moderate widths (the walk has ~3w steps), vertices at display scale, near 2^15 (i32 products of the join) and at the i32 edge
        wq = rng.choice([0, 1, 2, 3, 5, 8, 20, 40, 128])
        mq = rng.choice([30, 300, 1024, 23170, 32768, 46341, 2 ** 20])
        jv = [rng.choice([mq, -mq, rng.randrange(-mq, mq + 1), rng.randrange(-30, 31)]) for _ in range(6)]
        if abs(jv[2] - jv[0]) + abs(jv[3] - jv[1]) < 4000 and abs(jv[4] - jv[2]) + abs(jv[5] - jv[3]) < 4000 or wq <= 8:
            yield J('ok_join', *jv, wq, rng.randrange(3))
        yield J('ok_extents', *jv[:4], wq, rng.randrange(3))
        qx, qy = rng.choice([I32 - 1, -I32, I32 - 40, -I32 + 40]), rng.choice([0, I32 - 1, -I32, 17])
        qdx, qdy = rng.randrange(-25, 26), rng.randrange(-25, 26)
        yield J('ok_extents', ci(qx - qdx), ci(qy - qdy), qx, qy, rng.choice([1, 2, 3, 9, 30]), rng.randrange(3))
        yield J('ok_thick_points', ci(qx - qdx), ci(qy - qdy), qx, qy, rng.choice([0, 1, 2, 3, 9, 30]))
        yield J('ok_thick_points', rng.randrange(-60, 61), rng.randrange(-60, 61), rng.randrange(-60, 61), rng.randrange(-60, 61), rng.choice([0, 1, 2, 3, 7, 20, 2 ** 31, 2 ** 32 - 1]) if rng.random() < 0.8 else 4)
        yield J('ok_join', ci(qx - qdx), ci(qy - qdy), qx, qy, ci(qx - qdy), ci(qy + qdx), rng.choice([1, 2, 5, 12]), rng.randrange(3))
        # line equations / intersections (verif_hooks): i32 dot products and determinants need coordinates near 2^15
        m = rng.choice([10, 1000, 1280, 16384, 23170, 23171, 32767, 32768, 46340, 46341, 65536, 2 ** 20, 2 ** 30])
        lv = [rng.choice([m, -m, m - 1, 1 - m, rng.randrange(-m, m + 1), 0, 1]) for _ in range(8)]
        yield J('ok_linear_equation', *lv[:6])
        yield J('ok_line_intersection', *lv)
        yield J('ok_line_intersection', lv[0], lv[1], lv[2], lv[3], lv[2], lv[3], lv[6], lv[7])
        # mono font layout with a custom font: cell / spacing near 2^16 and 2^31, long lines, positions at the i32 edge
        fcw, fsp = rng.choice([0, 6, 10, 65535, 65536, 2 ** 31 - 1, 2 ** 31, 2 ** 32 - 1, eu(rng)]), rng.choice([0, 0, 1, 2, 65536, 2 ** 32 - 1, eu(rng)])
        fch, fbl = rng.choice([0, 1, 2, 20, 2 ** 31 - 1, 2 ** 31, 2 ** 32 - 1, eu(rng)]), rng.choice([0, 15, 2 ** 31, eu(rng)])
        nn = rng.choice([0, 1, 2, 3, 100, 65535, 65536, 65537, cu((2 ** 32 - 1) // max(1, min(fcw + fsp, 2 ** 32 - 1))) % 70000])
        fx = rng.choice([0, 5, -1000, I32 - 1, I32 - 100, -I32, ei(rng)])
        fy = rng.choice([0, 5, -I32, -I32 + 10, -I32 + 19, I32 - 1, ei(rng)])
        yield J('ok_measure', fx, fy, rng.randrange(4), nn, rng.randrange(2), fcw, fch, fsp, fbl, rng.choice([0, 17, 2 ** 32 - 1, eu(rng)]), rng.choice([0, 1, 2 ** 31, eu(rng)]))
        yield J('ok_draw_plain', fx, fy, rng.randrange(4), nn, 0, fcw, fch, fsp, fbl, 0, 1)
        yield J('ok_measure', ei(rng), ei(rng), rng.randrange(4), rng.randrange(0, 40), rng.randrange(2), rng.choice([4, 6, 10]), rng.choice([6, 10, 20]), rng.choice([0, 1]), 4, 6, 1)
        yield J('ok_line_height', rng.randrange(2), eu(rng), eu(rng))
        p_ = rng.choice([100, 150, 400, 65536, 65537])
        yield J('ok_line_height', 1, p_, cu(near(rng, (2 ** 32 - 1) // p_)))
        bpp = rng.choice([1, 2, 4, 8, 16, 24])
        yield J('ok_image_new', eu(rng), eu(rng), bpp)
        yield J('ok_image_new', rng.choice([2 ** 32 - 1, 2 ** 31, 2 ** 30, 2 ** 29]), rng.choice([2 ** 32 - 1, 2 ** 31, 2 ** 30, 2 ** 29 + 1]), bpp)
        yield J('ok_sub_image', rng.choice([1, 16]), rng.choice([0, 1, 3, 15, 16, -1, ei(rng)]), rng.choice([0, 1, 7, 8, -1, ei(rng)]),
                rng.choice([0, 1, 5, 16, 2 ** 32 - 1, 2 ** 32 - 3, eu(rng)]), rng.choice([0, 1, 8, 2 ** 32 - 1, eu(rng)]))


def trivial(line, res):
    return res not in ('OK', 'PANIC')


def fp_oracle():
    """second harness binary with `--features fixed_point` (same sources, own target dir; pre-built by setup.sh)"""
    import os, subprocess
    v = os.path.dirname(os.path.dirname(os.path.abspath(__file__)))
    env = dict(os.environ, CARGO_NET_OFFLINE='true', CARGO_TARGET_DIR=os.path.join(v, '.build', 'cargo-fp'))
    p = subprocess.run('cargo build -j4 --release --offline --features fixed_point', shell=True, cwd=os.path.join(v, 'harness'), env=env,
                       stdout=subprocess.PIPE, stderr=subprocess.STDOUT, text=True, timeout=3000)
    exe = os.path.join(v, '.build', 'cargo-fp', 'release', 'eg_oracle')
    return exe if p.returncode == 0 and os.path.exists(exe) else None


def search(tier, rng):
    """the p_total batch on the default build, then (verdicts carried by `p_fixed_point` lines) the arc / sector cases and
    every 4th other case again on the `fixed_point` build of the same harness"""
    import subprocess
    lines = list(search_default(tier, rng))
    yield from lines
    exe = fp_oracle()
    if exe is None:
        yield 'p_fixed_point FAIL class=fixed_point_build the harness does not build with --features fixed_point'
        return
    # selection per case, not per position (the batch is a 12-family round robin: a stride would alias with it):
    # every arc / sector / dotted rectangle (the users of `Real`), a random quarter of everything else
    def dotted(l):
        t = l.split()
        return t[1] == 'rect' and 'S' in t and len(t) - t.index('S') - 1 >= 5 and t[-1] == '1'
    sel = [l for l in lines if l.startswith('p_total arc') or l.startswith('p_total sector') or dotted(l) or rng.random() < 0.25]
    nsh = 4
    procs = []
    for j in range(nsh):
        part = sel[j::nsh]
        procs.append((part, subprocess.Popen([exe], stdin=subprocess.PIPE, stdout=subprocess.PIPE, stderr=subprocess.DEVNULL, text=True)))
    import threading
    outs = {}

    def feed(j, part, p):
        try:
            o, _ = p.communicate('\n'.join(part) + '\n', timeout=900 if tier == 'quick' else 3000)
        except subprocess.TimeoutExpired:
            p.kill()
            o, _ = p.communicate()
        outs[j] = o.split('\n')
    th = [threading.Thread(target=feed, args=(j, part, p)) for j, (part, p) in enumerate(procs)]
    [t.start() for t in th]
    [t.join() for t in th]
    for j, (part, _) in enumerate(procs):
        for k, l in enumerate(part):
            r = outs[j][k] if k < len(outs[j]) and outs[j][k] else 'MISSING-OUTPUT (fixed_point oracle killed or timed out)'
            yield 'p_fixed_point %s :: %s' % (r, l)


def degenerate(rng, case):
    """coincident / collinear vertices for lines, triangles and polylines (zero length, two or three equal vertices, collinear)"""
    t = case.split()
    fam = t[0]
    k = rng.random()
    if fam == 'line' and k < 0.2:
        t[3], t[4] = t[1], t[2]
    elif fam == 'tri' and k < 0.3:
        p = [(int(t[1]), int(t[2])), (int(t[3]), int(t[4])), (int(t[5]), int(t[6]))]
        if k < 0.05:
            p = [p[0]] * 3
        elif k < 0.2:
            i, j = rng.sample(range(3), 2)
            p[j] = p[i]
        else:
            # collinear, distinct
            # simple exact construction: p2 := p1 + 2d, p3 := p1 + d  (d small enough to stay in range)
            dx, dy = rng.randrange(-400, 401), rng.randrange(-400, 401)
            x0, y0 = max(-200, min(200, p[0][0])), max(-200, min(200, p[0][1]))
            p = [(x0, y0), (x0 + 2 * dx, y0 + 2 * dy), (x0 + dx, y0 + dy)]
            rng.shuffle(p)
        t[1:7] = [str(v) for q_ in p for v in q_]
    elif fam == 'poly' and k < 0.3 and int(t[3]) >= 2:
        n = int(t[3])
        i = rng.randrange(n - 1)
        if k < 0.1:
            for j in range(n):
                t[4 + 2 * j], t[5 + 2 * j] = t[4], t[5]
        else:
            t[4 + 2 * (i + 1)], t[5 + 2 * (i + 1)] = t[4 + 2 * i], t[5 + 2 * i]
    return ' '.join(t)


def search_default(tier, rng):
    n = 1500 if tier == 'quick' else 12000
    # regression inputs of the repaired overflow defects (DESIGN.md section 6, known_findings.txt `fixed:` lines)
    yield 'p_total ellipse 0 0 320 240 S 1 1 3 1'
    yield 'p_total line 0 0 1000 700 S 0 1 30 1'
    yield 'p_total tri -480 -1 240 909 1 422 S 0 1 1 2'
    yield 'p_total image 3 3 10 10 7'
    yield 'p_total tri 10 10 410 10 10 410 S 1 0 0 1'
    yield 'p_total rect 0 0 1024 1024 S 0 1 4 1 1'
    yield 'p_total rect -1024 -1024 1024 1 S 1 1 5 2 1'
    yield 'p_total line 7 7 7 7 S 0 1 30 1'
    yield 'p_total tri 5 5 5 5 5 5 S 1 1 9 2'
    yield 'p_total text 5 -7 0 1 1 0 10 15 3'
    for k in range(n):
        fam = FAMILIES[k % len(FAMILIES)]
        small = rng.random() < 0.35
        e = (lambda r: r.choice([0, 1, 2, 3, 63, 64, 65])) if small else eb
        if fam in ('image', 'subimage') and rng.random() < 0.7:
            # display-scale images (zoo_case caps them at 40 x 40); one dimension small to bound the work
            w, h = (eb(rng), rng.choice([0, 1, 2, 3, 8])) if rng.random() < 0.5 else (rng.choice([0, 1, 2, 3, 8]), eb(rng))
            case = J('image', cb(rng), cb(rng), w, h, rng.randrange(1000))
            if fam == 'subimage':
                case = J('subimage', cb(rng), cb(rng), w, h, rng.randrange(1000), rng.randrange(-3, w + 3), rng.randrange(-3, h + 3), eb(rng), eb(rng))
        elif fam == 'text' and rng.random() < 0.7:
            lhk = rng.randrange(2)
            lhv = rng.choice([0, 1, 2, 63, 64, 65, 255, 256, 257, 1023, 1024]) if lhk == 0 else rng.choice([0, 1, 50, 100, 150, 399, 400])
            case = J('text', cb(rng), cb(rng), rng.randrange(8), rng.randrange(3), rng.randrange(4), lhk, lhv, rng.randrange(16), rng.randrange(12))
        elif fam in ('tri', 'poly') and rng.random() < 0.3:
            # long, nearly parallel edges with wide strokes: the join determinants and miter lengths are largest here
            x, y = cb(rng), cb(rng)
            dx, dy = rng.choice([1024, -1024, 1000, 700]), rng.choice([1024, -1024, 1, -1, 3, 700])
            pts = [(x, y), (max(-1024, min(1024, x + dx)), max(-1024, min(1024, y + dy))), (max(-1024, min(1024, x + rng.choice([-1, 0, 1, 2]))), max(-1024, min(1024, y + rng.choice([-2, -1, 1, 2]))))]
            rng.shuffle(pts)
            if fam == 'tri':
                case = J('tri', *[v for p in pts for v in p], 'S', 0, 0, 0, 0)
            else:
                case = J('poly', 0, 0, 3, *[v for p in pts for v in p], 'S', 0, 0, 0, 0)
        elif fam in ('tri', 'poly', 'line') and rng.random() < 0.45:
            # vertices in the corners / on the edges of the +-1024 square: the largest products and determinants
            case = zoo_case(rng, fam, c=xb, e=e, maxw=0, absolute=True, dotted=True)
            if fam == 'poly':
                # zoo_case halves polyline coordinates; rebuild with full-range vertices
                nv = rng.choice([2, 3, 3, 4, 5])
                case = J('poly', 0, 0, nv, *[xb(rng) for _ in range(2 * nv)], 'S', 0, 0, 0, 0)
        else:
            case = zoo_case(rng, fam, c=cb, e=e, maxw=0, absolute=True, dotted=True)
        case = degenerate(rng, case)
        if ' S ' in case:
            head, _ = case.rsplit(' S ', 1)
            case = head + ' ' + J('S', rng.randrange(2), rng.randrange(2), rng.choice(W), rng.randrange(3))
            if case.startswith('rect ') and rng.random() < 0.4:
                # dotted stroke style: widths around the `dot_size < 4` switch of rectangle/styled.rs, full-size rectangles
                head, _ = case.rsplit(' S ', 1)
                case = head + ' ' + J('S', rng.randrange(2), 1, rng.choice([1, 2, 3, 4, 5, 8, 16, 31, 32, 63, 128]), rng.randrange(3), 1)
        yield 'p_total ' + case
