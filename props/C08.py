"""C08 - Rendering is total and allocation-free on display-scale inputs  (metadata + implementation-side search)"""
from common import *

CLAIMED = False  # until theorem parts are merged
LEVEL = 'proof'
LEVEL_TEXT = 'TODO'
LEVEL_NOTE = 'TODO'
RULE = ('search p_total: every drawable family x boundary-biased display-scale values (coordinates and sizes from '
        '{0,1,2,63..65,255..257,240,320,480,1023,1024} and negatives, stroke widths {0,1,2,3,63..65,127,128}, line heights up to 1024 px / 400 %), '
        'in a build with overflow checks and debug assertions, counting global allocator, step budget on every iterator.')

B = [0, 1, 2, 63, 64, 65, 255, 256, 257, 240, 320, 480, 1023, 1024]
W = [0, 1, 2, 3, 63, 64, 65, 127, 128]


def cb(rng):
    v = rng.choice(B) if rng.random() < 0.8 else rng.randrange(0, 1025)
    return v if rng.random() < 0.6 else -v


def eb(rng):
    return rng.choice(B) if rng.random() < 0.8 else rng.randrange(0, 1025)


def search(tier, rng):
    n = 1500 if tier == 'quick' else 40000
    yield 'p_total ellipse 0 0 320 240 S 1 1 3 1'
    yield 'p_total line 0 0 1000 700 S 0 1 30 1'
    for k in range(n):
        fam = FAMILIES[k % len(FAMILIES)]
        small = rng.random() < 0.35
        e = (lambda r: r.choice([0, 1, 2, 3, 63, 64, 65])) if small else eb
        case = zoo_case(rng, fam, c=cb, e=e, maxw=0, absolute=True)
        if ' S ' in case:
            head, _ = case.rsplit(' S ', 1)
            case = head + ' ' + J('S', rng.randrange(2), rng.randrange(2), rng.choice(W), rng.randrange(3))
        yield 'p_total ' + case
