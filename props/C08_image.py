"""C08, image part - search on the implementation (overflow checks on): ImageRaw / SubImage / Image at display-scale boundary sizes"""
from common import *
import C09 as base

RULE = ('image part: p_img_total = ImageRaw::new (exact and short buffer), pixel() on corners, frame and i32 extremes, Image::new / '
        'with_center / translate draw of the image and of 1..2 nested sub images with boundary areas, for widths and heights from '
        '{0,1,2,3,7,8,9,63..65,240,255..257,320,480,1023,1024} (byte size capped at 4 MiB) x 7 raw widths x 2 data orders, offsets within +-1024: '
        'no panic in a build with overflow checks and debug assertions, exactly w*h colours pulled by a draining target.')
PARTIAL = []
TRUSTED = ['the *_ok predicates of Model/Imageraw.v (one conjunct per arithmetic site) are hand-written against the source and tied to '
           'it only by the panic-free search with overflow checks; there is no ArithSites translator in this build',
           'usize is taken as 32 bit in the predicates; heap allocation is not modelled (the zoo search of props/C08.py counts allocations)']
ASSUMPTIONS = ['display scale: image and area extents <= 1024, coordinates and offsets within +-1024']

B = [0, 1, 2, 3, 7, 8, 9, 63, 64, 65, 240, 255, 256, 257, 320, 480, 1023, 1024]


def area(rng, pw, ph):
    def c(m):
        return rng.choice([0, 1, -1, m - 1, m, m + 1, m // 2, -1024, 1024, rng.randrange(-3, m + 3)])

    def e(m):
        return rng.choice([0, 1, 2, m, m + 1, max(m - 1, 0), 1024, 1023, rng.randrange(0, m + 3)])
    return (max(-1024, min(1024, c(pw))), max(-1024, min(1024, c(ph))), min(1024, e(pw)), min(1024, e(ph)))


def search(tier, rng):
    n = 260 if tier == 'quick' else 4000
    k = 0
    while k < n:
        w, h = rng.choice(B), rng.choice(B)
        bpp = rng.choice(base.BPPS)
        if base.stride(w, bpp) * h > (1 << 20 if tier == 'quick' and k % 10 else 4 << 20):
            continue
        k += 1
        nsub = rng.choice([0, 1, 1, 2])
        region = (0, 0, w, h)
        subs = []
        for _ in range(nsub):
            a = area(rng, region[2] - region[0], region[3] - region[1])
            subs += list(a)
            region = base.clip(region, a)
        ox, oy = rng.choice([0, 1024, -1024, rng.randrange(-1024, 1025)]), rng.choice([0, 1024, -1024, rng.randrange(-1024, 1025)])
        yield J('p_img_total', bpp, rng.randrange(2), w, h, rng.randrange(1000), ox, oy, nsub, *subs)
