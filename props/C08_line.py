"""C08, line part: Line::points() and stroked lines are total on display-scale inputs (no overflow in a build with overflow checks,
bounded number of steps)."""
from common import *

RULE = ('line part: correspondence thick_walk (whole ordered pixel sequence digest of Styled<Line>::pixels(), model vs implementation built '
        'with overflow checks) on boundary-biased display-scale lines (coordinates from {0,+-1,+-2,+-63..65,+-255..257,+-1023,+-1024}) x '
        'widths {0,1,2,3,63,64,65,127,128}; search p_line_total: same inputs, no panic and at most (3w+2)*(dmaj+1) pixels.')
PARTIAL = []
TRUSTED = ['heap allocation is not modelled (see C08 main part)']
ASSUMPTIONS = ['display scale for lines: |coordinates| <= 1024, stroke width <= 128']

B = [0, 1, 2, 63, 64, 65, 255, 256, 257, 1023, 1024]
W = [0, 1, 2, 3, 63, 64, 65, 127, 128]


def _c(rng):
    v = rng.choice(B) if rng.random() < 0.8 else rng.randrange(0, 1025)
    return v if rng.random() < 0.5 else -v


def cases(tier, rng):
    yield J('thick_walk', -1024, 1024, 1024, -1000, 128)
    yield J('thick_walk', -1024, -1024, 1024, 1024, 128)
    yield J('thick_walk', 0, 0, 1000, 700, 30)
    for _ in range(40 if tier == 'quick' else 600):
        yield J('thick_walk', _c(rng), _c(rng), _c(rng), _c(rng), rng.choice(W))


def search(tier, rng):
    yield J('p_line_total', 0, 0, 1000, 700, 30)
    yield J('p_line_total', -1024, 1024, 1024, -1024, 128)
    for _ in range(150 if tier == 'quick' else 3000):
        yield J('p_line_total', _c(rng), _c(rng), _c(rng), _c(rng), rng.choice(W))
