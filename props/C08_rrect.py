"""C08, RoundedRectangle part: the arithmetic of confine / EllipseQuadrant / RoundedRectangleContains::new / Scanlines fits its Rust types."""
from common import *
from rrect_common import *

RULE = ('rrect correspondence ok_rr_contains_tl (rr_arith_ok && quadrant_contains_arith_ok vs contains() panicking at a point of the top-left corner box) and ok_rr_new: rr_arith_ok (model: every intermediate of confine, get_confined_corner_quadrant, EllipseQuadrant::new, '
        'RoundedRectangleContains::new fits its type) vs "building and walking points() panicked" on the implementation (overflow checks + debug '
        'assertions on), on inputs straddling the boundaries: radii and sides around 2^15, 2^16 (u32 products radius x side, circle threshold), '
        '2^31 (u32 sums, i32 additions), positions around +-2^30 and +-2^31; both verdicts occur.')
PARTIAL = []
ASSUMPTIONS = ['rrect: rr_small (base rectangle within +-2^29, sides <= 16383, radii <= 65535) => rr_arith_ok; display scale is far inside']


def edge(rng, ks):
    k = rng.choice(ks)
    return max(0, k + rng.randrange(-3, 4))


def cases(tier, rng):
    n = 6000 if tier == 'quick' else 100000
    big = [0, 1, 100, 2 ** 14, 2 ** 15, 2 ** 16, 46341, 92682, 2 ** 20, 2 ** 30, 2 ** 31 - 4]
    for _ in range(n):
        k = rng.random()
        if k < 0.3:
            g = medium(rng)
        else:
            pos = [rng.choice([0, 5, -7, 2 ** 29, -2 ** 29, 2 ** 30, -2 ** 30, 2 ** 31 - 70000, -2 ** 31 + 70000]) + rng.randrange(-3, 4) for _ in range(2)]
            g = pos + [edge(rng, big), edge(rng, big)] + [edge(rng, big) if rng.random() < 0.6 else rng.randrange(0, 50) for _ in range(8)]
        yield J('ok_rr_new', *g)
    # contains(): only the top-left radius non-zero, probe inside the (confined) top-left corner box (far corner over-represented)
    for _ in range(n):
        x, y = [rng.choice([0, 5, -7, 2 ** 29, -2 ** 29, 2 ** 30 - 200000, -2 ** 30]) + rng.randrange(-3, 4) for _ in range(2)]
        w, h = edge(rng, [50, 2 ** 14, 23170, 2 ** 15, 46341, 2 ** 16, 92682]), edge(rng, [50, 2 ** 14, 23170, 2 ** 15, 46341, 2 ** 16, 92682])
        a, b = min(w, edge(rng, [1, 40, 2 ** 14, 23170, 2 ** 15, 46341, 2 ** 16])), min(h, edge(rng, [1, 40, 2 ** 14, 23170, 2 ** 15, 46341, 2 ** 16]))
        if a == 0 or b == 0:
            continue
        qx = x + (rng.randrange(0, min(a, 3)) if rng.random() < 0.6 else rng.randrange(0, a))
        qy = y + (rng.randrange(0, min(b, 3)) if rng.random() < 0.6 else rng.randrange(0, b))
        yield J('ok_rr_contains_tl', x, y, w, h, a, b, qx, qy)
