"""C08 part targets: adapter stacks and the Cropped colour iterator are total on display-scale inputs."""
from common import *

RULE = ('targets: correspondence tok = boundary-biased display-scale histories (coordinates +-{0,1,2,63..65,255..257,240,320,'
        '480,1023,1024}, extents from the same set, all four adapters, stacks of depth 0..8 and chains of depth 64) run in the '
        'overflow-checked harness on both parent kinds (answer 1 = completed without panic) against build_ok && stack_ok of the '
        'model (1 = every arithmetic site fits its type); search p_stack = the C03 reference property on display-scale '
        'positions (no panic, exact pixel map, exact boxes at every level).')
ASSUMPTIONS = ['targets: usize is taken as 32 bit (the embedded targets of the crate); display scale = |coordinates| <= 1024, '
               'extents <= 1024, stack depth <= 64; the general theorem gives the bound 3*(C + depth*(L+2)*D) + S <= 2^28']
TRUSTED = ['targets: the site predicates of coq/Model/TargetOk.v were written by hand against the listed source lines '
           '(checked dynamically: on every display-scale case the overflow-checked build must not panic where the model says ok)']
PARTIAL = []

B = [0, 1, 2, 63, 64, 65, 255, 256, 257, 240, 320, 480, 1023, 1024]
SMALL = [0, 1, 2, 3, 5, 8, 63, 64, 65]


def cb(rng):
    v = rng.choice(B) if rng.random() < 0.8 else rng.randrange(0, 1025)
    return v if rng.random() < 0.55 else -v


def ds_history(rng, depth, cheap):
    """display-scale history; cheap=True keeps the number of touched pixels small (for the reference search)"""
    eb = (lambda: rng.choice(SMALL)) if cheap else (lambda: rng.choice(B) if rng.random() < 0.8 else rng.randrange(0, 1025))
    bb = (cb(rng), cb(rng), rng.choice([1, 2, 64, 65, 240, 320]) if cheap else max(1, eb()), rng.choice([1, 2, 63, 64, 240]) if cheap else max(1, eb()))
    ads = []
    # keep track of the level origin so that part of the cases stays visible
    box = [bb[0], bb[1], bb[2], bb[3]]
    for _ in range(depth):
        k = rng.random()
        if k < 0.3 or k < 0.6:
            tag = 'C' if k < 0.3 else 'R'
            if rng.random() < 0.6:
                r = (box[0] + rng.choice([-2, -1, 0, 1, 2]), box[1] + rng.choice([-2, -1, 0, 1]), max(1, box[2] - rng.choice([0, 1, 2])), max(1, box[3] - rng.choice([0, 1])))
                r = tuple(max(-1024, min(1024, v)) for v in r[:2]) + tuple(min(1024, v) for v in r[2:])
            else:
                r = (cb(rng), cb(rng), rng.choice(B), rng.choice(B))
            ads.append(J(tag, *r))
            if tag == 'R':
                box = [0, 0, min(box[2], r[2]), min(box[3], r[3])]
        elif k < 0.9:
            d = (cb(rng), cb(rng))
            ads.append(J('T', *d))
            box[0] -= d[0]
            box[1] -= d[1]
            box[0] = max(-1024, min(1024, box[0]))
            box[1] = max(-1024, min(1024, box[1]))
        else:
            ads.append('V')
    ops = []
    for _ in range(rng.randrange(1, 4)):
        k = rng.random()
        near = rng.random() < 0.6
        x = max(-1024, min(1024, box[0] + rng.randrange(-3, 4))) if near else cb(rng)
        y = max(-1024, min(1024, box[1] + rng.randrange(-3, 4))) if near else cb(rng)
        if k < 0.2:
            n = rng.randrange(1, 6)
            ops.append(J('D', n, *[v for _ in range(n) for v in (max(-1024, min(1024, x + rng.randrange(0, 5))), max(-1024, min(1024, y + rng.randrange(0, 5))), rng.randrange(1, 250))]))
        elif k < 0.55:
            w, h = eb(), eb()
            if rng.random() < 0.5 or w * h > 400:
                ops.append(J('F', x, y, w, h, 'I', rng.randrange(1, 250)))
            else:
                m = rng.randrange(0, w * h + 3)
                ops.append(J('F', x, y, w, h, 'L', m, *[rng.randrange(1, 250) for _ in range(m)]))
        elif k < 0.9:
            ops.append(J('S', x, y, eb(), eb(), rng.randrange(1, 250)))
        else:
            ops.append(J('K', rng.randrange(1, 250)))
    return J(*bb, len(ads), *ads, len(ops), *ops)


def clip_big(rng):
    """a large fill_contiguous cut by a clip area: the slow path of Clipped::fill_contiguous with a large initial skip"""
    W, H = rng.choice([240, 320, 480, 1023, 1024]), rng.choice([240, 320, 480, 1023, 1024])
    bx, by = rng.randrange(-1024, 1025 - W) if W < 1024 else rng.choice([-1024, 0]), rng.randrange(-1024, 1025 - H) if H < 1024 else rng.choice([-1024, 0])
    cx, cy = bx + rng.randrange(0, W), by + rng.randrange(0, H)
    cw, ch = rng.randrange(1, W + 1), rng.randrange(1, H + 1)
    ax, ay = max(-1024, bx - rng.randrange(0, 60)), max(-1024, by - rng.randrange(0, 60))
    aw, ah = rng.choice([W, 1024, 1023, 480]), rng.choice([H, 1024, 257, 64])
    ad = rng.choice(['C %d %d %d %d' % (cx, cy, cw, ch), 'T 0 0 C %d %d %d %d' % (cx, cy, cw, ch), 'C %d %d %d %d V' % (cx, cy, cw, ch)])
    return J(bx, by, W, H, len([t for t in ad.split() if t in 'CTRV']), ad, 1, 'F', ax, ay, aw, ah, 'I', rng.randrange(1, 250))


def cases(tier, rng):
    n = 700 if tier == 'quick' else 20000
    for i in range(n // 3):
        yield 'tok %d %s' % (1 if i % 4 else 0, clip_big(rng))
    for i in range(n):
        depth = rng.choice([0, 1, 2, 3, 4, 4, 6, 8])
        yield 'tok %d %s' % (i % 2, ds_history(rng, depth, cheap=(i % 4 != 0)))
    for i in range(20 if tier == 'quick' else 400):
        yield 'tok %d %s' % (i % 2, ds_history(rng, 64, cheap=True))
    # the extreme corner: everything at +-1024 with depth 64
    for sgn in (1, -1):
        ads = ' '.join(['T %d %d' % (sgn * 1024, -sgn * 1024), 'R %d %d 1024 1024' % (-sgn * 1024, sgn * 1024)] * 32)
        yield 'tok 1 %d %d 1024 1024 64 %s 2 S %d %d 1024 1024 7 F %d %d 1024 1024 I 9' % (sgn * 1024, sgn * 1024, ads, sgn * 1024, -sgn * 1024, -sgn * 1024, sgn * 1024)


def search(tier, rng):
    n = 800 if tier == 'quick' else 30000
    for i in range(n):
        yield 'p_stack %d %s' % (i % 2, ds_history(rng, rng.choice([0, 1, 2, 3, 4]), cheap=True))
