"""C09 - Raw images and sub-images reproduce their pixel data exactly  (metadata; generators live here and/or in props/C09_*.py parts)"""
CLAIMED = False   # set True by the owner once ./check C09 passes with real theorems
LEVEL = 'proof'
LEVEL_TEXT = 'TODO'
LEVEL_NOTE = 'TODO'
