"""C09 - Raw images and sub-images reproduce their pixel data exactly"""
from common import *
import re

CLAIMED = True
LEVEL = 'proof'
LEVEL_TEXT = ('Proof: 25 Coq theorems (20 in Properties/C09.v, 5 in C09_color.v) over the Gallina model of ImageRaw / ContiguousPixels / SubImage / Image '
              '(coq/Model/Imageraw.v, line-by-line incl. the raw load for all 7 raw widths x 2 data orders, the saturating '
              'nth() of RawDataIterator, the remaining_x/remaining_y/row_skip state machine as the list it yields, the five '
              'rejection tests of draw_sub_image, SubImage::new = intersection with the parent box, nested re-basing, '
              'Image::new/with_center through Translated). Proved for every image accepted by ImageRaw::new with extents up to '
              '2^29 and every chain of sub_image calls: new accepts exactly bytes_per_row*height bytes (new_ok_iff); pixel is None '
              'exactly outside the box (pixel_none_iff); pixel(x,y) is raw item y*data_width+x and equally item x of the y-th '
              'bytes_per_row-byte slice (pixel_layout, pixel_row_layout = row padding); the single fill_contiguous call covers '
              'the drawable box and its colour stream is the pixels in row-major order with exactly w*h items (stream_is_pixels, '
              'stream_exact); rendering Image(d,o) sets q to pixel(q-o) inside the box and touches nothing else '
              '(image_draw_spec); sub_image(area) shows the parent pixels inside area intersected with the parent box '
              '(sub_image_spec); nested sub images compose (sub_sub_compose, d_pixel_root: any nesting depth shows the root pixel() at the accumulated offset); with_center centres, at box level and as a pixel map: the image centre pixel lands on c (with_center_spec, with_center_draw_spec); '
              'a direct draw_sub_image call draws the area iff it lies inside (draw_sub_image_direct). Every statement carries the exact range '
              'condition under which the unbounded model equals the i32/u32 code (offset_fits, area_fits, with_center_fits, direct_area_fits; '
              'all implied by rect_ok, C09_ranges_from_rect_ok). '
              'The model is tied to the code by running the extracted model and the real library on the same inputs on every run.')
LEVEL_NOTE = ('Colour types: C09_color.v composes the raw values with C::from(raw) of the C12 colour model for all 14 built-in colour types '
              '(valid colour; raw storage value = data value with the unused bits cleared), checked by the img_typed correspondence. '
              'new_const is modelled (None = panic) and compared with a caught panic. '
              'Trusted: Coq kernel, extraction (ExtrOcamlBasic), OCaml/Rust drivers. The hand-written model is validated by '
              'differential testing (pixel maps, call log, number of colours a draining target pulls) and by an independent '
              'byte-level reference in the p_ search suites, not proved equal to the Rust source. Colours are raw storage values; '
              'the conversion RawUx -> colour type is the identity on the value (checked by the correspondence for the six library '
              'colour types used + a 32 bit test colour). The pixel map semantics of fill_contiguous (row-major zip, pixels outside '
              'the target dropped) is the DrawTarget contract (C01/C03). Unbounded Z arithmetic; theorems carry extents <= 2^29 '
              'and draw offsets within +-2^29.')
RULE = ('correspondence: all sizes 0..N x 0..N (N=9 quick, 16 thorough) + wide rows up to 70 px x 7 raw widths x 2 data orders: '
        'ImageRaw::new with 6 right/wrong lengths; pixel() on the box plus a 1 px frame; draw of Image::new / with_center at '
        'random offsets (7% near +-2^20, 3% on the i32 boundary of offset_fits) of the image and of 1..3 nested sub images (inside / overlapping / outside / zero sized / '
        'whole / larger areas / extents 2^29, 2^30 and exactly top_left + size = i32::MAX) and direct draw_sub_image calls, on a draw_iter-only target, a native target (call log) and a '
        'draining native target (colours pulled), with target boxes containing / cutting / missing the image. '
        'search (p_*): the same inputs judged against an independent byte-level decoder of the documented layout and explicit '
        'region arithmetic (expected pixel map, one call over the box, exactly w*h colours pulled, centring).')
EXHAUSTIVE = {'quick': False, 'thorough': False}
ASSUMPTIONS = ['image extents within 2^29 (img_ok); bits per pixel one of 1, 2, 4, 8, 16, 24, 32 (the seven RawData types)',
               'draw offsets: the placed box stays inside the i32 coordinate space (offset_fits: o >= i32::MIN, o + size <= i32::MAX), '
               'the exact condition under which Rectangle::points() does not saturate; implied by |o| <= 2^29',
               'sub image areas (area_fits): zero sized, or extents <= i32::MAX and top_left + size <= i32::MAX, the exact condition under which '
               'Rectangle::bottom_right / intersection are computable; beyond it (e.g. sub_image(&Rectangle::new(Point::zero(), Size::new(1 << 31, 1)))) '
               'the implementation panics with debug assertions at core/src/geometry/point.rs:279/282 (documented panic of Point + Size) and, without '
               'them, clips to nothing; C09 makes no claim there. Implied by rect_ok (|coordinates|, extents <= 2^29)',
               'Image::with_center (with_center_fits): center - (size - 1) / 2 stays >= i32::MIN; implied by |center| <= 2^29',
               'a DIRECT ImageDrawable::draw_sub_image call (documented as not for user code) is covered only when the u32 sums `x as u32 + width`, '
               '`y as u32 + height` of image_raw.rs:229-230 do not overflow (direct_area_fits; areas produced by sub_image always satisfy it); '
               'area (1,0) 4294967295 x 1 panics at image_raw.rs:229 with overflow checks']
TRUSTED = ['modelled, not verified: slice::get / get(a..) / get(0..k) as nth_error / skipn / firstn, usize::saturating_add, '
           'u16/u32::from_le_bytes/from_be_bytes, `byte >> n` then RawUx::new as (byte / 2^n) mod 2^bpp',
           'd_pixel for SubImage (re-basing by the area top left) is specification, SubImage has no pixel() in the library',
           'a direct ImageDrawable::draw_sub_image call (documented as not for user code) on a SubImage is judged against the ROOT image '
           '(C09_draw_sub_image_direct_nested: the code only re-bases), except on zero sized SubImages, where it is compared model-vs-code only']
PARTIAL = []

BPPS = [1, 2, 4, 8, 16, 24, 32]
I32_MAX = 2 ** 31 - 1
I32_MIN = -2 ** 31


def stride(w, bpp):
    return (w * bpp + 7) // 8


def sub_area(rng, pw, ph):
    """an area relative to a drawable of size pw x ph: inside / overlapping / outside / zero sized / whole / larger"""
    k = rng.random()
    if k < 0.40 and pw > 0 and ph > 0:          # fully inside
        x = rng.randrange(pw)
        y = rng.randrange(ph)
        return (x, y, rng.randrange(1, pw - x + 1), rng.randrange(1, ph - y + 1))
    if k < 0.65:                                  # overlapping an edge or a corner (or inside, or outside)
        return (rng.randrange(-3, pw + 2), rng.randrange(-3, ph + 2), rng.randrange(0, pw + 5), rng.randrange(0, ph + 5))
    if k < 0.75:                                  # outside
        w, h = rng.randrange(1, 5), rng.randrange(1, 5)
        x = rng.choice([pw + rng.randrange(0, 3), -w - rng.randrange(0, 3), rng.randrange(-2, pw + 2)])
        y = rng.choice([ph + rng.randrange(0, 3), -h - rng.randrange(0, 3)]) if 0 <= x < pw or rng.random() < 0.5 else rng.randrange(-2, ph + 2)
        return (x, y, w, h)
    if k < 0.85:                                  # zero sized
        w, h = rng.choice([(0, 0), (0, rng.randrange(1, 4)), (rng.randrange(1, 4), 0)])
        return (rng.randrange(-1, pw + 2), rng.randrange(-1, ph + 2), w, h)
    if k < 0.91:                                  # the whole parent
        return (0, 0, pw, ph)
    if k < 0.94:
        # extents on the boundary of area_fits: 2^29, 2^30 and exactly top_left + size = i32::MAX
        # (beyond it `Rectangle::bottom_right` panics at point.rs:279/282 and C09 makes no claim)
        x, y = rng.randrange(-3, pw + 2), rng.randrange(-3, ph + 2)
        big = lambda c: rng.choice([2 ** 29, 2 ** 30, I32_MAX - max(c, 0), I32_MAX - max(c, 0) - 1])
        w = big(x) if rng.random() < 0.7 else rng.randrange(0, pw + 5)
        h = big(y) if rng.random() < 0.7 or w < 2 ** 29 else rng.randrange(0, ph + 5)
        return (x, y, w, h)
    return (-rng.randrange(0, 3), -rng.randrange(0, 3), pw + rng.randrange(0, 5), ph + rng.randrange(0, 5))   # larger


def clip(region, a):
    """region (x0,y0,x1,y1) in raw image coordinates, a relative to its top left -> new region"""
    x0, y0, x1, y1 = region
    ax, ay = x0 + a[0], y0 + a[1]
    nx0, ny0, nx1, ny1 = max(x0, ax), max(y0, ay), min(x1, ax + a[2]), min(y1, ay + a[3])
    if nx0 >= nx1 or ny0 >= ny1:
        return (nx0, ny0, nx0, ny0)
    return (nx0, ny0, nx1, ny1)


def draw_case(rng, pre, bpp, alt, w, h, nsub, tk=None, direct=False):
    seed = rng.randrange(2 ** 30)
    region = (0, 0, w, h)
    subs = []
    for _ in range(nsub):
        a = sub_area(rng, region[2] - region[0], region[3] - region[1])
        subs += list(a)
        region = clip(region, a)
    sw, sh = region[2] - region[0], region[3] - region[1]
    mode = 1 if rng.random() < 0.25 else 0
    k = rng.random()
    edge = False
    if direct:
        # ImageDrawable::draw_sub_image(target, area) called directly on the final drawable: no offset, the
        # area is drawn at the origin (or rejected when it is not fully inside)
        a = sub_area(rng, sw, sh)
        if a[2] >= 2 ** 29 or a[3] >= 2 ** 29:
            # direct call with an extent on the boundary of direct_area_fits: x as u32 + width = u32::MAX at most
            # (rejected as "not inside"); the target box below is derived from the parent instead of the area
            a = (max(a[0], 0), max(a[1], 0), a[2], a[3])
            if nsub == 0:   # (on a SubImage the area is re-based first; the sums are taken at the root)
                a = (a[0], a[1], rng.choice([a[2], 2 ** 32 - 1 - a[0]]), rng.choice([a[3], 2 ** 32 - 1 - a[1]]))
        subs += list(a)
        mode, ox, oy = 2, 0, 0
        sw, sh = min(a[2], sw + 5), min(a[3], sh + 5)
    elif k < 0.03 and mode == 0:
        # the boundary of offset_fits: the box touches i32::MAX / starts at i32::MIN
        edge = True
        ox = rng.choice([I32_MAX - sw, I32_MIN, I32_MAX - sw - 1])
        oy = rng.choice([I32_MAX - sh, I32_MIN, rng.randrange(-12, 13)])
    elif k < 0.1:
        ox, oy = rng.choice([-1, 1]) * rng.randrange(2 ** 20 - 40, 2 ** 20), rng.choice([-1, 1]) * rng.randrange(2 ** 20 - 40, 2 ** 20)
    elif k < 0.3:
        ox, oy = 0, 0
    else:
        ox, oy = rng.randrange(-12, 13), rng.randrange(-12, 13)
    # where the image lands (top left), to place the target box around / across it
    tx, ty = (ox - (max(sw, 1) - 1) // 2, oy - (max(sh, 1) - 1) // 2) if mode == 1 else (ox, oy)
    k = rng.random()
    if edge:          # keep the target's own box inside i32 as well
        bb = (max(tx - 2, I32_MIN), max(ty - 2, I32_MIN), sw + 2 - (2 if tx - 2 < I32_MIN else 0), sh + 2 - (2 if ty - 2 < I32_MIN else 0))
    elif k < 0.55:      # target contains the whole image with a margin
        bb = (tx - 2, ty - 2, sw + 4, sh + 4)
    elif k < 0.9:     # target cuts the image
        bb = (tx + rng.randrange(-3, sw + 2), ty + rng.randrange(-3, sh + 2), rng.randrange(0, sw + 4), rng.randrange(0, sh + 4))
    elif k < 0.95:    # empty target
        bb = (tx, ty, 0, rng.randrange(0, 3))
    else:             # target elsewhere
        bb = (tx + sw + 1, ty - 1, 3, sh + 2)
    if tk is None:
        tk = rng.randrange(3)
    return J(pre + 'img_draw', bpp, alt, w, h, stride(w, bpp) * h, seed, mode, ox, oy, tk, *bb, nsub, *subs)


def sizes(tier, rng):
    N = 9 if tier == 'quick' else 16
    for w in range(N + 1):
        for h in range(N + 1):
            yield w, h
    # wider rows (several bytes per row at 1 bpp), few rows
    for _ in range(60 if tier == 'quick' else 600):
        yield rng.randrange(N + 1, 71), rng.randrange(1, 6)


def gen(tier, rng, pre):
    reps = 1 if tier == 'quick' else 2
    for w, h in sizes(tier, rng):
        for bpp in BPPS:
            for alt in (0, 1):
                exact = stride(w, bpp) * h
                # ImageRaw::new with right and wrong lengths
                lens = {exact, exact + 1, max(exact - 1, 0), (w * h * bpp + 7) // 8, (w * bpp // 8) * h, rng.randrange(0, exact + 9)}
                for ln in sorted(lens):
                    yield J(pre + 'img_new', bpp, alt, w, h, ln)
                yield J(pre + 'img_pixels', bpp, alt, w, h, exact, rng.randrange(2 ** 30))
                # new_const: the exact length, and a wrong one (caught panic)
                yield J(pre + 'img_new_const', bpp, alt, w, h, exact, rng.randrange(2 ** 30))
                yield J(pre + 'img_new_const', bpp, alt, w, h, rng.choice([exact + 1, exact + 2, exact + 1 + stride(w, bpp)]), 1)
                for _ in range(reps):
                    yield draw_case(rng, pre, bpp, alt, w, h, 0)
                    yield draw_case(rng, pre, bpp, alt, w, h, 1, tk=2)
                    yield draw_case(rng, pre, bpp, alt, w, h, 1)
                    yield draw_case(rng, pre, bpp, alt, w, h, 2)
                    yield draw_case(rng, pre, bpp, alt, w, h, rng.choice([2, 3, 3]), tk=2)
                    yield draw_case(rng, pre, bpp, alt, w, h, 0, direct=True)
                    yield draw_case(rng, pre, bpp, alt, w, h, rng.choice([0, 1, 2]), tk=2, direct=True)
    # a wrong length reaches img_draw / img_pixels as `err n` on both sides
    if pre == '':
        for _ in range(50):
            w, h, bpp = rng.randrange(1, 9), rng.randrange(1, 9), rng.choice(BPPS)
            yield J('img_pixels', bpp, rng.randrange(2), w, h, stride(w, bpp) * h + rng.choice([-1, 1, 2]), 7)


def trivial(line, res):
    """empty pixel map / nothing drawn / none"""
    return res in ('', 'none', '0') or ' MAP  ' in res + ' ' and re.search(r' MAP ( |$)', res) is not None


def cases(tier, rng):
    yield from gen(tier, rng, '')


def search(tier, rng):
    yield from gen(tier, rng, 'p_')
