"""C09 - Raw images and sub-images reproduce their pixel data exactly"""
from common import *
import re

CLAIMED = False   # set True by the owner once ./check C09 passes with real theorems
LEVEL = 'proof'
LEVEL_TEXT = 'TODO'
LEVEL_NOTE = 'TODO'
RULE = 'TODO'
EXHAUSTIVE = {'quick': False, 'thorough': False}
ASSUMPTIONS = []
TRUSTED = []
PARTIAL = []

BPPS = [1, 2, 4, 8, 16, 24, 32]


def stride(w, bpp):
    return (w * bpp + 7) // 8


def sub_area(rng, pw, ph):
    """an area relative to a drawable of size pw x ph: inside / overlapping / outside / zero sized / whole / larger"""
    k = rng.random()
    if k < 0.40 and pw > 0 and ph > 0:          # fully inside
        x = rng.randrange(pw)
        y = rng.randrange(ph)
        return (x, y, rng.randrange(1, pw - x + 1), rng.randrange(1, ph - y + 1))
    if k < 0.65:                                  # overlapping an edge or a corner (or inside, or outside)
        return (rng.randrange(-3, pw + 2), rng.randrange(-3, ph + 2), rng.randrange(0, pw + 5), rng.randrange(0, ph + 5))
    if k < 0.75:                                  # outside
        w, h = rng.randrange(1, 5), rng.randrange(1, 5)
        x = rng.choice([pw + rng.randrange(0, 3), -w - rng.randrange(0, 3), rng.randrange(-2, pw + 2)])
        y = rng.choice([ph + rng.randrange(0, 3), -h - rng.randrange(0, 3)]) if 0 <= x < pw or rng.random() < 0.5 else rng.randrange(-2, ph + 2)
        return (x, y, w, h)
    if k < 0.85:                                  # zero sized
        w, h = rng.choice([(0, 0), (0, rng.randrange(1, 4)), (rng.randrange(1, 4), 0)])
        return (rng.randrange(-1, pw + 2), rng.randrange(-1, ph + 2), w, h)
    if k < 0.93:                                  # the whole parent
        return (0, 0, pw, ph)
    return (-rng.randrange(0, 3), -rng.randrange(0, 3), pw + rng.randrange(0, 5), ph + rng.randrange(0, 5))   # larger


def clip(region, a):
    """region (x0,y0,x1,y1) in raw image coordinates, a relative to its top left -> new region"""
    x0, y0, x1, y1 = region
    ax, ay = x0 + a[0], y0 + a[1]
    nx0, ny0, nx1, ny1 = max(x0, ax), max(y0, ay), min(x1, ax + a[2]), min(y1, ay + a[3])
    if nx0 >= nx1 or ny0 >= ny1:
        return (nx0, ny0, nx0, ny0)
    return (nx0, ny0, nx1, ny1)


def draw_case(rng, pre, bpp, alt, w, h, nsub, tk=None, direct=False):
    seed = rng.randrange(2 ** 30)
    region = (0, 0, w, h)
    subs = []
    for _ in range(nsub):
        a = sub_area(rng, region[2] - region[0], region[3] - region[1])
        subs += list(a)
        region = clip(region, a)
    sw, sh = region[2] - region[0], region[3] - region[1]
    mode = 1 if rng.random() < 0.25 else 0
    k = rng.random()
    if direct:
        # ImageDrawable::draw_sub_image(target, area) called directly on the final drawable: no offset, the
        # area is drawn at the origin (or rejected when it is not fully inside)
        a = sub_area(rng, sw, sh)
        subs += list(a)
        mode, ox, oy = 2, 0, 0
        sw, sh = a[2], a[3]
    elif k < 0.1:
        ox, oy = rng.choice([-1, 1]) * rng.randrange(2 ** 20 - 40, 2 ** 20), rng.choice([-1, 1]) * rng.randrange(2 ** 20 - 40, 2 ** 20)
    elif k < 0.3:
        ox, oy = 0, 0
    else:
        ox, oy = rng.randrange(-12, 13), rng.randrange(-12, 13)
    # where the image lands (top left), to place the target box around / across it
    tx, ty = (ox - (max(sw, 1) - 1) // 2, oy - (max(sh, 1) - 1) // 2) if mode == 1 else (ox, oy)
    k = rng.random()
    if k < 0.55:      # target contains the whole image with a margin
        bb = (tx - 2, ty - 2, sw + 4, sh + 4)
    elif k < 0.9:     # target cuts the image
        bb = (tx + rng.randrange(-3, sw + 2), ty + rng.randrange(-3, sh + 2), rng.randrange(0, sw + 4), rng.randrange(0, sh + 4))
    elif k < 0.95:    # empty target
        bb = (tx, ty, 0, rng.randrange(0, 3))
    else:             # target elsewhere
        bb = (tx + sw + 1, ty - 1, 3, sh + 2)
    if tk is None:
        tk = rng.randrange(3)
    return J(pre + 'img_draw', bpp, alt, w, h, stride(w, bpp) * h, seed, mode, ox, oy, tk, *bb, nsub, *subs)


def sizes(tier, rng):
    N = 9 if tier == 'quick' else 16
    for w in range(N + 1):
        for h in range(N + 1):
            yield w, h
    # wider rows (several bytes per row at 1 bpp), few rows
    for _ in range(60 if tier == 'quick' else 600):
        yield rng.randrange(N + 1, 71), rng.randrange(1, 6)


def gen(tier, rng, pre):
    reps = 1 if tier == 'quick' else 2
    for w, h in sizes(tier, rng):
        for bpp in BPPS:
            for alt in (0, 1):
                exact = stride(w, bpp) * h
                # ImageRaw::new with right and wrong lengths
                lens = {exact, exact + 1, max(exact - 1, 0), (w * h * bpp + 7) // 8, (w * bpp // 8) * h, rng.randrange(0, exact + 9)}
                for ln in sorted(lens):
                    yield J(pre + 'img_new', bpp, alt, w, h, ln)
                yield J(pre + 'img_pixels', bpp, alt, w, h, exact, rng.randrange(2 ** 30))
                for _ in range(reps):
                    yield draw_case(rng, pre, bpp, alt, w, h, 0)
                    yield draw_case(rng, pre, bpp, alt, w, h, 1, tk=2)
                    yield draw_case(rng, pre, bpp, alt, w, h, 1)
                    yield draw_case(rng, pre, bpp, alt, w, h, 2)
                    yield draw_case(rng, pre, bpp, alt, w, h, rng.choice([2, 3, 3]), tk=2)
                    yield draw_case(rng, pre, bpp, alt, w, h, 0, direct=True)
                    yield draw_case(rng, pre, bpp, alt, w, h, rng.choice([0, 1, 2]), tk=2, direct=True)
    # a wrong length reaches img_draw / img_pixels as `err n` on both sides
    if pre == '':
        for _ in range(50):
            w, h, bpp = rng.randrange(1, 9), rng.randrange(1, 9), rng.choice(BPPS)
            yield J('img_pixels', bpp, rng.randrange(2), w, h, stride(w, bpp) * h + rng.choice([-1, 1, 2]), 7)


def trivial(line, res):
    """empty pixel map / nothing drawn / none"""
    return res in ('', 'none', '0') or ' MAP  ' in res + ' ' and re.search(r' MAP ( |$)', res) is not None


def cases(tier, rng):
    yield from gen(tier, rng, '')


def search(tier, rng):
    yield from gen(tier, rng, 'p_')
