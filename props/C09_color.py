"""C09, colour part - ImageRaw<C, O> for all 14 built-in colour types (incl. those that do not use all bits of their raw type)"""
from common import *

RULE = ('colour part: img_typed = pixel() over the box plus a frame and Image::new draw of ImageRaw<C, O> for all 14 built-in colour types x '
        '2 data orders x sizes 0..6 x random bytes: raw storage value of every colour = model raw value through Colormodel.from_raw/to_raw.')
PARTIAL = []
TRUSTED = ['typed_pixel / typed_image_draw (Proofs/Imagecolor.v) compose the two extracted models by `C::from(raw)`, as image_raw.rs:272 and :345 do']
ASSUMPTIONS = ['colour part: C is one of the 14 built-in colour types (rows of the generated colour table); data bytes are 0..255']

TYPES = ['BinaryColor', 'Gray2', 'Gray4', 'Gray8', 'Rgb332', 'Rgb444', 'Rgb555', 'Bgr555', 'Rgb565', 'Bgr565', 'Rgb666', 'Bgr666', 'Rgb888', 'Bgr888']


def cases(tier, rng):
    N = 5 if tier == 'quick' else 9
    for ty in TYPES:
        for alt in (0, 1):
            for w in range(N + 1):
                for h in range(N + 1):
                    if tier == 'quick' and (w + h) % 2 and w > 2:
                        continue
                    yield J('img_typed', ty, alt, w, h, rng.randrange(2 ** 30), rng.randrange(-9, 10), rng.randrange(-9, 10))
