"""C10 - Framebuffer reads back what was written, in the layout of ImageRaw."""
from common import *

CLAIMED = True
LEVEL = 'proof'
LEVEL_TEXT = ('Proof: 24 Coq theorems (coq/Properties/C10.v) over the Gallina model of Framebuffer (coq/Model/Framebuffer.v: set_pixel in its '
              'three families as written - sub-byte byte/bit index and mask expression, 8-bit, multi-byte to_le/to_be_bytes by data order - '
              'draw_iter, new, fill_contiguous / fill_solid / clear as the DrawTarget trait defaults over draw_iter (area.points() zipped with '
              'the colour stream), as_image over data[0..BUFFER_SIZE] with ImageRaw::new / data_width / pixel reading through '
              'RawDataIterator::nth of the C11 model), for all 7 raw widths, both data orders, ALL sizes, all buffer lengths N >= BUFFER_SIZE '
              'and every usize width (16/32/64 bit: usize is a parameter of the model): a new framebuffer reads the zero colour inside and None '
              'outside; set_pixel is exactly RawData::store and pixel() exactly RawData::load at index x + y * data_width (ImageRaw\'s padded '
              'row-major layout), hence set_pixel updates the point->colour map at p iff p is inside and nothing else (refinement); clear(v) '
              'makes every inside point v; fill_solid(a, v) makes area /\\ box v; fill_contiguous(a, cs) puts colour number '
              '(y-top)*width+(x-left) at (x,y), ignores surplus colours and leaves the rest when the stream ends early; by induction over ANY '
              'list of set_pixel / draw_iter / fill_solid / fill_contiguous / clear operations pixel(q) is the colour most recently written to '
              'q, and the framebuffer is a conforming DrawTarget (the history equals painting the calls on the native target of Model/Target.v); '
              'a write outside WIDTH x HEIGHT returns the identical byte array; bytes at or beyond BUFFER_SIZE are never modified (single '
              'step of any of the five operations, and histories); as_image() never panics and is the ImageRaw of the same raw type, data '
              'order and size over the used prefix; pixel() never panics; drawing as_image(): fill_contiguous receives exactly WIDTH*HEIGHT '
              'colours (ContiguousPixels modelled as written), and - through the bridge Proofs/Imagebridge.v to the C09 image model and its '
              'image_draw_spec - the pixel map a target holds after Image::new(&fb.as_image(), o).draw is the framebuffer content shifted by o. '
              'That Framebuffer defines only draw_iter and that the three trait-default bodies are the modelled ones is re-read from the source '
              'on every run (translate/gen_fb.py -> Gen/FbShape.v -> C10_fb_inherits_trait_defaults; fail closed).')
LEVEL_NOTE = ('Trusted: Coq kernel, extraction, the OCaml/Rust drivers; the hand-written model is validated by differential testing on every '
              'run (usize64 instance, the harness target). Arbitrary drawables reach the framebuffer only through the five DrawTarget methods '
              'covered here; which calls a drawable makes is C01/C05.. (the search suite draws styled Rectangle/Circle/Line/Triangle against a '
              'reference target that uses the same trait defaults, so a defect in the defaults themselves is C03\'s to find). The bridge theorem '
              'C10_fb_as_image_render is for sizes and offsets within +-2^29 (the range of C09) and for the 64-bit usize the C09 model is written for. '
              'The checks are stricter than the property on row-padding bits: fb_hist and p_fb_hist compare all bytes of data[..BUFFER_SIZE], so a '
              '(legal) future fill override that also writes padding bits would raise an alarm.')
RULE = ('correspondence (fb_hist): all bytes of data() and pixel() over the window -1..=W x -1..=H after a history of set_pixel / draw_iter / '
        'fill_solid / fill_contiguous (finite streams shorter, equal and longer than the area) / clear operations (points inside, on and beyond '
        'every edge, i32 extremes, areas far outside) on a zero or patterned (data_mut) background, for 7 raw widths x 2 data orders x 15 '
        '(W,H,extra) configurations (rows ending and not ending on a byte boundary, oversized buffers, zero width / height, one wide 67x2, one '
        'tall 2x9) incl. every single pixel set alone; the model side runs the extracted fb_fill_solid / fb_fill_contiguous / fb_clear (trait '
        'defaults over Geometry.points), no hand-written expansion; (fb_img): the colour stream as_image() hands to fill_contiguous. '
        'search (implementation only): p_fb_hist = random histories incl. fill_contiguous and styled Rectangle/Circle/Line/Triangle drawables; '
        'after EVERY operation pixel(), as_image().pixel() and an ImageRaw built over data[..BUFFER_SIZE] are compared with a reference map on a '
        'window, the bytes with an independent bit-by-bit rendering of the documented layout, the oversized tail with its marker pattern; outside '
        'writes must leave all bytes identical; finally as_image() is drawn at an offset onto a draining native target and a draw_iter-only target. '
        'p_fb_each = every pixel written alone over set_pixel-written and raw random backgrounds: reads back, no other pixel changes, no bit '
        'outside the pixel\'s bits in the documented layout changes (padding bits and tail included).')
EXHAUSTIVE = {'quick': False, 'thorough': False}
TRUSTED = ['modelled, not verified: colours are identified with their raw values (C::from(raw) / c.into() are property C12); const-generic '
           'WIDTH/HEIGHT/N as ordinary values; usize::try_from(i32) as a sign test; slice indexing / copy_from_slice as list operations']
ASSUMPTIONS = ['0 <= WIDTH, HEIGHT <= i32::MAX (the `as u32` / `as i32` casts in as_image()/pixel() are exact), N >= BUFFER_SIZE (CHECK_N), '
               '8 * N <= usize::MAX, colours are raw values < 2^bits; fb_oob_noop needs no assumption']
PARTIAL = []
# Mutations tried (scratch worktree, EG_REPO=...), all VIOLATION with a failing input unless noted:
#   framebuffer.rs: sub-byte bit index ignoring the data order (= original defect c); bytes_per_row (+6)/8; x <= WIDTH bound (sub-byte);
#   y bound dropped (8 bit); mask not clearing old bits; BigEndianLsb0 impl using to_le_bytes; 8-bit index x*HEIGHT+y;
#   multi-byte index y*W*BYTES + x; as_image over the whole oversized array
#   image_raw.rs: data_width without row padding; pixel() x bound off by one
#   round 2: an overriding `fn clear` (self.data.fill) in the RawU8 impl: translator fails closed, proof breaks, p_fb_hist finds the tail
#   bytes changed; trait default `clear` over bounding_box().offset(1): translator fails closed (no observable difference on a framebuffer);
#   seeded C10-A (multi-byte set_pixel relying on the slice bound) and C10-B (4bpp mask 2*bpp-1): both VIOLATION with failing input
#   NOT caught, not observable here: ContiguousPixels remaining_y = height (original defect d): when the WHOLE image is drawn the raw
#   iterator is exhausted after the last row, so no surplus colour appears (the defect needs a sub-image; it is C09's).

BPPS = [1, 2, 4, 8, 16, 24, 32]
# (W, H, extra bytes): the framebuffer types instantiated in harness/src/suites/c10.rs (const generics):
# rows that end on a byte boundary for some depths and not for others, oversized buffers, zero-sized
SIZES = [(1, 1, 0), (3, 2, 0), (3, 2, 3), (7, 3, 0), (8, 2, 0), (9, 2, 0), (9, 2, 5), (13, 5, 0), (13, 5, 1),
         (16, 1, 0), (17, 3, 0), (0, 2, 0), (3, 0, 2), (67, 2, 1), (2, 9, 0)]


def coord(rng, m):
    k = rng.random()
    if k < 0.08:
        return -1
    if k < 0.16:
        return m
    if k < 0.24:
        return m - 1
    if k < 0.30:
        return 0
    if k < 0.36:
        return rng.choice([-2 ** 31, 2 ** 31 - 1, -70000, 70000, 256, -256, 2 ** 16, 2 ** 24 + 3])
    return rng.randrange(0, m + 1)


def value(rng, bpp):
    m = 2 ** bpp - 1
    k = rng.random()
    if k < 0.15:
        return 0
    if k < 0.3:
        return m
    if k < 0.4:
        return 0x12345678 & m
    return rng.randrange(m + 1)


def op(rng, bpp, w, h):
    k = rng.random()
    if k < 0.55:
        return 'S:%d:%d:%d' % (coord(rng, w), coord(rng, h), value(rng, bpp))
    if k < 0.8:
        n = rng.randrange(0, 6)
        return 'D:' + ';'.join('%d:%d:%d' % (coord(rng, w), coord(rng, h), value(rng, bpp)) for _ in range(n))
    if k < 0.88:
        # now and then an area far outside / at the i32 limits (Rectangle::points must not be confused by it)
        if rng.random() < 0.1:
            return 'F:%d:%d:%d:%d:%d' % (rng.choice([-2 ** 31, 2 ** 31 - 3, -70000, 65536]), rng.randrange(-3, h + 2), rng.randrange(0, 3), rng.randrange(0, h + 3), value(rng, bpp))
        return 'F:%d:%d:%d:%d:%d' % (rng.randrange(-3, w + 2), rng.randrange(-3, h + 2), rng.randrange(0, w + 3), rng.randrange(0, h + 3), value(rng, bpp))
    if k < 0.95:
        aw, ah = rng.randrange(0, w + 3), rng.randrange(0, h + 3)
        n = aw * ah
        n = rng.choice([n, n, n, max(0, n - rng.randrange(1, 4)), n + rng.randrange(1, 4), 0])
        return 'G:%d:%d:%d:%d/%s' % (rng.randrange(-3, w + 2), rng.randrange(-3, h + 2), aw, ah, ','.join(str(value(rng, bpp)) for _ in range(n)))
    return 'C:%d' % value(rng, bpp)


def bg(rng):
    return rng.choice([(0, 0), (0, 0), (0, 255), (1, 0), (37, 11), (rng.randrange(256), rng.randrange(256))])


def cases(tier, rng):
    reps = 3 if tier == 'quick' else 20
    for bpp in BPPS:
        for alt in (0, 1):
            for (w, h, e) in SIZES:
                # every pixel set alone on a zero and on a patterned background
                for (a, b) in ((0, 0), (37, 11)):
                    yield J('fb_img', bpp, alt, w, h, e, a, b)
                    for y in range(h):
                        for x in range(w):
                            if tier != 'quick' or (x + y * w) % 3 == 0 or x == w - 1:
                                yield J('fb_hist', bpp, alt, w, h, e, a, b, 'S:%d:%d:%d' % (x, y, value(rng, bpp)))
                for _ in range(reps):
                    a, b = bg(rng)
                    yield J('fb_hist', bpp, alt, w, h, e, a, b, *[op(rng, bpp, w, h) for _ in range(rng.randrange(0, 12))])
                    a, b = bg(rng)
                    yield J('fb_img', bpp, alt, w, h, e, a, b)


def search(tier, rng):
    reps = 2 if tier == 'quick' else 12
    for bpp in BPPS:
        for alt in (0, 1):
            for (w, h, e) in SIZES:
                yield J('p_fb_each', bpp, alt, w, h, e, rng.randrange(2 ** 32))
                for r in range(reps):
                    yield J('p_fb_hist', bpp, alt, w, h, e, rng.randrange(2 ** 32), 12 if tier == 'quick' else 30, r % 2)
