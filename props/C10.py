"""C10 - Framebuffer reads back what was written, in the layout of ImageRaw  (metadata; generators live here and/or in props/C10_*.py parts)"""
CLAIMED = False   # set True by the owner once ./check C10 passes with real theorems
LEVEL = 'proof'
LEVEL_TEXT = 'TODO'
LEVEL_NOTE = 'TODO'
