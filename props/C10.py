"""C10 - Framebuffer reads back what was written, in the layout of ImageRaw."""
from common import *

CLAIMED = False
LEVEL = 'proof'
LEVEL_TEXT = 'TODO'
LEVEL_NOTE = 'TODO'
RULE = 'TODO'
TRUSTED = []
ASSUMPTIONS = []
PARTIAL = []
EXHAUSTIVE = {'quick': False, 'thorough': False}

BPPS = [1, 2, 4, 8, 16, 24, 32]
# (W, H, extra bytes): the framebuffer types instantiated in harness/src/suites/c10.rs (const generics):
# rows that end on a byte boundary for some depths and not for others, oversized buffers, zero-sized
SIZES = [(1, 1, 0), (3, 2, 0), (3, 2, 3), (7, 3, 0), (8, 2, 0), (9, 2, 0), (9, 2, 5), (13, 5, 0), (13, 5, 1),
         (16, 1, 0), (17, 3, 0), (0, 2, 0), (3, 0, 2)]


def coord(rng, m):
    k = rng.random()
    if k < 0.08:
        return -1
    if k < 0.16:
        return m
    if k < 0.24:
        return m - 1
    if k < 0.30:
        return 0
    if k < 0.36:
        return rng.choice([-2 ** 31, 2 ** 31 - 1, -70000, 70000, 256, -256, 2 ** 16, 2 ** 24 + 3])
    return rng.randrange(0, m + 1)


def value(rng, bpp):
    m = 2 ** bpp - 1
    k = rng.random()
    if k < 0.15:
        return 0
    if k < 0.3:
        return m
    if k < 0.4:
        return 0x12345678 & m
    return rng.randrange(m + 1)


def op(rng, bpp, w, h):
    k = rng.random()
    if k < 0.55:
        return 'S:%d:%d:%d' % (coord(rng, w), coord(rng, h), value(rng, bpp))
    if k < 0.8:
        n = rng.randrange(0, 6)
        return 'D:' + ';'.join('%d:%d:%d' % (coord(rng, w), coord(rng, h), value(rng, bpp)) for _ in range(n))
    if k < 0.95:
        return 'F:%d:%d:%d:%d:%d' % (rng.randrange(-3, w + 2), rng.randrange(-3, h + 2), rng.randrange(0, w + 3), rng.randrange(0, h + 3), value(rng, bpp))
    return 'C:%d' % value(rng, bpp)


def bg(rng):
    return rng.choice([(0, 0), (0, 0), (0, 255), (1, 0), (37, 11), (rng.randrange(256), rng.randrange(256))])


def cases(tier, rng):
    reps = 3 if tier == 'quick' else 20
    for bpp in BPPS:
        for alt in (0, 1):
            for (w, h, e) in SIZES:
                # every pixel set alone on a zero and on a patterned background
                for (a, b) in ((0, 0), (37, 11)):
                    yield J('fb_img', bpp, alt, w, h, e, a, b)
                    for y in range(h):
                        for x in range(w):
                            if tier != 'quick' or (x + y * w) % 3 == 0 or x == w - 1:
                                yield J('fb_hist', bpp, alt, w, h, e, a, b, 'S:%d:%d:%d' % (x, y, value(rng, bpp)))
                for _ in range(reps):
                    a, b = bg(rng)
                    yield J('fb_hist', bpp, alt, w, h, e, a, b, *[op(rng, bpp, w, h) for _ in range(rng.randrange(0, 12))])
                    a, b = bg(rng)
                    yield J('fb_img', bpp, alt, w, h, e, a, b)


def search(tier, rng):
    reps = 2 if tier == 'quick' else 12
    for bpp in BPPS:
        for alt in (0, 1):
            for (w, h, e) in SIZES:
                yield J('p_fb_each', bpp, alt, w, h, e, rng.randrange(2 ** 32))
                for r in range(reps):
                    yield J('p_fb_hist', bpp, alt, w, h, e, rng.randrange(2 ** 32), 12 if tier == 'quick' else 30, r % 2)
