"""C10 - Framebuffer reads back what was written, in the layout of ImageRaw."""
from common import *

CLAIMED = True
LEVEL = 'proof'
LEVEL_TEXT = ('Proof: Coq theorems (coq/Properties/C10.v) over the Gallina model of Framebuffer (coq/Model/Framebuffer.v: set_pixel in its '
              'three families as written - sub-byte byte/bit index and mask expression, 8-bit, multi-byte to_le/to_be_bytes by data order - '
              'draw_iter, new, as_image over data[0..BUFFER_SIZE] with ImageRaw::new / data_width / pixel reading through RawDataIterator::nth '
              'of the C11 model), for all 7 raw widths, both data orders, ALL sizes and all buffer lengths N >= BUFFER_SIZE: a new framebuffer '
              'reads the zero colour inside and None outside; set_pixel is exactly RawData::store and pixel() exactly RawData::load at index '
              'x + y * data_width (ImageRaw\'s padded row-major layout), hence set_pixel updates the point->colour map at p iff p is inside '
              'and nothing else (refinement); by induction over ANY list of set_pixel / draw_iter operations pixel(q) is the colour most recently '
              'written to q; a write outside WIDTH x HEIGHT returns the identical byte array; bytes at or beyond BUFFER_SIZE are never '
              'modified (single step and histories); as_image() never panics and is the ImageRaw of the same raw type, data order and size '
              'over the used prefix; pixel() never panics; drawing as_image() (ImageDrawable::draw with ContiguousPixels modelled as written: '
              'next / nth(row_skip) on the raw iterator) hands fill_contiguous exactly WIDTH*HEIGHT colours, colour y*WIDTH+x being pixel (x,y). The layout itself (closed forms over the bytes) is C11\'s theorems about load.')
LEVEL_NOTE = ('Trusted: Coq kernel, extraction, the OCaml/Rust drivers; the hand-written model is validated by differential testing on every '
              'run. fill_solid / fill_contiguous / clear / drawables reach the framebuffer only through the DrawTarget trait defaults and '
              'draw_iter (C03 / C01 own those); they are exercised here by the search suite against a reference map, and in the '
              'correspondence by expanding fill_solid/clear into their point lists in the model driver. "Drawing as_image() reproduces the '
              'content" is proved up to the colour stream and area handed to fill_contiguous (what a target does with it is C03; Image offset C09) '
              'and checked end-to-end on two targets by p_fb_hist.')
RULE = ('correspondence (fb_hist): all bytes of data() and pixel() over the window -1..=W x -1..=H after a history of set_pixel / draw_iter / '
        'fill_solid / clear operations (points inside, on and beyond every edge, i32 extremes) on a zero or patterned (data_mut) background, for '
        '7 raw widths x 2 data orders x 13 (W,H,extra) configurations (rows ending and not ending on a byte boundary, oversized buffers, zero '
        'width / height) incl. every single pixel set alone; (fb_img): the colour stream as_image() hands to fill_contiguous. '
        'search (implementation only): p_fb_hist = random histories incl. fill_contiguous and styled Rectangle/Circle/Line/Triangle drawables; '
        'after EVERY operation pixel(), as_image().pixel() and an ImageRaw built over data[..BUFFER_SIZE] are compared with a reference map on a '
        'window, the bytes with an independent bit-by-bit rendering of the documented layout, the oversized tail with its marker pattern; outside '
        'writes must leave all bytes identical; finally as_image() is drawn at an offset onto a draining native target and a draw_iter-only target. '
        'p_fb_each = every pixel written alone over set_pixel-written and raw random backgrounds: reads back, no other pixel changes, no bit '
        'outside the pixel\'s bits in the documented layout changes (padding bits and tail included).')
EXHAUSTIVE = {'quick': False, 'thorough': False}
TRUSTED = ['modelled, not verified: colours are identified with their raw values (C::from(raw) / c.into() are property C12); const-generic '
           'WIDTH/HEIGHT/N as ordinary values; usize::try_from(i32) as a sign test; slice indexing / copy_from_slice as list operations']
ASSUMPTIONS = ['0 <= WIDTH, HEIGHT <= i32::MAX (the `as u32` / `as i32` casts in as_image()/pixel() are exact), N >= BUFFER_SIZE (CHECK_N), '
               '8 * N <= usize::MAX, colours are raw values < 2^bits; fb_oob_noop needs no assumption']
PARTIAL = []
# Mutations tried (scratch worktree, EG_REPO=...), all VIOLATION with a failing input unless noted:
#   framebuffer.rs: sub-byte bit index ignoring the data order (= original defect c); bytes_per_row (+6)/8; x <= WIDTH bound (sub-byte);
#   y bound dropped (8 bit); mask not clearing old bits; BigEndianLsb0 impl using to_le_bytes; 8-bit index x*HEIGHT+y;
#   multi-byte index y*W*BYTES + x; as_image over the whole oversized array
#   image_raw.rs: data_width without row padding; pixel() x bound off by one
#   NOT caught, not observable here: ContiguousPixels remaining_y = height (original defect d): when the WHOLE image is drawn the raw
#   iterator is exhausted after the last row, so no surplus colour appears (the defect needs a sub-image; it is C09's).

BPPS = [1, 2, 4, 8, 16, 24, 32]
# (W, H, extra bytes): the framebuffer types instantiated in harness/src/suites/c10.rs (const generics):
# rows that end on a byte boundary for some depths and not for others, oversized buffers, zero-sized
SIZES = [(1, 1, 0), (3, 2, 0), (3, 2, 3), (7, 3, 0), (8, 2, 0), (9, 2, 0), (9, 2, 5), (13, 5, 0), (13, 5, 1),
         (16, 1, 0), (17, 3, 0), (0, 2, 0), (3, 0, 2)]


def coord(rng, m):
    k = rng.random()
    if k < 0.08:
        return -1
    if k < 0.16:
        return m
    if k < 0.24:
        return m - 1
    if k < 0.30:
        return 0
    if k < 0.36:
        return rng.choice([-2 ** 31, 2 ** 31 - 1, -70000, 70000, 256, -256, 2 ** 16, 2 ** 24 + 3])
    return rng.randrange(0, m + 1)


def value(rng, bpp):
    m = 2 ** bpp - 1
    k = rng.random()
    if k < 0.15:
        return 0
    if k < 0.3:
        return m
    if k < 0.4:
        return 0x12345678 & m
    return rng.randrange(m + 1)


def op(rng, bpp, w, h):
    k = rng.random()
    if k < 0.55:
        return 'S:%d:%d:%d' % (coord(rng, w), coord(rng, h), value(rng, bpp))
    if k < 0.8:
        n = rng.randrange(0, 6)
        return 'D:' + ';'.join('%d:%d:%d' % (coord(rng, w), coord(rng, h), value(rng, bpp)) for _ in range(n))
    if k < 0.88:
        # now and then an area far outside / at the i32 limits (Rectangle::points must not be confused by it)
        if rng.random() < 0.1:
            return 'F:%d:%d:%d:%d:%d' % (rng.choice([-2 ** 31, 2 ** 31 - 3, -70000, 65536]), rng.randrange(-3, h + 2), rng.randrange(0, 3), rng.randrange(0, h + 3), value(rng, bpp))
        return 'F:%d:%d:%d:%d:%d' % (rng.randrange(-3, w + 2), rng.randrange(-3, h + 2), rng.randrange(0, w + 3), rng.randrange(0, h + 3), value(rng, bpp))
    if k < 0.95:
        aw, ah = rng.randrange(0, w + 3), rng.randrange(0, h + 3)
        n = aw * ah
        n = rng.choice([n, n, n, max(0, n - rng.randrange(1, 4)), n + rng.randrange(1, 4), 0])
        return 'G:%d:%d:%d:%d/%s' % (rng.randrange(-3, w + 2), rng.randrange(-3, h + 2), aw, ah, ','.join(str(value(rng, bpp)) for _ in range(n)))
    return 'C:%d' % value(rng, bpp)


def bg(rng):
    return rng.choice([(0, 0), (0, 0), (0, 255), (1, 0), (37, 11), (rng.randrange(256), rng.randrange(256))])


def cases(tier, rng):
    reps = 3 if tier == 'quick' else 20
    for bpp in BPPS:
        for alt in (0, 1):
            for (w, h, e) in SIZES:
                # every pixel set alone on a zero and on a patterned background
                for (a, b) in ((0, 0), (37, 11)):
                    yield J('fb_img', bpp, alt, w, h, e, a, b)
                    for y in range(h):
                        for x in range(w):
                            if tier != 'quick' or (x + y * w) % 3 == 0 or x == w - 1:
                                yield J('fb_hist', bpp, alt, w, h, e, a, b, 'S:%d:%d:%d' % (x, y, value(rng, bpp)))
                for _ in range(reps):
                    a, b = bg(rng)
                    yield J('fb_hist', bpp, alt, w, h, e, a, b, *[op(rng, bpp, w, h) for _ in range(rng.randrange(0, 12))])
                    a, b = bg(rng)
                    yield J('fb_img', bpp, alt, w, h, e, a, b)


def search(tier, rng):
    reps = 2 if tier == 'quick' else 12
    for bpp in BPPS:
        for alt in (0, 1):
            for (w, h, e) in SIZES:
                yield J('p_fb_each', bpp, alt, w, h, e, rng.randrange(2 ** 32))
                for r in range(reps):
                    yield J('p_fb_hist', bpp, alt, w, h, e, rng.randrange(2 ** 32), 12 if tier == 'quick' else 30, r % 2)
