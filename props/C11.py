"""C11 - Raw pixel load/store and iteration round-trip in both data orders  (metadata; generators live here and/or in props/C11_*.py parts)"""
CLAIMED = False   # set True by the owner once ./check C11 passes with real theorems
LEVEL = 'proof'
LEVEL_TEXT = 'TODO'
LEVEL_NOTE = 'TODO'
