"""C11 - Raw pixel load/store and iteration round-trip in both data orders."""
from common import *

CLAIMED = True
LEVEL = 'proof'
LEVEL_TEXT = ('Proof: 26 Coq theorems (coq/Properties/C11.v), for every usize width (the model is parameterised by the class Usize, usize::MAX >= 65535; '
              'instances usize16/usize32/usize64), over the Gallina model of RawData::load/store for RawU1..RawU32 in both '
              'data orders and of RawDataIterator (coq/Model/Rawdata.v: bit_position, shift/mask expressions as written with u8 truncation, '
              'from/to_le/be_bytes, index.checked_mul(N), saturating nth, size_hint): store-then-load returns the value; every other '
              'pixel index loads the same value and every bit outside pixel i keeps its value (bit-level frame, with disjointness and '
              'coverage of the per-pixel bit sets); an index at or beyond the pixel count - ANY usize, also one whose byte offset leaves '
              'usize - gives None / Err and an unchanged buffer; load equals the documented layout as a closed form over the bytes '
              '(MSB-first / LSB-first sub-byte pixels, little / big endian bytes); the iterator yields exactly load(0), load(1), ...; '
              'nth(n) returns item n of the remainder and continues behind it (also when index+n saturates); size_hint equals the number '
              'of remaining items; any mix of next()/nth(k) behaves like the same calls on the item list. The single-byte facts are '
              'decided by vm_compute over the whole finite domain (3 widths x 2 orders x positions x 256 bytes x all values) and lifted to '
              'buffers by list lemmas. raw_ok (v < 2^bits) is closed: new/from_u32 mask into it and load returns it (C11_new_is_raw, C11_load_is_raw), so any '
              'u32 handed over through from_u32 round-trips to its masked value. C11_raw_load_eq_load bridges to the raw load of the C09 image model. '
              'The model is tied to the code by running the extracted model (usize64 instance) and the real functions on the same inputs.')
LEVEL_NOTE = ('Trusted: Coq kernel, extraction (ExtrOcamlBasic), the OCaml/Rust drivers; the hand-written model is validated by differential '
              'testing on every run, not proved equal to the Rust source. The dynamic tie runs on the 64-bit harness target only; the 16- and 32-bit '
              'instances are covered by the theorems and by the same source text.')
RULE = ('correspondence: load, store (the value from_u32 built - observes the mask of every raw type incl. RawU24 -, result, all bytes afterwards, load after store; '
        'one unmasked u32 per index), rd_big / rd_big_nth: single load / store / nth with neighbours and the list of changed bytes on rule-generated '
        'buffers of 300..140000 bytes at indices around 2^8 and 2^16 and around the end, the collected iterator with its initial size_hint, and '
        'random mixes of next()/nth(k) with size_hint after every call, for 7 raw widths x 2 data orders x every buffer length 0..=L (L=6 quick, 10 '
        'thorough) x 4 background byte patterns x every index 0..=pixels+1 plus indices on both sides of usize::MAX / bytes_per_pixel and around 2^8, 2^16, 2^24, 2^32; '
        'plus random buffers up to 40 bytes. Non-trivial = the model result is not none/empty. '
        'search (implementation only, against an independent bit-by-bit reference of the documented layout): p_rd_store = for every value '
        '(exhaustive up to 8 bpp, up to 16 bpp on selected cases, boundary+random above) store at every index, compare all bytes with the reference, '
        'load back, and re-load every pixel index; p_rd_iter = item list vs load vs reference, size_hint at every position, huge nth skips at '
        'every small position, random next/nth mixes; p_rd_far = load/store/nth at indices far beyond the buffer incl. offset-overflowing ones.')
EXHAUSTIVE = {'quick': False, 'thorough': False}
TRUSTED = ['modelled, not verified: u8 shifts/masks as Z.shiftl/Z.shiftr/Z.land/Z.lor with explicit 8-bit truncation; slice::get / get_mut / '
           'copy_from_slice as list operations; Option/Result combinators (map, and_then, ok_or, inspect) by their meaning']
ASSUMPTIONS = ['buffer elements are bytes (bytes_ok) and 8 * len <= usize::MAX (len_ok: every slice below 2 EiB), so the unbounded `index + 1` of '
               'next() and `len * (8 / bpp)` of size_hint coincide with usize arithmetic; stored values are < 2^bits (always true for RawUx values); '
               'the out-of-range theorems need no assumption']
PARTIAL = []
# Mutations tried against the suites (scratch worktree of /repo, EG_REPO=...): all reported VIOLATION with a failing input:
#   bit_position: clamp of the in-byte position; data-order condition inverted
#   sub-byte store without clearing the old bits (`*byte | v << k`)
#   RawU16 load: from_be/from_le swapped;  RawU24 big-endian store takes bytes[0..3] instead of bytes[1..4]
#   RawU24 store with stride 4 (checked_mul(4));  RawU32 load with wrapping_mul instead of checked_mul
#   RawU8 store with a clamped index (writes the last byte instead of Err)
#   iterator: nth with wrapping_add (first only seen by correspondence -> p_rd_iter got the huge-skip section), size_hint branches
#   swapped (= original defect b), size_hint ignoring the index
# round 2: RawU24 MASK = u32::MAX; index truncated to u16 in bit_position; byte offset truncated to u16 in RawU16 load; index truncated to u8
#   in RawU8 load; seeded C11-A (keep mask `!MASK << k`) and C11-B (nth not consuming past the end): all VIOLATION with a failing input
# Not distinguishable by any observation (benign): `>= 8` -> `> 8` in size_hint (8 bpp gives len either way).

BPPS = [1, 2, 4, 8, 16, 24, 32]
USIZE_MAX = 2 ** 64 - 1


def total(bpp, n):
    return n * 8 // bpp


def backgrounds(rng, n):
    """several background byte patterns of length n"""
    yield [0] * n
    yield [255] * n
    yield [(0xAA if i % 2 == 0 else 0x55) for i in range(n)]
    yield [rng.randrange(256) for _ in range(n)]


def some_values(rng, bpp, k):
    m = 2 ** bpp - 1
    vs = [0, m, 1, m >> 1, (m >> 1) + 1, 0x1234 & m, 0x123456 & m, 0x12345678 & m]
    out = [rng.choice(vs) for _ in range(k)]
    out.append(rng.randrange(m + 1))
    # from_u32 masks: always hand over one unmasked u32 with the bits above the pixel width set
    # (rd_store prints the value from_u32 built, so the mask of every type incl. RawU24 is observed)
    out.append(rng.choice([0xFFFFFFFF, 0xFF123456, 0x80000000 | rng.randrange(2 ** 31), rng.randrange(2 ** 32) | 0xFF000000]))
    return out


def far_indices(bpp):
    n = max(1, bpp // 8)
    # far beyond the buffer, on both sides of the checked_mul boundary (index * bytes_per_pixel = usize::MAX)
    # ... and around 2^8, 2^16, 2^24 (a truncated index or byte offset would land back inside a small buffer)
    small = [255, 256, 257, 65535, 65536, 65537, 2 ** 16 // n, 2 ** 16 // n + 1, 2 ** 24, 2 ** 24 + 1, 2 ** 32 // n, 2 ** 32 // n + 1]
    return [i for i in [USIZE_MAX // n, USIZE_MAX // n - 1, USIZE_MAX // n + 1, 2 ** 63 // n, 2 ** 32, 2 ** 32 + 1] + OVERFLOWING + small
            if i <= USIZE_MAX]


# indices whose product with 2, 3 or 4 bytes per pixel leaves usize: `index.checked_mul(N)` must reject them
# (before repair b0f500f the product wrapped: load(buf, 2^63) returned pixel 0)
OVERFLOWING = [USIZE_MAX, 2 ** 63, 2 ** 63 + 1, 2 ** 62 + 1, USIZE_MAX // 3 + 2]


def ops(rng, bpp, tot, k):
    """a mix of next (N) and nth (T<k>); huge skips: saturating add and checked_mul on both sides of their limits"""
    out = []
    nb = max(1, bpp // 8)
    huge_left = 99
    for _ in range(k):
        r = rng.random()
        if r < 0.35:
            out.append('N')
        elif r < 0.5:
            out.append('T0')
        elif r < 0.6:
            out.append('T%d' % tot)
        elif r < 0.64 and huge_left:
            huge_left -= 1
            out.append('T%d' % rng.choice([USIZE_MAX // nb - 4096, 2 ** 63 // nb - 4096, 2 ** 40,
                                           USIZE_MAX, USIZE_MAX - 1, 2 ** 63, min(USIZE_MAX, USIZE_MAX // nb + 1), 2 ** 63 // nb]))
        else:
            out.append('T%d' % rng.randrange(0, tot // 3 + 2))
    return out


def cases(tier, rng):
    L = 6 if tier == 'quick' else 10
    reps = 1 if tier == 'quick' else 3
    for bpp in BPPS:
        for alt in (0, 1):
            for n in range(0, L + 1):
                tot = total(bpp, n)
                for bg in backgrounds(rng, n):
                    yield J('rd_iter', bpp, alt, *bg)
                    for idx in list(range(0, tot + 2)) + rng.sample(far_indices(bpp), 3):
                        yield J('rd_load', bpp, alt, idx, *bg)
                        for v in some_values(rng, bpp, reps):
                            yield J('rd_store', bpp, alt, idx, v, *bg)
                    for _ in range(2 * reps):
                        yield J('rd_ops', bpp, alt, n, *bg, *ops(rng, bpp, tot, rng.randrange(1, 9)))
    # large buffers (given by a rule, not byte by byte): single load / store / nth at indices beyond 2^8 and 2^16,
    # where a truncated index or byte offset would address a different pixel
    for bpp in BPPS:
        nb = max(1, bpp // 8)
        for alt in (0, 1):
            for length in ([300, 70000] if tier == 'quick' else [300, 8200, 70000, 140000]):
                tot = total(bpp, length)
                idxs = {1, tot - 1, tot, tot + 1, tot // 2}
                for base in (256, 65536, 65536 // nb, 256 // nb, 65536 * nb, 65536 // max(1, 8 // bpp)):
                    for d in (-1, 0, 1, 7):
                        idxs.add(base + d)
                idxs = sorted(i for i in idxs if i >= 1)
                if tier == 'quick' and length > 300:
                    idxs = [i for k, i in enumerate(idxs) if k % 2 == 0 or i >= tot - 1]
                for idx in idxs:
                    yield J('rd_big', bpp, alt, length, rng.choice([1, 3, 7, 37]), rng.randrange(256), idx, rng.randrange(2 ** 32))
                for _ in range(2):
                    k1 = rng.choice([255, 256, 65535, 65536, tot - 2, tot // 2, rng.randrange(0, tot + 2)])
                    yield J('rd_big_nth', bpp, alt, length, rng.choice([1, 3, 7, 37]), rng.randrange(256), k1,
                            rng.choice([0, 1, 255, 256, 65535, 65536, tot, rng.randrange(0, tot + 2)]))
    # longer random buffers
    for _ in range(300 if tier == 'quick' else 3000):
        bpp, alt, n = rng.choice(BPPS), rng.randrange(2), rng.randrange(0, 40)
        bg = [rng.randrange(256) for _ in range(n)]
        tot = total(bpp, n)
        yield J('rd_iter', bpp, alt, *bg)
        yield J('rd_ops', bpp, alt, n, *bg, *ops(rng, bpp, tot, rng.randrange(1, 16)))
        idx = rng.randrange(0, tot + 3)
        yield J('rd_store', bpp, alt, idx, rng.randrange(2 ** bpp), *bg)


def search(tier, rng):
    L = 5 if tier == 'quick' else 9
    for bpp in BPPS:
        for alt in (0, 1):
            for n in range(0, L + 1):
                tot = total(bpp, n)
                for k, bg in enumerate(backgrounds(rng, n)):
                    yield J('p_rd_iter', bpp, alt, rng.randrange(2 ** 32), 12, *bg)
                    if k == 3:
                        for idx in far_indices(bpp):
                            yield J('p_rd_far', bpp, alt, idx, *bg)
                    for idx in list(range(0, tot + 2)) + far_indices(bpp)[:2]:
                        # exhaustive in the value up to 8 bpp always; up to 16 bpp for one background (all in thorough)
                        mode = 1 if (bpp == 16 and (tier != 'quick' or (k == 3 and n <= 3))) or (bpp > 16 and tier != 'quick' and k == 3) else 0
                        yield J('p_rd_store', bpp, alt, idx, mode, rng.randrange(2 ** 32), *bg)
    for _ in range(200 if tier == 'quick' else 3000):
        bpp, alt, n = rng.choice(BPPS), rng.randrange(2), rng.randrange(0, 48)
        bg = [rng.randrange(256) for _ in range(n)]
        yield J('p_rd_iter', bpp, alt, rng.randrange(2 ** 32), 24, *bg)
        yield J('p_rd_store', bpp, alt, rng.randrange(0, total(bpp, n) + 3), 0, rng.randrange(2 ** 32), *bg)
