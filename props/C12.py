"""C12 - Colours survive the trip through their raw representation  (metadata; generators live here and/or in props/C12_*.py parts)"""
CLAIMED = False   # set True by the owner once ./check C12 passes with real theorems
LEVEL = 'proof'
LEVEL_TEXT = 'TODO'
LEVEL_NOTE = 'TODO'
