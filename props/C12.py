"""C12 - Colours survive the trip through their raw representation."""
from common import *
import colorgen

CLAIMED = False   # set True by the owner once ./check C12 passes with real theorems
LEVEL = 'proof'
LEVEL_TEXT = 'TODO'
LEVEL_NOTE = 'TODO'
RULE = ('correspondence (extracted model vs real library, per colour type of the generated table): col_info = BITS_PER_PIXEL, storage bits, '
        'byte count, MAX_R/G/B or max luma, BLACK/WHITE of the running library against the GENERATED table; col_raw = for a storage value v: '
        'Color::from(Raw::new(v)) -> channels, Raw::from(c), into_storage, to_be_bytes, to_le_bytes: ALL storage values for u8/u16 storage, '
        'one 255-value progression (stride 257, random offset) in each of the 256 strata of 2^16 for 24-bit types plus values with bits 24..31 set; '
        'col_new = new() with one u8 argument sweeping 0..255 and the other two from edge/random values. '
        'search: p_raw / p_new evaluate the property predicates against the documented layout on the implementation, all 2^24 raw values and all '
        '2^24 (r,g,b) argument triples of every type. Non-trivial = result line not empty; distinct = distinct case lines.')
EXHAUSTIVE = {'quick': False, 'thorough': False}
ASSUMPTIONS = []
TRUSTED = []
PARTIAL = []

EDGE8 = [0, 1, 2, 3, 7, 8, 15, 16, 31, 32, 63, 64, 127, 128, 129, 254, 255]


def cases(tier, rng):
    types, _ = colorgen.load()
    names = [t[0] for t in types]
    for n in names + [f[0] for f in colorgen.FALLBACK_TYPES if f[0] not in names]:
        yield J('col_info', n)
    for name, kind, sbits, bpp in types:
        if sbits <= 16:
            total = 2 ** sbits
            for s in range(0, total, 256):
                yield J('col_raw', name, s, 256, 1)
        else:
            reps = 1 if tier == 'quick' else 8
            for _ in range(reps):
                for k in range(2 ** bpp // 65536):
                    yield J('col_raw', name, k * 65536 + rng.randrange(256), 255, 257)
            # values with unused storage bits (above BITS_PER_PIXEL) set
            for _ in range(16 * reps):
                yield J('col_raw', name, rng.randrange(2 ** bpp, 2 ** sbits - 255 * 65537), 255, rng.choice([1, 257, 65537]))
            yield J('col_raw', name, 2 ** sbits - 256, 256, 1)
            yield J('col_raw', name, 0, 256, 1)
            yield J('col_raw', name, 2 ** bpp - 256, 256, 1)
        if kind == 'rgb':
            n = 8 if tier == 'quick' else 64
            for axis in range(3):
                yield J('col_new', name, axis, 0, 0)
                yield J('col_new', name, axis, 255, 255)
                for _ in range(n):
                    yield J('col_new', name, axis, rng.choice([rng.choice(EDGE8), rng.randrange(256)]),
                            rng.choice([rng.choice(EDGE8), rng.randrange(256)]))
        else:
            yield J('col_new', name, 0, 0, 0)


def search(tier, rng):
    types, _ = colorgen.load()
    for name, kind, sbits, bpp in types:
        # every raw value (through Raw::new of every storage value for u8/u16 storage)
        if sbits <= 16:
            yield J('p_raw', name, 0, 2 ** sbits, 1)
        else:
            for k in range(16):
                yield J('p_raw', name, k * 2 ** 20, 2 ** 20, 1)
            for _ in range(16):
                yield J('p_raw', name, rng.randrange(2 ** bpp, 2 ** sbits - 65536 * 4099), 65536, rng.choice([1, 257, 4099]))
            yield J('p_raw', name, 2 ** sbits - 65536, 65536, 1)
        # every argument triple of new()
        if kind == 'rgb':
            for k in range(16):
                yield J('p_new', name, k * 16, k * 16 + 16)
        else:
            yield J('p_new', name, 0, 256)
