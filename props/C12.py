"""C12 - Colours survive the trip through their raw representation."""
from common import *
import colorgen

CLAIMED = True
LEVEL = 'proof'
LEVEL_TEXT = ('Proof: 15 Coq theorems, each quantified over every row of the colour table that translate/gen_colors.py regenerates '
              'from core/src/pixelcolor/*.rs on every run (14 types: BinaryColor, Gray2/4/8, 10 RGB/BGR types; their raw types, '
              'storage widths, channel widths, the Rgb/Bgr position arms of the macro, byte slices) and over ALL integer values: '
              'colour->raw->colour is the identity, the raw value fits BITS_PER_PIXEL, raw->colour->raw equals `v & ones(used bits)` '
              'for every storage value v and is idempotent, new(r,g,b) keeps each channel modulo 2^width and r()/g()/b()/luma() '
              'return it, a colour is determined by its channels, RGB types have red in the most significant used bits and BGR types '
              'blue (to_raw(new(r,g,b)) as an explicit sum, accessors as div/mod), the type name states the format (Rgb565 = 5/6/5), '
              'into_storage / to_be_bytes / to_le_bytes denote the same number with ceil(bpp/8) bytes, each element a byte, le = rev be, BinaryColor Off/On <-> 0/1, '
              'the eight named RgbColor constants have the channels their names say. '
              'The macro bodies are transcribed once, generically (coq/Model/Colormodel.v); the proofs are general bit-field '
              'arithmetic for any well-formed row, and well-formedness of the regenerated rows is decided by vm_compute. '
              'The generic transcription is tied to the code by the translator\'s whole-item shape checks (every macro item the model '
              'transcribes, incl. the complete body of new(), must match literally; otherwise the translator fails and poisons the tables) and by running the extracted model against the real library on all values of the 8/16-bit types and '
              'stratified values of the 24-bit types.')
LEVEL_NOTE = ('Trusted: Coq kernel incl. vm_compute, the regex translator (reads macro rows and literal bodies; unit tests and comments '
              'are stripped), extraction, the OCaml/Rust drivers. Rust integer semantics (`as u8`, shifts, `&`, `|` on u8/u16/u32) is '
              'modelled by Z operations, not verified; the correspondence suites and the exhaustive p_raw/p_new search '
              '(all 2^24 raw values and all 2^24 new() argument triples per type, against a layout table written independently in the '
              'harness) bound that gap.')
RULE = ('correspondence (extracted model vs real library, per colour type of the generated table): col_info = BITS_PER_PIXEL, storage bits, '
        'byte count, MAX_R/G/B or max luma, BLACK/WHITE of the running library against the GENERATED table; col_raw = for a storage value v: '
        'Color::from(Raw::new(v)) -> channels, Raw::from(c), into_storage, to_be_bytes, to_le_bytes: ALL storage values for u8/u16 storage, '
        'one 255-value progression (stride 257, random offset) in each of the 256 strata of 2^16 for 24-bit types plus values with bits 24..31 set; '
        'col_new = new() with one u8 argument sweeping 0..255 and the other two from edge/random values; named = the 8 named RgbColor constants. '
        'col_info also compares Default::default() with the model value 0. search: p_binary = BinaryColor invert/is_on/is_off/From<bool>/Default; '
        'p_raw also asserts to_ne_bytes == to_le_bytes == reverse(to_be_bytes) on this little-endian host, p_new asserts Default == BLACK; p_raw / p_new evaluate the property predicates against the documented layout on the implementation, all 2^24 raw values and all '
        '2^24 (r,g,b) argument triples of every type. Non-trivial = result line not empty; distinct = distinct case lines.')
EXHAUSTIVE = {'quick': False, 'thorough': False}
ASSUMPTIONS = ['a colour value of type t is an integer 0 <= c < 2^(used bits of t); the theorems C12_from_raw_valid / C12_new_channels / '
               'C12_gray_new show that every public constructor yields such a value']
TRUSTED = ['modelled, not verified: u8/u16/u32 shifts, masks and `as` casts as Z.shiftl/Z.shiftr/Z.land/Z.lor/mod 256',
           'translate/gen_colors.py: regex reading of rgb_color!/gray_color!/impl_raw_data!/impl_to_bytes! rows, the Rgb/Bgr position arms, '
           'literal constants; literal shape checks of the macro bodies that Model/Colormodel.v transcribes']
PARTIAL = []

EDGE8 = [0, 1, 2, 3, 7, 8, 15, 16, 31, 32, 63, 64, 127, 128, 129, 254, 255]


def cases(tier, rng):
    types, _ = colorgen.load()
    names = [t[0] for t in types]
    for n in names + [f[0] for f in colorgen.FALLBACK_TYPES if f[0] not in names]:
        yield J('col_info', n)
    for name, kind, sbits, bpp in types:
        if sbits <= 16:
            total = 2 ** sbits
            for s in range(0, total, 256):
                yield J('col_raw', name, s, 256, 1)
        else:
            reps = 1 if tier == 'quick' else 8
            for _ in range(reps):
                for k in range(2 ** bpp // 65536):
                    yield J('col_raw', name, k * 65536 + rng.randrange(256), 255, 257)
            # values with unused storage bits (above BITS_PER_PIXEL) set
            for _ in range(16 * reps):
                yield J('col_raw', name, rng.randrange(2 ** bpp, 2 ** sbits - 255 * 65537), 255, rng.choice([1, 257, 65537]))
            yield J('col_raw', name, 2 ** sbits - 256, 256, 1)
            yield J('col_raw', name, 0, 256, 1)
            yield J('col_raw', name, 2 ** bpp - 256, 256, 1)
        if kind == 'rgb':
            yield J('named', name)
            n = 8 if tier == 'quick' else 64
            for axis in range(3):
                yield J('col_new', name, axis, 0, 0)
                yield J('col_new', name, axis, 255, 255)
                for _ in range(n):
                    yield J('col_new', name, axis, rng.choice([rng.choice(EDGE8), rng.randrange(256)]),
                            rng.choice([rng.choice(EDGE8), rng.randrange(256)]))
        else:
            yield J('col_new', name, 0, 0, 0)


def search(tier, rng):
    types, _ = colorgen.load()
    yield J('p_binary')      # BinaryColor::invert / is_on / is_off / From<bool> / Default
    for name, kind, sbits, bpp in types:
        # every raw value (through Raw::new of every storage value for u8/u16 storage)
        if sbits <= 16:
            yield J('p_raw', name, 0, 2 ** sbits, 1)
        else:
            for k in range(16):
                yield J('p_raw', name, k * 2 ** 20, 2 ** 20, 1)
            for _ in range(16):
                yield J('p_raw', name, rng.randrange(2 ** bpp, 2 ** sbits - 65536 * 4099), 65536, rng.choice([1, 257, 4099]))
            yield J('p_raw', name, 2 ** sbits - 65536, 65536, 1)
        # every argument triple of new()
        if kind == 'rgb':
            yield J('p_named', name)
            for k in range(16):
                yield J('p_new', name, k * 16, k * 16 + 16)
        else:
            yield J('p_new', name, 0, 256)
