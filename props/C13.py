"""C13 - Colour conversions scale to the nearest value and preserve the extremes."""
from common import *
import colorgen

CLAIMED = False
LEVEL = 'proof'
LEVEL_TEXT = 'TODO'
LEVEL_NOTE = 'TODO'
RULE = ('correspondence (extracted model vs real library): conv A B = storage of B::from(A::from(Raw::new(v))) for EVERY ordered pair of the 14 colour '
        'types of the generated table (the 182 provided From impls + the reflexive one) on storage values v: all values for 8-bit storage, '
        'arithmetic progressions (random start, stride in {1, 257, 4099, 65537}) covering 2^13 (quick) / 2^16 (thorough) values per pair for '
        '16/32-bit storage, plus the first and last 256 storage values. search: p_conv A B evaluates the property on the implementation against '
        'exact integer rounding (no reciprocal): black/white, every channel nearest (rgb->rgb, gray->gray, gray->rgb), rgb->gray = documented '
        '8-bit luma of the 8-bit scaled channels scaled to the target + monotone in every channel, widen-then-narrow identity, '
        'gray/rgb -> binary upper half, binary -> black/white; for every pair over ALL source values (2^24 for the 24-bit types). '
        'Non-trivial = result line not empty; distinct = distinct case lines.')
EXHAUSTIVE = {'quick': False, 'thorough': False}
ASSUMPTIONS = []
TRUSTED = []
PARTIAL = []


def cases(tier, rng):
    types, _ = colorgen.load()
    info = {t[0]: t for t in types}
    per_pair = 2 ** 13 if tier == 'quick' else 2 ** 16
    for a in info:
        _, kind, sbits, bpp = info[a]
        for b in info:
            if sbits <= 8:
                yield J('conv', a, b, 0, 256, 1)
                continue
            total = 2 ** sbits
            yield J('conv', a, b, 0, 256, 1)
            yield J('conv', a, b, 2 ** bpp - 256, 256, 1)
            if sbits > bpp:
                yield J('conv', a, b, total - 256, 256, 1)
            n = per_pair // 256
            for k in range(n):
                stride = rng.choice([1, 257, 4099, 65537]) if bpp > 16 else rng.choice([1, 3, 17, 255])
                span = 255 * stride
                # stratified start: the k-th of n equal strata of the value space
                lo = (2 ** bpp) * k // n
                hi = max(lo + 1, min((2 ** bpp) * (k + 1) // n, total - span))
                start = rng.randrange(lo, hi) if lo < hi and lo + span < total else rng.randrange(0, total - span)
                yield J('conv', a, b, start, 256, stride)


def search(tier, rng):
    types, _ = colorgen.load()
    info = {t[0]: t for t in types}
    for a in info:
        _, kind, sbits, bpp = info[a]
        for b in info:
            if a == b:
                continue
            if sbits <= 16:
                yield J('p_conv', a, b, 0, 2 ** sbits, 1)
            else:
                # every colour value (2^bpp), in 16 chunks; plus storage values with the unused top byte set
                for k in range(16):
                    yield J('p_conv', a, b, k * 2 ** (bpp - 4), 2 ** (bpp - 4), 1)
                yield J('p_conv', a, b, 2 ** sbits - 2 ** 16, 2 ** 16, 1)
                yield J('p_conv', a, b, rng.randrange(2 ** bpp, 2 ** sbits - 2 ** 16 * 4099), 2 ** 16, 4099)
