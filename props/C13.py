"""C13 - Colour conversions scale to the nearest value and preserve the extremes."""
from common import *
import colorgen

CLAIMED = True
LEVEL = 'proof'
LEVEL_TEXT = ('Proof: 39 Coq theorems. convert_channel is modelled exactly as written (24-bit reciprocal, constants regenerated from '
              'conversion.rs): for all 64 (from bits, to bits) pairs in 1..8 and every value it returns the representable value nearest to '
              'the exactly scaled one (2*|r*from_max - v*to_max| <= from_max), is monotone, maps 0 to 0 and max to max, widen-then-narrow is '
              'the identity, and no intermediate leaves u32 (decided by vm_compute; monotonicity derived). Whole colours, quantified over the '
              'GENERATED list of all 182 provided From impls (= every ordered pair of the 14 types) and all source values: every conversion '
              'maps black to black and white to white; RGB->RGB, Gray->Gray and Gray->RGB give in every channel the nearest value, '
              'monotonically, each output channel depending on the same input channel only; equal depths (RGB<->BGR) keep all channels; '
              'converting to a type with at least as many bits per channel and back is the identity; Gray->RGB->Gray is the identity when '
              'every RGB channel has at least as many bits; luma of a gray Rgb888 is that gray, luma is monotone, weights sum to 256 without '
              'u16 overflow; RGB->Gray equals the 8-bit luma of the 8-bit-scaled channels scaled to the target (double rounding, as coded) '
              'and is monotone in every channel; Gray->BinaryColor is On exactly for luma >= 2^(bits-1), RGB->BinaryColor exactly for '
              '8-bit luma >= 128; BinaryColor->X gives BLACK/WHITE. The macro bodies are transcribed once in coq/Model/Colormodel.v and tied '
              'to the code by the translator (fails closed on any change of a macro body) and by running the extracted model against the '
              'real From impls for all 196 type pairs.')
LEVEL_NOTE = ('"Nearest" (half a target step) is FALSE for the 30 RGB->Gray conversions, which round twice (machine-checked witness '
              'C13_rgb_gray_nearest_refuted, see notes/findings/FINDINGS-C13.md and PARTIAL); for them the theorems give the computed formula, nearest of '
              'the second stage, an end-to-end bound of 1/2 + max_luma/255 steps against exact arithmetic, extremes and monotonicity. '
              'The luma weights and all other literals read by the translator are pinned to their documented values '
              '(C13_luma_is_bt601, C13_constants_pinned). Trusted: Coq kernel incl. vm_compute, the regex '
              'translator, extraction, the drivers; u8/u16/u32 arithmetic is modelled in Z with the no-overflow facts proved '
              '(C13_channel_no_overflow, C13_luma_weights). The Rust-side search p_conv checks the property itself against exact integer '
              'rounding on every source value of every pair (2^24 values for the 24-bit types).')
RULE = ('correspondence (extracted model vs real library): conv A B = storage of B::from(A::from(Raw::new(v))) for EVERY ordered pair of the 14 colour '
        'types of the generated table (the 182 provided From impls + the reflexive one) on storage values v: all values for 8-bit storage, '
        'arithmetic progressions (random start, stride in {1, 257, 4099, 65537}) covering 2^13 (quick) / 2^16 (thorough) values per pair for '
        '16/32-bit storage, plus the first and last 256 storage values. search: p_conv A B evaluates the property on the implementation against '
        'exact integer rounding (no reciprocal): black/white, every channel nearest (rgb->rgb, gray->gray, gray->rgb), rgb->gray = documented '
        '8-bit luma formula AND the end-to-end error bound against exact rational luma, '
        '8-bit luma of the 8-bit scaled channels scaled to the target + monotone in every channel, widen-then-narrow identity, '
        'gray/rgb -> binary upper half, binary -> black/white; for every pair over ALL source values (2^24 for the 24-bit types). '
        'web T = storage of all 141 CSS constants of T (p_web: against the CSS values scaled to nearest). '
        'Non-trivial = result line not empty; distinct = distinct case lines.')
EXHAUSTIVE = {'quick': False, 'thorough': False}
ASSUMPTIONS = ['a colour value of type t is an integer 0 <= c < 2^(used bits of t) (C12 shows every constructor yields one)']
TRUSTED = ['modelled, not verified: u8/u16/u32 `*`, `/`, `<<`, `>>`, `as` as Z operations (no-overflow facts are theorems)',
           'translate/gen_colors.py: regex reading of the impl_*conversion!/impl_*binary! rows and of the literal constants; literal shape '
           'checks of convert_channel, luma and the seven conversion macro bodies that Model/Colormodel.v transcribes']
PARTIAL = ['C13_rgb_gray_error_bound_partial: the clause "each channel nearest, error at most half a step of the target" for the 30 RGB->Gray '
           'conversions. The code rounds twice (channels to 8 bit, 8 bit luma to the target), so the full clause is FALSE on the code '
           '(C13_rgb_gray_nearest_refuted: Rgb565(7,11,20) -> Gray8 = 63, exact 62.04); proved instead: second stage nearest '
           '(C13_rgb_gray_second_stage_nearest), end-to-end error <= 1/2 + max_luma/255 target steps, <= 1 step for Gray8, extremes, monotone']


def cases(tier, rng):
    types, _ = colorgen.load()
    info = {t[0]: t for t in types}
    for a in info:
        yield J('web', a)       # all CSS constants of the type (types without WebColors answer NO-WEB-COLORS on both sides)
    per_pair = 2 ** 13 if tier == 'quick' else 2 ** 16
    for a in info:
        _, kind, sbits, bpp = info[a]
        for b in info:
            if sbits <= 8:
                yield J('conv', a, b, 0, 256, 1)
                continue
            total = 2 ** sbits
            yield J('conv', a, b, 0, 256, 1)
            yield J('conv', a, b, 2 ** bpp - 256, 256, 1)
            if sbits > bpp:
                yield J('conv', a, b, total - 256, 256, 1)
            n = per_pair // 256
            for k in range(n):
                stride = rng.choice([1, 257, 4099, 65537]) if bpp > 16 else rng.choice([1, 3, 17, 255])
                span = 255 * stride
                # stratified start: the k-th of n equal strata of the value space
                lo = (2 ** bpp) * k // n
                hi = max(lo + 1, min((2 ** bpp) * (k + 1) // n, total - span))
                start = rng.randrange(lo, hi) if lo < hi and lo + span < total else rng.randrange(0, total - span)
                yield J('conv', a, b, start, 256, stride)


def search(tier, rng):
    types, _ = colorgen.load()
    info = {t[0]: t for t in types}
    for a in colorgen.web_types():
        yield J('p_web', a)
    for a in info:
        _, kind, sbits, bpp = info[a]
        for b in info:
            if a == b:
                continue
            if sbits <= 16:
                yield J('p_conv', a, b, 0, 2 ** sbits, 1)
            else:
                # every colour value (2^bpp), in 16 chunks; plus storage values with the unused top byte set
                for k in range(16):
                    yield J('p_conv', a, b, k * 2 ** (bpp - 4), 2 ** (bpp - 4), 1)
                yield J('p_conv', a, b, 2 ** sbits - 2 ** 16, 2 ** 16, 1)
                yield J('p_conv', a, b, rng.randrange(2 ** bpp, 2 ** sbits - 2 ** 16 * 4099), 2 ** 16, 4099)
