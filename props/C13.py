"""C13 - Colour conversions scale to the nearest value and preserve the extremes  (metadata; generators live here and/or in props/C13_*.py parts)"""
CLAIMED = False   # set True by the owner once ./check C13 passes with real theorems
LEVEL = 'proof'
LEVEL_TEXT = 'TODO'
LEVEL_NOTE = 'TODO'
