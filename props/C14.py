"""C14 - Text draws the glyph the font's mapping designates, in the right cell."""
from common import *
import os, re

LEVEL = 'proof'
CLAIMED = True
RULE = ('every style used by the text suites (C14, C15, C02 text, C07 text) is built by assigning the public fields AND through the whole public API - builder setters with font() first and font() last, underline/strikethrough(_with_color), reset_*, From<&MonoTextStyle>, Default, MonoTextStyle::new, the four CharacterStyle setters - which must give the identical style; the suites draw with the API-built one. Synthetic fonts are drawn twice: with the StrGlyphMapping and with a closure glyph mapping. TextRenderer::draw_whitespace (widths 0, n cells, odd) is compared with its reference (background rectangle, decorations over the width, returned position) and with draw_string of n spaces where the space glyph is blank. '
        'correspondence (extracted model vs real library, both recording targets): c14_ds = MonoTextStyle::draw_string + measure_string on SYNTHETIC '
        'MonoFont records (atlas of any row length incl. not a multiple of / smaller than the cell width, zero cell, spacing 0..3, arbitrary '
        'baseline and decoration dimensions, StrGlyphMapping with NUL ranges, empty/incomplete/surrogate-spanning ranges, replacement index inside or '
        'outside the atlas, up to the edge of index_ok near 2^31/ch and 2^32) x all 4x3x3 colour/decoration roles x 4 baselines x strings of mapped, unmapped, control and non-BMP characters x small and '
        '+-2^20 positions; c14_map = chars/index/contains of random mapping strings; c14_bi / c14_bi_chars / c14_bi_count = every row of the regenerated '
        'table Gen/FontTable.v against the real constants: all 292 built-in fonts (10 geometry fields + FNV-1a digest of the whole glyph bitmap: fonts/raw file vs font.image.pixel() of the running library) x index of EVERY mapped character + 12 unmapped ones, '
        'all 14 mapping expansions. search (real built-in fonts only, reference = font.image.pixel() of the cell derived from the public glyph_mapping.index): '
        'p_c14_font = every font x every mapped character + control/non-BMP characters x 3 colour modes, one glyph at a time, plus index = position, '
        'distinct indices, cell inside the atlas; p_c14_deco_defaults = DecorationDimensions::default_strikethrough / default_underline against their documented formulas (custom font helpers); p_c14_bitmap = digest of the glyph bitmap of every font in the running library vs the committed reference Proofs/FontGolden.v; p_c14_codepage = every mapping against the standard code page (Python codecs as independent reference): glyph index of every defined character; p_c14_str = random lines x 16 colour/decoration combinations x baselines on random built-in fonts; p_c14_synth = the same reference on the synthetic custom fonts (spacing, odd atlas row lengths, cells outside the atlas draw nothing).')
EXHAUSTIVE = {'quick': False, 'thorough': False}
ASSUMPTIONS = ['draw_ok: |position| <= 2^28 and x + n*(cw+spacing) <= 2^28; font_ok: all font fields non-negative (u32) with heights/offsets <= 2^28; '
               'index_ok: every glyph index satisfies 0 <= index < 2^32 and (index / glyphs_per_row + 1) * ch < 2^31 (MonoFont::glyph casts `index as u32`, multiplies '
               'in u32 and casts to i32, mod.rs:109-114; the model is unbounded Z). Together these exclude wrap-around/saturation in draw_string; index_ok is proved '
               'for every string with every built-in font (C14_builtin_index_ok), custom GlyphMappings returning larger indices are outside the claim',
               'the target is large enough / pixels are compared on an unbounded target; clipping is C03']
TRUSTED = ['modelled, not verified: the atlas is an abstract bit function (font.image.pixel(x,y) == On); ImageRaw/SubImage pixel order is C09',
           'translate/gen_fonts.py (regex translator, fails closed on unknown shapes) reads the font constants, the mapping strings and the raw file sizes',
           'a string is the list of its code points; char ranges skip the surrogate gap as core::ops::RangeInclusive<char> does']
PARTIAL = []
LEVEL_TEXT = ('Proof: 36 Coq theorems. For ANY font record (any atlas row length, spacing, decoration dimensions, any glyph-index function) and ANY string, '
              'the pixel map of the model of MonoTextStyle::draw_string is characterised completely: pixel (dx,dy) of the i-th cell at x + i*(cw+spacing) shows '
              'the atlas cell the mapping designates (on -> text colour, off -> background or untouched), spacing columns get the background, underline and '
              'strikethrough cover [x, next.x) at the font offsets (underline on top), nothing else is touched; StrGlyphMapping::index is the position of the first '
              'occurrence or the replacement index and is injective on mapped characters. For the built-in fonts the facts are decided by vm_compute over '
              'Gen/FontTable.v, which is regenerated from src/mono_font/generated/*.rs, mapping.rs and fonts/raw on every run: every index (mapped or replacement) '
              'designates a cell completely inside the atlas, raw length = bytes_per_row*height, records are well formed with spacing 0, the n-th mapped '
              'character has index n, unmapped characters get the index of "?"; end to end: the i-th character of a string drawn with a built-in font shows exactly atlas cell '
              '(n mod glyphs_per_row, n / glyphs_per_row) for the n-th mapped character and the cell of "?" for an unmapped one; mapped characters own pairwise disjoint cells; '
              'Text::draw of a one-line text is draw_string at the aligned, baseline-adjusted position; the crate-private NULL_FONT (regenerated from mod.rs) is all zero and draws nothing. The hand-written model is tied to the code by differential runs (see rule).')
LEVEL_NOTE = ('Trusted: Coq kernel, extraction, OCaml/Rust drivers, the regex translator. The model of draw_string is validated against the real code by '
              'differential testing, not proved equal to it. Glyph bitmaps themselves (which bits are on) are data: the atlas of the running library is tied to the fonts/raw files by a digest per font (c14_bi) and both to a committed reference (C14_builtin_bitmaps_unchanged, p_c14_bitmap), so a changed or swapped bitmap file breaks a proof and drawn glyphs are compared pixel by pixel with font.image in the search suites; WHICH picture sits in a cell has no independent reference (the BDF sources are not in the repository).')


def trivial(line, res):
    return res.startswith(' N ') or res in ('', 'none', '0')


# ------------------------------------------------------------------ generated table (names only; input selection)
def table():
    here = os.path.dirname(os.path.abspath(__file__))
    src = open(os.path.join(here, '..', 'coq', 'Gen', 'FontTable.v')).read()
    maps = []
    for m in re.finditer(r'\(\* \d+: (\w+) \*\)\nDefinition map_\w+ : bmapping := BMapping \[[^\]]*\]\n  \[([^\]]*)\]\n  \[([^\]]*)\]', src):
        maps.append((m.group(1), [int(v) for v in m.group(3).split(';') if v]))
    fonts = [(m.group(1), int(m.group(2))) for m in re.finditer(r'\(\* (\w+::FONT_\w+) \*\) BFont \[[^\]]*\] \d+ \d+ (\d+) ', src)]
    return maps, fonts


UNMAPPED = [0, 1, 9, 10, 13, 31, 128, 159, 0xFFFD, 0x1F600, 0x10000, 0x10FFFF]
POOL = [32, 33, 48, 49, 63, 65, 66, 67, 97, 98, 99, 100, 101, 122, 126, 160, 169, 255, 0x416, 0x3A9, 0xFF71]


def lst(xs):
    return J(len(xs), *xs) if xs else '0'


def mapping_string(rng):
    """code points of a StrGlyphMapping string: singles, NUL ranges, empty / incomplete / surrogate spanning ranges"""
    out = []
    for _ in range(rng.choice([0, 1, 1, 2, 2, 3, 4])):
        k = rng.random()
        if k < 0.45:
            a = rng.choice([32, 48, 65, 97, 0xC0, 0x410])
            out += [0, a, a + rng.randrange(0, 12)]
        elif k < 0.85:
            out.append(rng.choice(POOL))
        elif k < 0.9:
            out += [0, 100, 97]                # start > end: empty range
        elif k < 0.95:
            out += [0, 0xD7FE, 0xE001]         # spans the surrogate gap: 4 characters
        else:
            out += [0, 0, 2]                   # range starting at NUL itself
    k = rng.random()
    if k < 0.06:
        out += [0]                             # incomplete range markers end the walk
    elif k < 0.12:
        out += [0, 97]
    return out


def expand(data):
    out, i = [], 0
    while i < len(data):
        if data[i] == 0:
            if i + 2 >= len(data):
                break
            out += [c for c in range(data[i + 1], data[i + 2] + 1) if not 0xD800 <= c <= 0xDFFF]
            i += 3
        else:
            out.append(data[i])
            i += 1
    return out


def synth_font(rng, nglyph):
    cw = rng.choice([0, 1, 2, 3, 4, 5, 6, 7, 8, 9]) if rng.random() < 0.9 else rng.randrange(10, 17)
    ch = rng.choice([0, 1, 2, 3, 5, 6, 8, 9, 13])
    k = rng.random()
    cols = rng.randrange(1, 7)
    if k < 0.08:
        w = max(0, cw - rng.randrange(1, 3))   # atlas narrower than one cell
    else:
        w = cols * cw + (rng.randrange(0, max(cw, 1)) if rng.random() < 0.4 else 0)
    rows_needed = (nglyph + cols - 1) // cols + 1
    rows = rng.choice([1, rows_needed, rows_needed, rng.randrange(1, rows_needed + 2)])
    h = min(rows * ch + (rng.randrange(0, max(ch, 1)) if rng.random() < 0.3 else 0), 160)
    w = min(w, 160)
    sp = rng.choice([0, 0, 0, 1, 2, 3])
    base = rng.randrange(0, ch + 2)
    return (w, h, cw, ch, sp, base, rng.randrange(0, ch + 4), rng.choice([0, 1, 1, 2]), rng.randrange(0, ch + 2), rng.choice([0, 1, 1, 3]))


def style(rng, k=None):
    """4 tokens: text colour, background (0 = none), underline, strikethrough (0 none, -1 text colour, n custom)"""
    k = rng.randrange(16) if k is None else k
    tc = rng.randrange(1, 250) if k & 1 else 0
    bc = rng.randrange(1, 250) if k & 2 else 0
    ul = rng.choice([-1, rng.randrange(1, 250)]) if k & 4 else 0
    st = rng.choice([-1, rng.randrange(1, 250)]) if k & 8 else 0
    return (tc, bc, ul, st)


def position(rng):
    k = rng.random()
    if k < 0.7:
        return rng.randrange(-40, 41), rng.randrange(-40, 41)
    if k < 0.85:
        return rng.randrange(-2 ** 20, 2 ** 20), rng.randrange(-2 ** 20, 2 ** 20)
    return rng.choice([-2 ** 20, 2 ** 20 - 200]), rng.choice([-2 ** 20, 2 ** 20 - 200])


def text_from(rng, chars, maxlen=6):
    n = rng.choice([0, 1, 1, 2, 3, 4, maxlen])
    out = []
    for _ in range(n):
        k = rng.random()
        if chars and k < 0.7:
            out.append(rng.choice(chars))
        elif k < 0.85:
            out.append(rng.choice(UNMAPPED))
        else:
            out.append(rng.choice(POOL))
    return [c for c in out if not 0xD800 <= c <= 0xDFFF]


def big_index(rng, f):
    """a replacement index at the edge of index_ok: index < 2^32 and (index / glyphs_per_row + 1) * ch < 2^31"""
    w, h, cw, ch = f[0], f[1], f[2], f[3]
    if cw == 0 or w < cw:
        return rng.choice([2 ** 32 - 1, 2 ** 31, 2 ** 40])        # glyph() returns before calling index(): anything goes
    gpr = w // cw
    row = (2 ** 31 - 1) // ch - 1 if ch > 0 else 2 ** 32
    idx = min(row * gpr + rng.randrange(gpr), 2 ** 32 - 1)
    return idx - rng.choice([0, 0, 1, gpr])


def cases(tier, rng):
    maps, fonts = table()
    yield 'c14_bi_count'
    for name, _ in maps:
        yield J('c14_bi_chars', name)
    yield 'c14_bi_chars NO_SUCH'
    for name, mi in fonts:
        yield J('c14_bi', name, lst(maps[mi][1] + UNMAPPED))
    yield 'c14_bi ascii::FONT_1X1 0'
    yield J('c14_bi', 'null::NULL_FONT', lst(maps[0][1] + UNMAPPED))   # the crate-private default font (table: null_font)
    n = 3000 if tier == 'quick' else 60000
    for _ in range(n):
        data = mapping_string(rng)
        chars = expand(data)
        probes = [rng.choice(chars) for _ in range(3) if chars] + [rng.choice(POOL + UNMAPPED) for _ in range(3)]
        yield J('c14_map', rng.randrange(0, 40), lst(data), lst(probes))
    n = 4000 if tier == 'quick' else 80000
    for k in range(n):
        data = mapping_string(rng)
        chars = expand(data)
        f = synth_font(rng, len(chars))
        x, y = position(rng)
        repl = big_index(rng, f) if k % 25 == 7 else rng.randrange(0, len(chars) + 3)
        yield J('c14_ds', *f, *style(rng, k % 16), x, y, rng.randrange(4), repl, lst(data), lst(text_from(rng, chars)))


def codepage(name):
    """(glyph index, code point) for every byte the standard code page defines: 0x20..0x7F, then 0xA0.. (independent reference: Python codecs)"""
    if name == 'ASCII':
        return [(b - 0x20, b) for b in range(0x20, 0x80)]
    if name.startswith('ISO_8859_'):
        codec, hi = 'iso8859_' + name.split('_')[2], range(0xA0, 0x100)
    elif name == 'JIS_X0201':
        codec, hi = 'shift_jis', range(0xA1, 0xE0)
    else:
        return None
    out = [(b - 0x20, b) for b in range(0x20, 0x80)]
    for b in hi:
        try:
            out.append((b - 0xA0 + 0x60, ord(bytes([b]).decode(codec))))
        except UnicodeDecodeError:
            pass                                   # position not defined by the standard
    return out


def golden():
    here = os.path.dirname(os.path.abspath(__file__))
    src = open(os.path.join(here, '..', 'coq', 'Proofs', 'FontGolden.v')).read()
    return re.findall(r'\(\* (\w+::FONT_\w+) \*\) \(\[[^\]]*\], (\d+)\)', src)


def search(tier, rng):
    maps, fonts = table()
    for name, dig in golden():
        yield J('p_c14_bitmap', name, dig)
    for h in list(range(0, 40)) + [2 ** 31, 2 ** 32 - 2]:
        yield J('p_c14_deco_defaults', h)
    for name, _ in maps:
        cp = codepage(name)
        if cp is None:
            yield J('p_c14_codepage', name, 'UNKNOWN-CODE-PAGE')   # a new mapping needs a reference here: fail closed
        else:
            yield J('p_c14_codepage', name, len(cp) * 2, *[v for pr in cp for v in pr])
    for name, _ in fonts:
        yield J('p_c14_font', name, rng.randrange(-30, 31), rng.randrange(-30, 31))
    n = 3000 if tier == 'quick' else 60000
    for k in range(n):
        name, mi = fonts[rng.randrange(len(fonts))]
        x, y = position(rng)
        yield J('p_c14_str', name, *style(rng, k % 16), x, y, rng.randrange(4), lst(text_from(rng, maps[mi][1], 8)))
    for k in range(n):
        data = mapping_string(rng)
        chars = expand(data)
        f = synth_font(rng, len(chars))
        x, y = position(rng)
        yield J('p_c14_synth', *f, *style(rng, k % 16), x, y, rng.randrange(4), rng.randrange(0, len(chars) + 3), lst(data), lst(text_from(rng, chars)))
