"""C14 - Text draws the glyph the font's mapping designates, in the right cell  (metadata; generators live here and/or in props/C14_*.py parts)"""
CLAIMED = False   # set True by the owner once ./check C14 passes with real theorems
LEVEL = 'proof'
LEVEL_TEXT = 'TODO'
LEVEL_NOTE = 'TODO'
