"""C15 - Text layout: positions, alignment, baselines and line breaks are consistent  (metadata; generators live here and/or in props/C15_*.py parts)"""
CLAIMED = False   # set True by the owner once ./check C15 passes with real theorems
LEVEL = 'proof'
LEVEL_TEXT = 'TODO'
LEVEL_NOTE = 'TODO'
