"""C15 - Text layout: positions, alignment, baselines and line breaks are consistent."""
from common import *
import C14 as g

LEVEL = 'proof'
CLAIMED = True
RULE = ('correspondence c15_text: Text::draw (pixel map on both recording targets, returned position) and Text::bounding_box vs the extracted model, on synthetic '
        'MonoFont records (spacing 0..3, any atlas, see C14) x 3 alignments x 4 baselines x line heights Pixels(0..40)/Percent(0..400) x 16 colour/decoration roles x '
        'strings with 0..4 line breaks as LF or CR LF, empty lines, trailing newline, lone CR (leading, mid-line, trailing), doubled CR, CR CR LF, unmapped characters x small and +-2^20 positions. '
        'search p_c15 (real built-in fonts incl. the zero-sized NULL_FONT of MonoTextStyleBuilder::new(), independent arithmetic): per line alignment of the measure_string box (starts at / ends at / centred within half a pixel), '
        'k-th line k*line_height lower, every glyph cell against font.image (C14 reference), draw returns measure_string next position, bounding box = hull of the '
        'line boxes, baseline = Top moved by the documented offset, text with LF = parts drawn separately, CR LF = LF, left-aligned chaining s1 then s2 = s1+s2, Text::new / with_baseline / with_alignment and TextStyle::with_* / default == the builder forms (and render identically), LineHeight::default() = Percent(100), TextStyleBuilder::default()/new()/from(&style).')
EXHAUSTIVE = {'quick': False, 'thorough': False}
ASSUMPTIONS = g.ASSUMPTIONS + ['vertical range: Text::lines adds line_height per line in i32 and LineHeight::Percent computes ch*percent in u32 (text.rs:143, text/mod.rs:268); the model is '
                               'unbounded, so the layout theorems transfer to the code while |y| + lines*line_height <= 2^28 and ch*percent < 2^32 (generators: <= 5 lines, line height <= 52, percent <= 400)',
                               'chaining is stated for left alignment, fonts without spacing and s1 not ending in CR; CR LF = LF whenever no line that is followed by CR LF itself ends in CR '
                               '(crlf_ok; Text strips exactly one trailing CR per line, the condition is shown necessary by C15_crlf_needs_condition)']
TRUSTED = ['modelled, not verified: str::split(\'\\n\') / strip_suffix(\'\\r\') on code point lists (UTF-8 continuation bytes cannot be 0x0A/0x0D); exercised by non-ASCII cases']
PARTIAL = []
LEVEL_TEXT = ('Proof: 25 Coq theorems over the model of Text::lines/draw/bounding_box + MonoTextStyle (any font record): draw_string and Text::draw return the position '
              'measure_string predicts (for spacing 0 - every built-in font, by reflection over the regenerated table - or any colour set); drawing s1 then s2 at the returned '
              'position gives the pixel map and returned position of s1+s2 (left aligned, no spacing, also after complete lines); the k-th line is k line heights lower and its '
              'box starts at / ends at / is centred within half a pixel on x; the baseline setting is exactly a vertical move by the documented offset; text with "\\n" equals '
              'its parts drawn separately; "\\r\\n" gives the same lines, calls, returned position and bounding box as "\\n" (exact condition crlf_ok); the position of every line is given exactly '
              '(including the rounding direction of Center); the bounding box is the smallest rectangle containing the per-line boxes; the Text-level forms hold hypothesis-free '
              '(except range) for every built-in font.')
LEVEL_NOTE = ('Trusted: Coq kernel, extraction, drivers; the model is tied to the code by differential runs on synthetic fonts and by the p_c15 property search on all '
              'built-in fonts. Observation (not a violation of the statement): with spacing > 0 and neither text nor background colour draw_string advances by n*(cw+sp) '
              'while measure_string predicts n*(cw+sp)-sp; a line content ending in CR loses that CR even without a following LF.')


def trivial(line, res):
    return res.startswith(' N ') or res in ('', 'none', '0')


def line(rng, chars, maxlen=5):
    return g.text_from(rng, [c for c in chars if c not in (10, 13)], maxlen)


def multiline(rng, chars, clean=False):
    """code points of a text with 0..4 line breaks (LF or CR LF); unless clean also lone / double CR"""
    out = []
    n = rng.choice([1, 1, 2, 2, 3, 4, 5])
    for k in range(n):
        l = [c for c in line(rng, chars) if c not in (10, 13)]
        if not clean:
            r = rng.random()
            if r < 0.08:
                l = l + [13]                                   # content ending in CR ("x\r" + separator)
            elif r < 0.16:
                l.insert(rng.randrange(len(l) + 1), 13)        # lone CR anywhere: leading, mid-line or trailing
            elif r < 0.20:
                i = rng.randrange(len(l) + 1)
                l[i:i] = [13, 13]                              # doubled CR
            elif r < 0.23:
                l = [13] + l                                   # leading CR
        out += l
        if k + 1 < n:
            out += [13, 10] if rng.random() < 0.4 else [10]
    if not clean and rng.random() < 0.1:
        out += [13]
    return out


def tstyle(rng):
    if rng.random() < 0.25:
        return (rng.randrange(3), rng.randrange(4), 1, 100)    # default line height: the convenience constructors apply
    k = rng.randrange(2)
    v = rng.choice([0, 1, 5, 8, 10, 13, 20, 40]) if k == 0 else rng.choice([0, 50, 99, 100, 101, 150, 200, 400])
    return (rng.randrange(3), rng.randrange(4), k, v)


def cases(tier, rng):
    n = 5000 if tier == 'quick' else 100000
    for k in range(n):
        data = g.mapping_string(rng)
        chars = g.expand(data)
        f = g.synth_font(rng, len(chars))
        x, y = g.position(rng)
        yield J('c15_text', *f, *g.style(rng, k % 16), *tstyle(rng), x, y, rng.randrange(0, len(chars) + 3), g.lst(data), g.lst(multiline(rng, chars)))


def search(tier, rng):
    maps, fonts = g.table()
    n = 5000 if tier == 'quick' else 100000
    for k in range(n):
        name, mi = fonts[k % len(fonts)] if k < 2 * len(fonts) else fonts[rng.randrange(len(fonts))]
        x, y = g.position(rng)
        chars = maps[mi][1]
        yield J('p_c15', name, *g.style(rng, k % 16), *tstyle(rng), x, y, g.lst(multiline(rng, chars)), g.lst(line(rng, chars, 4)))
    # the zero-sized NULL_FONT (default font of MonoTextStyleBuilder, ASCII mapping) is a built-in font as well, but the
    # font table lists the FONT_* constants only: run the same statements on it (appended, so the cases above keep their seeds)
    ascii_chars = list(range(32, 127))
    for k in range(48 if tier == 'quick' else 480):
        x, y = g.position(rng)
        yield J('p_c15', 'null::NULL_FONT', *g.style(rng, k % 16), *tstyle(rng), x, y, g.lst(multiline(rng, ascii_chars)), g.lst(line(rng, ascii_chars, 4)))
