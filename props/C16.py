"""C16 - Rectangle operations agree with the set of points they describe."""
from common import *
import itertools

LEVEL = 'proof'
RULE = ('correspondence: every public Rectangle method on (i) all pairs of rectangles with corners in a GxG grid '
        '(exhaustive, zero extents included; G=4 quick, 6 thorough), (ii) random rectangles up to +-2^20; '
        'all 9 anchors; offsets -N..N. A case is non-trivial when the model result is not empty/none/0; '
        'distinct = distinct case lines. search: the property predicates (explicit point sets over a window) on the implementation.')
EXHAUSTIVE = {'quick': False, 'thorough': False}
ASSUMPTIONS = ['coordinates within +-2^29 and extents within 2^29 (range in which the unbounded model equals i32/u32 arithmetic); '
               'outside it the implementation saturates or panics (debug) and C16 makes no claim']
TRUSTED = ['modelled, not verified: az::SaturatingAs, i32 `/` as Z.quot, u32 `/` as Z.div']


def grid_rects(G):
    out = []
    for x in range(G):
        for y in range(G):
            for w in range(0, G - x + 1):
                for h in range(0, G - y + 1):
                    out.append((x - 1, y - 1, w, h))
    return out


def cases(tier, rng):
    G = 3 if tier == 'quick' else 5
    gr = grid_rects(G)
    for a in gr:
        for b in gr:
            yield J('rect_pair', *a, *b)
    for a in grid_rects(5):
        yield J('rect_one', *a)
        yield J('rect_points', *a)
        for n in range(-4, 5):
            yield J('rect_offset', *a, n)
    n = 4000 if tier == 'quick' else 60000
    for _ in range(n):
        big = rng.random() < 0.5
        a, b = rect(rng, big), rect(rng, big)
        yield J('rect_pair', *a, *b)
        yield J('rect_one', *a)
        yield J('rect_contains', *a, a[0] + rng.randrange(-2, a[2] + 3), a[1] + rng.randrange(-2, a[3] + 3))
        yield J('rect_corners', a[0], a[1], b[0], b[1])
        yield J('rect_with_center', *a)
        yield J('rect_anchor', *a, rng.randrange(3), rng.randrange(3))
        yield J('rect_resized', *a, b[2], b[3], rng.randrange(3), rng.randrange(3))
        yield J('rect_offset', *a, rng.choice([rng.randrange(-8, 9), rng.randrange(-2 ** 19, 2 ** 19)]) if big else rng.randrange(-12, 13))
        if not big and a[2] * a[3] <= 400:
            yield J('rect_points', *a)


def search(tier, rng):
    G = 3 if tier == 'quick' else 5
    gr = grid_rects(G)
    for a in gr:
        for b in gr:
            yield J('p_rect_pair', *a, *b)
    for a in grid_rects(5):
        yield J('p_rect_one', *a)
        for n in range(-4, 5):
            yield J('p_rect_offset', *a, n)
        for s in [(0, 0), (1, 1), (2, 5), (5, 2), (4, 4)]:
            yield J('p_rect_resized', *a, *s)
    n = 3000 if tier == 'quick' else 50000
    for _ in range(n):
        a, b = rect(rng), rect(rng)
        yield J('p_rect_pair', *a, *b)
        yield J('p_rect_one', *a)
        yield J('p_rect_resized', *a, b[2], b[3])
        big = rect(rng, True)
        yield J('p_rect_offset', *big, rng.choice([rng.randrange(-8, 9), rng.randrange(-2 ** 19, 2 ** 19)]))
        yield J('p_rect_offset', *a, rng.randrange(-12, 13))

LEVEL_TEXT = ('Proof: 28 Coq theorems over the Gallina model of Point/Size/Rectangle (coq/Model/Geometry.v) state that '
              'intersection is exactly the common point set (no range hypothesis: every rectangle of the unbounded model), envelope is the least rectangle containing both (zero-sized operands count as 1x1, as documented; plain form for rectangles that have points), '
              'and contains/points/rows/columns/bottom_right/center/with_center/with_corners/anchor_point/resized/offset agree with '
              '"top-left plus size" for every rectangle within +-2^29. The model is tied to the code by running the extracted model '
              'and the real methods on the same inputs (exhaustive grid pairs + random up to 2^20) on every run.')
LEVEL_NOTE = ('Trusted: Coq kernel, extraction (ExtrOcamlBasic), the OCaml/Rust drivers; the hand-written model is validated by '
              'differential testing, not proved equal to the Rust code; arithmetic is unbounded Z, theorems carry the range +-2^29. '
              'offset by n on a ZERO extent does not move "sides" by n: it yields the 2n wide range starting n-1 before the old position '
              '(C16_offset_grow_axis states exactly that; the property clause "every side moves by n" is claimed for extents > 0).')

CLAIMED = True
