"""C17 - Lines connect their end points and stay on the ideal line."""
from common import *

CLAIMED = True
LEVEL = 'proof'
LEVEL_TEXT = ('Proof: 29 Coq theorems in Properties/C17.v (+ the source-tie part C17_src*). Thin lines (14, model coq/Model/Line.v of BresenhamParameters::new / Bresenham::next / Points), '
              'for ALL lines with coordinates within +-2^28: first point = start, last = end, max(|dx|,|dy|)+1 points, each step is one '
              'pixel along the major axis and 0 or 1 along the minor axis, every point within half a pixel of the ideal line '
              '(2|cross| <= dmaj; 4 cross^2 <= dx^2+dy^2; projection inside the segment), monotone, closed form, translation, no i32 '
              'overflow. Stroked lines (15, model coq/Model/Thickline.v of next_all/previous_all, ParallelsIterator, ThickPoints, '
              'StyledPixelsIterator), for ALL lines and widths: width 1 = points() in order, width 0 / no colour draws nothing, every '
              'stroke of width >= 1 starts with exactly points() (contains the thin line), ParallelsIterator stops after <= 3w+2 '
              'parallels (termination, pixel count bound), translation equivariance, NO PIXEL TWICE (C17_thick_no_duplicate, via disjoint '
              'cross-product bands of the parallels), AT MOST HALF A MAJOR STEP (< 1 px) BEYOND THE TWO ENDS (C17_thick_within_ends, from the invariant '
              '2*dot(start point) = +-perpendicular error), 90-degree rotation equivariance for non-axis, non-diagonal lines, distance <= 3w+2.5 (coarse). The bound w/2+2.5 of the property is refuted from width 34 on '
              '(C17_thick_distance_refuted, finding K17_wide_stroke). Distance <= w/2+2.5 and >= w-1 wide at the middle: proved by computation in Coq for every line with |dx|,|dy| <= 24 anywhere in the plane '
              '(= all end point pairs of the grid [-12,12]^2 and their translates) x widths 0..16 (sweep over one quadrant + axis/diagonal lines, '
              'lifted by the proved 90-degree rotation equivariance C17_thick_points_rot) (C17_thick_grid_partial); beyond that '
              'domain these four clauses are searched on the implementation. Both models are tied to the code by running the extracted '
              'model and the real iterators on the same inputs (pixel order included) on every run.')
LEVEL_NOTE = ('Trusted: Coq kernel (vm_compute for the grid sweep), extraction (ExtrOcamlBasic), the OCaml/Rust drivers; the hand-written '
              'models are validated by differential testing (exhaustive small grids x widths + random long lines), not proved equal to '
              'the Rust code; arithmetic is unbounded Z: the thin theorems carry line_ok (+-2^28, C17_line_no_overflow), the thick-line '
              'arithmetic ranges are the subject of C08_line. The four geometric thick clauses are partial: finite domain only.')
RULE = ('correspondence: Line::points() vs the extracted model for all lines with end points in [-R,R]^2 (R=5 quick, 9 thorough; '
        'all octants, axis-parallel, diagonal, zero length), random lines of major length 20..40000 anywhere within +-2^19 with a '
        'share of exact diagonals / ties (dmin = dmaj/2) / near-axis slopes, whole-sequence digests of lines up to 2^21 long; '
        'Styled<Line>::pixels() (ordered) and the styled bounding box vs the model for every delta of the grid [-R,R]^2 (R=7/12, i.e. dx,dy in [-2R,2R]) x widths 0..9/12, '
        'all end point pairs in [-3,3]^2 / [-5,5]^2 x 7 widths, random lines of length 10..2000 x widths up to 40. '
        'non-trivial = model result non-empty; distinct = distinct case lines. '
        'Line::with_delta / delta vs the model on random starts and deltas; search p_line also checks Line::new vs struct literal, delta, with_delta(start, delta) = l, midpoint. '
        'search p_line / p_thick: every clause of the property evaluated in exact i128 arithmetic on the real iterators; p_thick on '
        'every delta of the grid [-R,R]^2 (R=7 quick, 12 thorough) x every width 0..9/12 and on random lines up to 300 long x widths up to 33, plus long wide strokes (length 240..1000 x width 30..64) and very long narrow ones (major length 35 000..260 000, thorough to 600 000, widths 1..4: beyond 2^16 the squared length leaves 32 bits).')
EXHAUSTIVE = {'quick': False, 'thorough': False}
ASSUMPTIONS = ['line_ok: all four coordinates within +-2^28 (so that 2*|delta| and the error accumulator fit i32); '
               'beyond it the implementation overflows (panic in debug, wrap in release) and C17 makes no claim',
               'stroke widths are u32 (0 <= w); widths above i32::MAX saturate (modelled)']
TRUSTED = ['modelled, not verified: Point +/-/abs as unbounded Z operations, `as u32` of a non-negative i32, az::SaturatingAs u32->i32, '
           'i32 `/ 2` of a non-negative value as Z.quot']
PARTIAL = ['C17_thick_distance_partial (full statement: distance <= w/2 + 2.5 for all lines and widths < 34; proved: <= 3w + 2.5 for all; '
           'false from width 34 on: finding K17_wide_stroke)',
           'C17_thick_grid_partial (full statement: thick_ok l w -- distance <= w/2+2.5, >= w-1 wide at the middle '
           '(and no duplicate pixel / <= 1 px beyond the ends, which C17_thick_no_duplicate / C17_thick_within_ends prove in general) -- for ALL lines and widths < 34; proved for |dx|,|dy| <= 24, w <= 16 by computation + rotation/translation symmetry)']


def grid_lines(R):
    rr = range(-R, R + 1)
    for x0 in rr:
        for y0 in rr:
            for x1 in rr:
                for y1 in rr:
                    yield (x0, y0, x1, y1)


def long_line(rng, maxlen):
    """random line whose major length is about maxlen, anywhere within +-2^20; all octants, with a share of
    exact diagonals / axis-parallel / near-tie slopes (dmin = dmaj/2 exactly or +-1)"""
    x0, y0 = rng.randrange(-2 ** 19, 2 ** 19), rng.randrange(-2 ** 19, 2 ** 19)
    dmaj = rng.randrange(maxlen // 2, maxlen + 1)
    k = rng.random()
    if k < 0.1:
        dmin = dmaj
    elif k < 0.2:
        dmin = 0
    elif k < 0.4:
        dmin = max(0, min(dmaj, dmaj // 2 + rng.randrange(-1, 2)))
    elif k < 0.5:
        dmin = max(0, dmaj - rng.randrange(0, 3))
    elif k < 0.6:
        dmin = min(dmaj, rng.randrange(0, 3))
    else:
        dmin = rng.randrange(0, dmaj + 1)
    sx, sy = rng.choice([-1, 1]), rng.choice([-1, 1])
    if rng.random() < 0.5:
        return (x0, y0, x0 + sx * dmaj, y0 + sy * dmin)
    return (x0, y0, x0 + sx * dmin, y0 + sy * dmaj)


def cases(tier, rng):
    R = 5 if tier == 'quick' else 9
    for l in grid_lines(R):
        yield J('line_points', *l)
    n = 1500 if tier == 'quick' else 20000
    for _ in range(n):
        yield J('line_points', *long_line(rng, rng.choice([20, 60, 200])))
        yield J('line_digest', *long_line(rng, rng.choice([1000, 5000, 40000])))
    for _ in range(12 if tier == 'quick' else 120):
        yield J('line_walk', *long_line(rng, 2 ** 20))
    # the two extreme corners of the generator range
    yield J('line_walk', -2 ** 20, -2 ** 20, 2 ** 20, 2 ** 20 - 1)
    yield J('line_walk', 2 ** 20, -2 ** 20, -2 ** 20, 1)
    # Line::with_delta / Line::delta (value oracle)
    for _ in range(200 if tier == 'quick' else 4000):
        m = rng.choice([3, 100, 2 ** 19])
        yield J('line_with_delta', rng.randrange(-m, m + 1), rng.randrange(-m, m + 1), rng.randrange(-m, m + 1), rng.randrange(-m, m + 1))
    # ---- thick lines: Styled<Line>::pixels(), order included; styled bounding box
    RT, WT = (7, 9) if tier == 'quick' else (12, 12)
    for (x1, y1) in [(x, y) for x in range(-2 * RT, 2 * RT + 1) for y in range(-2 * RT, 2 * RT + 1)]:
        for w in range(0, WT + 1):
            # Bresenham and ParallelsIterator are relative to start (C07_line_*_translate): every delta of the grid
            # [-RT,RT]^2, i.e. lines from the origin to every point of [-2RT,2RT]^2 ...
            yield J('thick_pixels', 0, 0, x1, y1, w)
            yield J('line_sbb', 0, 0, x1, y1, w)
    # ... and the full grid of end point pairs on a smaller radius
    RS = 3 if tier == 'quick' else 5
    for l in grid_lines(RS):
        for w in (0, 1, 2, 3, 4, 5, 8):
            yield J('thick_pixels', *l, w)
    n = 1500 if tier == 'quick' else 20000
    for _ in range(n):
        w = rng.choice([0, 1, 2, 3, 4, 5, 6, 7, 9, 12, 20, 33])
        yield J('thick_pixels', *long_line(rng, rng.choice([10, 30, 80])), w)
        yield J('line_sbb', *long_line(rng, rng.choice([10, 30, 80, 1000])), w)
        yield J('thick_digest', *long_line(rng, rng.choice([300, 2000])), rng.choice([1, 2, 3, 5, 8, 13, 40]))


def search(tier, rng):
    R = 5 if tier == 'quick' else 9
    for l in grid_lines(R):
        yield J('p_line', *l)
    n = 3000 if tier == 'quick' else 40000
    for _ in range(n):
        yield J('p_line', *long_line(rng, rng.choice([20, 60, 200, 1000, 5000])))
    for _ in range(20 if tier == 'quick' else 200):
        yield J('p_line', *long_line(rng, 2 ** 20))
    # thick clauses: every delta of the grid [-R,R]^2 (start at the origin and at one other point), every width
    RT, WT = (7, 9) if tier == 'quick' else (12, 12)
    for x1 in range(-2 * RT, 2 * RT + 1):
        for y1 in range(-2 * RT, 2 * RT + 1):
            for w in range(0, WT + 1):
                yield J('p_thick', 0, 0, x1, y1, w)
    for l in grid_lines(3 if tier == 'quick' else 5):
        for w in (1, 2, 3, 4, 7):
            yield J('p_thick', *l, w)
    for _ in range(3000 if tier == 'quick' else 40000):
        yield J('p_thick', *long_line(rng, rng.choice([10, 30, 80, 300])), rng.choice([1, 2, 3, 4, 5, 6, 7, 9, 12, 20, 33]))
    # long AND wide (stroke * length beyond 2^14.5: the accumulator square leaves i32, seeded C17-A): few but large cases
    yield J('p_thick', 0, 100, 479, 100, 50)
    for _ in range(24 if tier == 'quick' else 400):
        yield J('p_thick', *long_line(rng, rng.choice([480, 700, 1000])), rng.choice([30, 40, 50, 64]))
    # very long narrow strokes (major length beyond 2^16, where the squared length no longer fits 32 bits: seeded C17-E):
    # few but large cases; the width-1 clause (= points()), thin-line containment and the distance clause decide them
    yield J('p_thick', -100, 7, 199900, 7, 1)
    for L in ((70000, 140000, 260000) if tier == 'quick' else (70000, 90000, 140000, 140000, 200000, 260000, 400000, 600000)):
        yield J('p_thick', *long_line(rng, L), 1)
        yield J('p_thick', *long_line(rng, L), rng.choice([2, 3, 4]))
