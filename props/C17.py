"""C17 - Lines connect their end points and stay on the ideal line."""
from common import *

CLAIMED = True
LEVEL = 'proof'
LEVEL_TEXT = ('Proof (thin lines): 12 Coq theorems over the Gallina model of BresenhamParameters::new / Bresenham::next / Points '
              '(coq/Model/Line.v) state, for ALL lines with coordinates within +-2^28: first point = start, last = end, '
              'max(|dx|,|dy|)+1 points, each step is one pixel along the major axis and 0 or 1 along the minor axis in the direction '
              'of the line, every point is within half a pixel of the ideal line (2|cross| <= dmaj along the minor axis; '
              '4 cross^2 <= dx^2+dy^2 Euclidean; projection inside the segment), coordinates are monotone, the sequence equals a closed '
              'form (k*dmin/dmaj rounded to nearest, ties towards the start), points() commutes with translation, and no i32 '
              'intermediate overflows. The model is tied to the code by running the extracted model and Line::points() on the same '
              'inputs on every run.')
LEVEL_NOTE = ('Trusted: Coq kernel, extraction (ExtrOcamlBasic), the OCaml/Rust drivers; the hand-written model is validated by '
              'differential testing (exhaustive small grids + random long lines up to 2^20), not proved equal to the Rust code; '
              'arithmetic is unbounded Z, the theorems carry line_ok (+-2^28) and C17_line_no_overflow shows i32 suffices there.')
RULE = ('correspondence: Line::points() vs the extracted model for all lines with end points in [-R,R]^2 (R=5 quick, 9 thorough; '
        'all octants, axis-parallel, diagonal, zero length), random lines of major length 20..40000 anywhere within +-2^19 with a '
        'share of exact diagonals / ties (dmin = dmaj/2) / near-axis slopes, and whole-sequence digests of lines up to 2^21 long. '
        'non-trivial = model result non-empty; distinct = distinct case lines. '
        'search p_line: every thin clause of the property evaluated in exact i128 arithmetic on the real Line::points().')
EXHAUSTIVE = {'quick': False, 'thorough': False}
ASSUMPTIONS = ['line_ok: all four coordinates within +-2^28 (so that 2*|delta| and the error accumulator fit i32); '
               'beyond it the implementation overflows (panic in debug, wrap in release) and C17 makes no claim']
TRUSTED = ['modelled, not verified: Point +/-/abs as unbounded Z operations, `as u32` of a non-negative i32']
PARTIAL = []


def grid_lines(R):
    rr = range(-R, R + 1)
    for x0 in rr:
        for y0 in rr:
            for x1 in rr:
                for y1 in rr:
                    yield (x0, y0, x1, y1)


def long_line(rng, maxlen):
    """random line whose major length is about maxlen, anywhere within +-2^20; all octants, with a share of
    exact diagonals / axis-parallel / near-tie slopes (dmin = dmaj/2 exactly or +-1)"""
    x0, y0 = rng.randrange(-2 ** 19, 2 ** 19), rng.randrange(-2 ** 19, 2 ** 19)
    dmaj = rng.randrange(maxlen // 2, maxlen + 1)
    k = rng.random()
    if k < 0.1:
        dmin = dmaj
    elif k < 0.2:
        dmin = 0
    elif k < 0.4:
        dmin = max(0, min(dmaj, dmaj // 2 + rng.randrange(-1, 2)))
    elif k < 0.5:
        dmin = max(0, dmaj - rng.randrange(0, 3))
    elif k < 0.6:
        dmin = min(dmaj, rng.randrange(0, 3))
    else:
        dmin = rng.randrange(0, dmaj + 1)
    sx, sy = rng.choice([-1, 1]), rng.choice([-1, 1])
    if rng.random() < 0.5:
        return (x0, y0, x0 + sx * dmaj, y0 + sy * dmin)
    return (x0, y0, x0 + sx * dmin, y0 + sy * dmaj)


def cases(tier, rng):
    R = 5 if tier == 'quick' else 9
    for l in grid_lines(R):
        yield J('line_points', *l)
    n = 1500 if tier == 'quick' else 20000
    for _ in range(n):
        yield J('line_points', *long_line(rng, rng.choice([20, 60, 200])))
        yield J('line_digest', *long_line(rng, rng.choice([1000, 5000, 40000])))
    for _ in range(12 if tier == 'quick' else 120):
        yield J('line_walk', *long_line(rng, 2 ** 20))
    # the two extreme corners of the generator range
    yield J('line_walk', -2 ** 20, -2 ** 20, 2 ** 20, 2 ** 20 - 1)
    yield J('line_walk', 2 ** 20, -2 ** 20, -2 ** 20, 1)
    # ---- thick lines: Styled<Line>::pixels(), order included; styled bounding box
    RT, WT = (7, 9) if tier == 'quick' else (12, 12)
    for (x1, y1) in [(x, y) for x in range(-RT, RT + 1) for y in range(-RT, RT + 1)]:
        for w in range(0, WT + 1):
            # Bresenham and ParallelsIterator are relative to start: lines from the origin in every direction ...
            yield J('thick_pixels', 0, 0, x1, y1, w)
            yield J('line_sbb', 0, 0, x1, y1, w)
    # ... and the full grid of end point pairs on a smaller radius
    RS = 3 if tier == 'quick' else 5
    for l in grid_lines(RS):
        for w in (0, 1, 2, 3, 4, 5, 8):
            yield J('thick_pixels', *l, w)
    n = 1500 if tier == 'quick' else 20000
    for _ in range(n):
        w = rng.choice([0, 1, 2, 3, 4, 5, 6, 7, 9, 12, 20, 33])
        yield J('thick_pixels', *long_line(rng, rng.choice([10, 30, 80])), w)
        yield J('line_sbb', *long_line(rng, rng.choice([10, 30, 80, 1000])), w)
        yield J('thick_digest', *long_line(rng, rng.choice([300, 2000])), rng.choice([1, 2, 3, 5, 8, 13, 40]))


def search(tier, rng):
    R = 5 if tier == 'quick' else 9
    for l in grid_lines(R):
        yield J('p_line', *l)
    n = 3000 if tier == 'quick' else 40000
    for _ in range(n):
        yield J('p_line', *long_line(rng, rng.choice([20, 60, 200, 1000, 5000])))
    for _ in range(20 if tier == 'quick' else 200):
        yield J('p_line', *long_line(rng, 2 ** 20))
