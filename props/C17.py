"""C17 - Lines connect their end points and stay on the ideal line."""
from common import *

CLAIMED = False   # set True by the owner once ./check C17 passes with real theorems
LEVEL = 'proof'
LEVEL_TEXT = 'TODO'
LEVEL_NOTE = 'TODO'
RULE = 'TODO'
EXHAUSTIVE = {'quick': False, 'thorough': False}
ASSUMPTIONS = []
TRUSTED = []
PARTIAL = []


def grid_lines(R):
    rr = range(-R, R + 1)
    for x0 in rr:
        for y0 in rr:
            for x1 in rr:
                for y1 in rr:
                    yield (x0, y0, x1, y1)


def long_line(rng, maxlen):
    """random line whose major length is about maxlen, anywhere within +-2^20; all octants, with a share of
    exact diagonals / axis-parallel / near-tie slopes (dmin = dmaj/2 exactly or +-1)"""
    x0, y0 = rng.randrange(-2 ** 19, 2 ** 19), rng.randrange(-2 ** 19, 2 ** 19)
    dmaj = rng.randrange(maxlen // 2, maxlen + 1)
    k = rng.random()
    if k < 0.1:
        dmin = dmaj
    elif k < 0.2:
        dmin = 0
    elif k < 0.4:
        dmin = max(0, min(dmaj, dmaj // 2 + rng.randrange(-1, 2)))
    elif k < 0.5:
        dmin = max(0, dmaj - rng.randrange(0, 3))
    elif k < 0.6:
        dmin = min(dmaj, rng.randrange(0, 3))
    else:
        dmin = rng.randrange(0, dmaj + 1)
    sx, sy = rng.choice([-1, 1]), rng.choice([-1, 1])
    if rng.random() < 0.5:
        return (x0, y0, x0 + sx * dmaj, y0 + sy * dmin)
    return (x0, y0, x0 + sx * dmin, y0 + sy * dmaj)


def cases(tier, rng):
    R = 5 if tier == 'quick' else 9
    for l in grid_lines(R):
        yield J('line_points', *l)
    n = 1500 if tier == 'quick' else 20000
    for _ in range(n):
        yield J('line_points', *long_line(rng, rng.choice([20, 60, 200])))
        yield J('line_digest', *long_line(rng, rng.choice([1000, 5000, 40000])))
    for _ in range(12 if tier == 'quick' else 120):
        yield J('line_walk', *long_line(rng, 2 ** 20))
    # the two extreme corners of the generator range
    yield J('line_walk', -2 ** 20, -2 ** 20, 2 ** 20, 2 ** 20 - 1)
    yield J('line_walk', 2 ** 20, -2 ** 20, -2 ** 20, 1)


def search(tier, rng):
    R = 5 if tier == 'quick' else 9
    for l in grid_lines(R):
        yield J('p_line', *l)
    n = 3000 if tier == 'quick' else 40000
    for _ in range(n):
        yield J('p_line', *long_line(rng, rng.choice([20, 60, 200, 1000, 5000])))
    for _ in range(20 if tier == 'quick' else 200):
        yield J('p_line', *long_line(rng, 2 ** 20))
