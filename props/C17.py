"""C17 - Lines connect their end points and stay on the ideal line  (metadata; generators live here and/or in props/C17_*.py parts)"""
CLAIMED = False   # set True by the owner once ./check C17 passes with real theorems
LEVEL = 'proof'
LEVEL_TEXT = 'TODO'
LEVEL_NOTE = 'TODO'
