"""C18 - Curved primitives match their mathematical shapes and each other
(metadata + the Circle/Ellipse integer part; rounded rectangle / arc / sector clauses live in props/C18_*.py parts)"""
from common import *

LEVEL = 'proof'
POSITIONS = [(0, 0), (-7, 3), (-30, -41), (5, -2)]


def cases(tier, rng):
    # model <-> code tie of contains()/points() for circles and ellipses (same suites as C05), incl. equal axes
    N = 16 if tier == 'quick' else 40
    for d in range(0, N + 1):
        x, y = POSITIONS[d % 4]
        yield J('circ_geom', x, y, d, 2)
        yield J('ell_geom', x, y, d, d, 2)
    n = 100 if tier == 'quick' else 1500
    for _ in range(n):
        x, y = coord(rng), coord(rng)
        yield J('circ_geom', x, y, rng.randrange(0, 80), 2)
        w, h = rng.choice([(rng.randrange(0, 60), rng.randrange(0, 60)), (rng.randrange(0, 6), rng.randrange(0, 100)),
                           (rng.randrange(0, 100), rng.randrange(0, 6))])
        yield J('ell_geom', x, y, w, h, 2)
    yield from _machine(tier, rng)


def _machine(tier, rng):
    # contains() alone at display scale and on both sides of the machine range (suites and generator of C05)
    import C05
    for k, l in enumerate(C05.machine_cases(tier, rng)):
        if k % 4 == 0:
            yield l


def search(tier, rng):
    for d in [1, 11, 240, 20000, 32768]:
        yield J('p_circ_far', -7, 3, d)
    for (w, h) in [(320, 240), (1000, 500), (3, 200)]:
        yield J('p_ell_far', -7, 3, w, h)
    N = 48 if tier == 'quick' else 128
    for d in range(0, N + 1):
        x, y = POSITIONS[d % 4]
        yield J('p_circ_c18', x, y, d)
    M = 24 if tier == 'quick' else 64
    k = 0
    for w in range(0, M + 1):
        for h in range(0, M + 1):
            x, y = POSITIONS[k % 4]
            k += 1
            yield J('p_ell_c18', x, y, w, h)
    n = 300 if tier == 'quick' else 5000
    for _ in range(n):
        x, y = coord(rng), coord(rng)
        yield J('p_circ_c18', x, y, rng.randrange(0, 200))
        w, h = rng.choice([(rng.randrange(0, 120), rng.randrange(0, 120)), (rng.randrange(0, 6), rng.randrange(0, 300)),
                           (rng.randrange(0, 300), rng.randrange(0, 6))])
        yield J('p_ell_c18', x, y, w, h)


def trivial(line, res):
    return res in ('', 'none', '0') or res.endswith('PTS  IN ')


RULE = ('Circle/Ellipse integer part: correspondence of contains() over box+margin and points() between extracted model and code for all '
        'diameters 0..N as circle and as equal-axes ellipse (N=16 quick, 40 thorough) and random axis pairs (thin/flat included). '
        'search (every predicate on three observations: the set contains() accepts over box+margin, the list points() yields, the fill-only styled pixels()): on the code, for ALL diameters 0..48/128 and ALL axis pairs up to 24/64 (+ random up to 200 / 300): half-pixel band '
        'against the ideal circle/ellipse in exact integer arithmetic, mirror symmetry, row and column contiguity, circle touches its box, '
        'circle == equal-axes ellipse for contains() and points(). non-trivial = the shape has a point.')
EXHAUSTIVE = {'quick': False, 'thorough': False}
ASSUMPTIONS = ['Circle/Ellipse part: shapes within the machine range of C05 (circle: top-left within +-2^29, d <= 2^15; ellipse: w*h <= 2^31) and '
               'probe points for which contains() does not overflow (probe_ok / eprobe_ok, exact conditions, see C05); outside that range the '
               'code panics (overflow checks) or wraps (release) and band / symmetry / equality with the ellipse are not claimed']
TRUSTED = []
PARTIAL = []

LEVEL_TEXT = ('Proof (integer part, Circle and Ellipse): Coq theorems over the Gallina models of Circle::contains / Ellipse::contains '
              '(EllipseContains with its circle special case and the diameter <= 4 threshold correction, as written) state: every accepted '
              'pixel centre lies inside the ideal circle / ellipse grown by half a pixel and every pixel centre inside the ideal shape shrunk '
              'by half a pixel is accepted; both shapes are mirror symmetric about both centre lines; every row and column is one contiguous '
              'run; a circle of diameter >= 1 has an accepted point on each side of its bounding box; the ellipse with equal axes has exactly '
              "the circle's contains() and points(). Rounded-rectangle, arc and sector clauses: see the parts.")
LEVEL_NOTE = ('Trusted: Coq kernel, extraction (ExtrOcamlBasic), the OCaml/Rust drivers; the hand-written model is validated by differential '
              'testing, not proved equal to the Rust code.')

CLAIMED = True
