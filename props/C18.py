"""C18 - Curved primitives match their mathematical shapes and each other  (metadata; generators live here and/or in props/C18_*.py parts)"""
CLAIMED = False   # set True by the owner once ./check C18 passes with real theorems
LEVEL = 'proof'
LEVEL_TEXT = 'TODO'
LEVEL_NOTE = 'TODO'
