"""C18, RoundedRectangle part: confine_radii, zero radii = rectangle, half radii = ellipse, contiguity, corner band."""
from common import *
from rrect_common import *

RULE = ('rrect correspondence: rr_confine (CornerRadii::confine via confine_radii()) on random radii/sizes: small (0..12 / 0..8), medium, and up to 65535 '
        '(radius x side stays below 2^32, the u32 product of the code), incl. several sides overflowing with different ratios. '
        'rrect search on the implementation: p_rr_builder (construction API vs struct literals, see the C05 part), p_rr_confine (sides fit, fitting radii unchanged, idempotent, never grows, contains() unchanged by '
        'confine_radii()), p_rr_zero, p_rr_half, p_rr_contig, p_rr_band judge the shape as EVERY observation sees it (contains() over box+margin, points(), fill-only styled draw() on a native and on a draw_iter-only target, fill-only pixels()); shapes with unequal corner heights/widths on the same edge over-represented. p_rr_zero (zero radii = Rectangle: contains over box+2 and points()), p_rr_half (even sides, radii = half sides = Ellipse: all '
        'ra,rb in 0..16 exhaustively + random up to 60; oversized equal radii are confined back), p_rr_contig (rows and columns of contains() contiguous), '
        'p_rr_band (corner pixels vs the ideal quarter ellipse, half-pixel band).')
PARTIAL = []
ASSUMPTIONS = ['rrect confine: C18_rrect_confine_sound is over unbounded Z for all non-negative radii/sides; C18_rrect_confine_sound_machine carries the '
               'range hypothesis confine_arith_ok (u32 sums and products radius x side fit; C08_rrect_confine_arith_fits: both <= 65535 suffices). '
               'All shape theorems carry rr_dom (rr_ok and rr_arith_ok, see the C05 rrect part)',
               'rrect half = ellipse: stated against rr_ellipse_contains, the model-private line-by-line copy of Ellipse::contains (center_2x, EllipseContains, '
               'diameter_to_threshold); compared with the real Ellipse by the suites rr_ellipse_pt / rr_ellipse_map']
TRUSTED = ['rrect: hand-written model coq/Model/Rrect.v validated by differential testing, not proved equal to the Rust code']


def conf(rng):
    k = rng.random()
    if k < 0.4:
        return small(rng)
    if k < 0.7:
        return medium(rng)
    w, h = rng.choice([0, 1, rng.randrange(65536), rng.randrange(300)]), rng.choice([0, 1, rng.randrange(65536), rng.randrange(300)])
    m = rng.choice([300, 65535])
    return [coord(rng, True), coord(rng, True), w, h] + radii(rng, m)


def uneven(rng):
    """corner heights (and widths) that differ on the same edge: right taller than left, bottom-left vs bottom-right, ..."""
    w, h = rng.randrange(4, 41), rng.randrange(4, 41)
    lo = lambda m: rng.randrange(0, max(1, m // 4) + 1)
    hi = lambda m: rng.randrange(m // 3, m + 1)
    k = rng.randrange(6)
    if k == 0:      # right corners taller than the left ones
        r = [hi(w // 2), lo(h), hi(w // 2), hi(h // 2), hi(w // 2), hi(h // 2), hi(w // 2), lo(h)]
    elif k == 1:    # left taller than right
        r = [hi(w // 2), hi(h // 2), hi(w // 2), lo(h), hi(w // 2), lo(h), hi(w // 2), hi(h // 2)]
    elif k == 2:    # only the top right corner rounded
        r = [0, 0, hi(w), hi(h), 0, 0, 0, 0]
    elif k == 3:    # only the bottom right corner rounded
        r = [0, 0, 0, 0, hi(w), hi(h), 0, 0]
    elif k == 4:    # bottom corners wider on one side, top on the other
        r = [hi(w // 2), hi(h // 2), lo(w), hi(h // 2), hi(w // 2), hi(h // 2), lo(w), hi(h // 2)]
    else:           # diagonal pair tall, the other pair flat
        r = [hi(w // 2), hi(h), lo(w), lo(h), hi(w // 2), hi(h), lo(w), lo(h)]
    return [rng.randrange(-20, 21), rng.randrange(-20, 21), w, h] + r


def cases(tier, rng):
    yield J('rr_confine', 0, 0, 100, 10, 60, 10, 50, 0, 0, 0, 0, 9)
    yield J('rr_confine', 0, 0, 50, 60, *([40, 40] * 4))
    n = 20000 if tier == 'quick' else 400000
    for _ in range(n):
        yield J('rr_confine', *conf(rng))
    # the model's copy of Ellipse::contains (used by C18_rrect_half_eq_ellipse) vs the real Ellipse
    for w in range(0, 21):
        for h in range(0, 21):
            yield J('rr_ellipse_map', -4, 3, w, h)
    for _ in range(n // 4):
        x, y, w, h = coord(rng, True), coord(rng, True), rng.randrange(0, 2000), rng.randrange(0, 2000)
        yield J('rr_ellipse_pt', x, y, w, h, x + rng.randrange(-2, w + 3), y + rng.randrange(-2, h + 3))
        yield J('rr_ellipse_map', rng.randrange(-50, 50), rng.randrange(-50, 50), rng.randrange(0, 45), rng.randrange(0, 45))


def search(tier, rng):
    yield J('p_rr_confine', 0, 0, 100, 10, 60, 10, 50, 0, 0, 0, 0, 9)
    yield J('p_rr_builder', 3, -2, 20, 30, 1, 2, 3, 4, 5, 6, 7, 8)
    for _ in range(500 if tier == 'quick' else 20000):
        # the builder suite also compares points(): stay inside the shape domain (sides <= 16383, radii that do not overflow the
        # u64 quadrant test); conf() with extents up to 65535 is for the pure radius arithmetic of p_rr_confine only
        yield J('p_rr_builder', *(small(rng) if rng.random() < 0.5 else medium(rng)))
    for ra in range(17):
        for rb in range(17):
            yield J('p_rr_half', -3, 4, ra, rb, 1 + (ra + rb) % 3)
    for w in range(13):
        for h in range(13):
            yield J('p_rr_zero', 2, -5, w, h)
    # regression shape of seeded C18-D: top right corner taller than top left
    yield J('p_rr_band', 0, 0, 20, 20, 3, 2, 8, 9, 0, 0, 0, 0)
    yield J('p_rr_contig', 0, 0, 20, 20, 3, 2, 8, 9, 0, 0, 0, 0)
    n = 6000 if tier == 'quick' else 150000
    for _ in range(n):
        yield J('p_rr_confine', *conf(rng))
        k = rng.random()
        g = uneven(rng) if k < 0.35 else small(rng) if k < 0.75 else medium(rng)
        yield J('p_rr_contig', *g)
        yield J('p_rr_band', *g)
    for _ in range(n // 6):
        yield J('p_rr_half', rng.randrange(-40, 41), rng.randrange(-40, 41), rng.randrange(61), rng.randrange(61), rng.randrange(4))
        yield J('p_rr_zero', *rect(rng))
