"""C18, sector + arc part: angular shapes (Sector, Arc, styled sector/arc) against the Coq model
coq/Model/Sectormodel.v, whose plane sector (two integer normals + set operation) is a PARAMETER.

Two-phase generation: the angle pairs are first run through the implementation-side suite
`hook_normals` (verif_hooks::plane_sector_parts of the real PlaneSector::new, plus the bevel line of
sector/styled.rs); the case lines then carry the angles (for the implementation) AND the normals (for
the model); the implementation suites re-check that the normals they are given equal the hook's."""
import os, subprocess
from common import *

V = os.path.dirname(os.path.dirname(os.path.abspath(__file__)))
ORACLE = os.path.join(V, '.build', 'cargo', 'release', 'eg_oracle')

RULE = ('sector/arc correspondence: Sector::points/contains, Arc::points (row bit masks; order checked), styled sector and arc '
        'pixels()/draw()/bounding_box, Sector::offset, Sector/Arc::with_center + center() (sec_ctor: every d 0..40, random up to 2^20; search p_sec_ctor: with_center(center()) = id, from_circle(to_circle()) = id, center = box centre = Circle centre); angles: whole-degree (start, sweep) pairs (quick: 30 sweeps per start '
        'rotating through -360..360, d in {23,24}; thorough: ALL 360x721 pairs for d in {23,24} and every d in 0..24 for a 1/9 '
        'sample), random hundredths of degrees and random f32 bit patterns in +-1080 deg, sweeps clustered at 0, +-55, +-180, '
        '+-305, +-360 deg; diameters 0..60 (masks, contains windows) and 61..128 (point lists, styled); stroke widths 0..12 all alignments, fill/stroke colours present or not; positions '
        '+-70 and +-2^20. Normals fed to the model come from the hook of the real code. fixed_point build: fx_parts = PlaneSector::new on I16F16 angle bit patterns against the exact integer model Trigfixed (the object of the C18_trigfixed theorems). search (implementation only): trig '
        'hypothesis |n - 1024 u| <= 3 and Union/Intersection/EntirePlane choice against f64 at every whole degree, all '
        'whole-degree pairs, 1e5 (quick) / 2e7 (thorough) random f32 (start, sweep) pairs, quick: every 256th f32 bit pattern in +-1440 deg (residue class rotating with VERIF_SEED, 9e6 angles per build), thorough: EVERY f32 bit pattern in +-1440 deg; measured worst eps is part of every result line (2.12 f32 / 9.85 fixed_point); the same on a second harness binary built with --features fixed_point (eps 10, plus a model correspondence batch with the normals of that build); |sweep| >= 360 deg -> EntirePlane and '
        'sector = circle, arc = ring; every sector/arc point within 1.5 px of the swept angle and every deeper circle point '
        'present, d up to 128 - each clause evaluated on Sector::points(), Sector::contains() over box+2, the pixels()/draw() of a fill-only '
        'styled sector, Arc::points() and the pixels()/draw() of a stroke-1 styled arc.')
PARTIAL = [
    'fixed_point build: the trig hypothesis is a THEOREM (Properties/C18_trigfixed.v: C18_trigfixed_hypothesis, eps = 10, for Angle '
    'values within +-1_900_000 I16F16 bits = +-1661 deg, start and end) about the exact integer model coq/Model/Trigfixed.v; '
    'rays_proper is proved (C18_trigfixed_rays_proper) for sweeps of 2.0003..176.9997, 183.0003..357.9997 and >= 360 deg, so '
    'C18_trigfixed_sector_near_cone_closed / covers_cone_closed carry NO trig assumption; outside those sweep bands rays_proper '
    'stays validated (trig_check). The theorems speak about the Angle value stored in the Angle (I16F16 bits / 65536 rad): the '
    'f32 -> I16F16 conversion of Angle::from_degrees (f32 multiply, divide, from_num; < 2^-16 rad) is not modelled. '
    'f32 (default) build: hypothesis validated only, as below',
    'trig hypothesis: `trig_hypothesis ps start sweep eps` and `rays_proper ps` (coq/Proofs/Sectorangle.v; Coq sin/cos) are ASSUMED '
    'of the external call PlaneSector::new and validated by trig_check (p_trig_*) through the hook, not proved; every angular '
    'theorem (C18_sector_near_cone / covers_cone / within_sweep / covers_sweep, arc analogues) is conditional on it; the link '
    '|sweep| >= 360 deg -> EntirePlane is its first clause (p_entire, p_trig_*), likewise Union iff |sweep| >= 180 deg',
    'C18_sector_near_cone / covers_cone hold for eps <= 10 (covers both builds); the older line-distance forms '
    'C18_sector_within_sweep / covers_sweep (eps <= 16) bound the distance to the two radial LINES only: below 180 deg that '
    'alone would allow points up to 1.5/sin(sweep/2) px behind the apex, and from 180 deg on its premise skips centre-near '
    'points - near_cone / covers_cone / C18_sector_union_exact close both gaps',
    'outside the angular theorems: |sweep| in [179.999, 180.001) and [359.999, 360) deg (f32 comparison may pick either '
    'operation: sweep_unambiguous), Intersection sectors with det(right,left) <= 0 = class K18_tiny_sweep_opposite_side '
    '(|sweep| < 0.12 deg f32 / < 1.01 deg fixed_point: the recorded finding; and 179.88..180 resp. 178.99..180 deg where the '
    'rounded normals may be exactly opposite), Union sectors within the same resolution of 180 / 360 deg unless both normals '
    'coincide: there only p_sec_within (true distance to the nearer ray, f64, on the implementation) speaks',
    'covers_cone asks that the closed 1.5-px disc around the point be strictly inside the sweep (off both radial lines); '
    'the property text says "further than 1.5 px inside the sweep"',
    'diameters <= 128 as in the property; angles: the hypothesis is validated for start in +-1080 deg and end angles in '
    '+-1440 deg (every f32 in thorough, every 256th in quick), from_degrees only',
]
TRUSTED = ['fixed_point theorem chain: the model of the `fixed` crate 1.31 operations in coq/Model/Trigfixed.v (mul = floor, div = toward zero, '
           'round = ties away from zero, i32::from = toward zero; read from fixed-1.31.0/src/arith.rs, macros_round.rs) is tied to the code '
           'only by the fx_parts correspondence on the fixed_point binary (whole/half degrees +-1440 deg with neighbours, rounding '
           'boundaries, thresholds, random bit patterns; 27k quick / 380k thorough); table and constants regenerated by '
           'translate/gen_sin.py (fails closed on any change of the sin/cos/with_angle/PlaneSector::new source shape); numeric bounds '
           'by the Coq Interval library; Coq primitive 63-bit integers: PrimInt63 primitives and Uint63 specification axioms (standard library), used by Interval bigint floats with i_prec 64; no PrimFloat axioms',
           'Coq standard-library axioms: Reals (ClassicalDedekindReals.sig_forall_dec, sig_not_dec), Classical_Prop.classic (via sqrt/acos in the polar form of the sector), '
           'FunctionalExtensionality.functional_extensionality_dep) in the C18_sector_* / C18_arc_* theorems over R',
           'external call, validated not proved: sin/cos of micromath (f32) or the I16F16 table behind PlaneSector::new; observed '
           'through the add-only hook embedded_graphics::primitives::verif_hooks::plane_sector_parts; trig_check '
           '(harness/src/suites/c18_sector.rs) uses f64 sin/cos where the Coq definition uses the real functions',
           'bevel kind/normal of sector/styled.rs:63-88 are recomputed in harness/src/suites/c18_sector.rs through the public Angle API']
ASSUMPTIONS = ['sector/arc bounding boxes within +-2^29 (rect_ok), where the unbounded model equals i32/u32 arithmetic',
               'contains() probes within 32767 doubled units of the centre per axis (probe_ok, Proofs/Sectormodel.v): the i32 '
               '`length_squared` of the code wraps beyond (release: Sector (0,0) d=11 sweep 360 .contains((32773,5)) = true; with '
               'overflow checks: panic) - C05_sector_far_probe_wraps is the machine-checked witness; diameters < 2^15']

EPS_MILLI = 3000        # f32 / micromath build: measured 2.118 over every f32 angle in +-1440 deg
EPS_MILLI_FP = 10000    # fixed_point build: whole-degree table lookup, 1024*sin(0.5 deg) = 8.94 + truncation; measured 9.858 over every f32 angle in +-1440 deg.
                        # 10 is the eps at which C18_sector_near_cone_fixed_point / covers_cone_fixed_point are instantiated
                        # (their proof needs eps <= 10; the line-distance theorems allow 16): the test is exactly the theorem's hypothesis


def D(k):
    """whole degrees -> angle token (hundredths of a degree)"""
    return 'D%d' % (k * 100)


def run_lines(exe, lines):
    if not lines:
        return []
    out = subprocess.run([exe], input='\n'.join(lines) + '\n', stdout=subprocess.PIPE, stderr=subprocess.DEVNULL, text=True, timeout=3000).stdout.split('\n')
    return [out[k] if k < len(out) else 'MISSING-OUTPUT' for k in range(len(lines))]


def hook(pairs, exe=None):
    """[(A, S)] -> [[op, lx, ly, rx, ry, bk, bx, by]] from the implementation"""
    if not pairs:
        return []
    inp = '\n'.join('hook_normals %s %s' % p for p in pairs) + '\n'
    out = subprocess.run([exe or ORACLE], input=inp, stdout=subprocess.PIPE, stderr=subprocess.DEVNULL, text=True, timeout=900).stdout.split('\n')
    res = []
    for k in range(len(pairs)):
        t = out[k].split() if k < len(out) else []
        # a hook that panics / is missing: hand the model an impossible value, the case then disagrees visibly
        res.append(t if len(t) == 8 else ['9', '0', '0', '0', '0', '0', '0', '0'])
    return res


def rand_angle(rng):
    k = rng.random()
    if k < 0.35:
        return D(rng.randrange(-400, 401))
    if k < 0.8:
        return 'D%d' % rng.randrange(-72000, 72001)
    import struct
    v = rng.uniform(-1080, 1080)
    return 'B%d' % struct.unpack('<I', struct.pack('<f', v))[0]


def rand_sweep(rng):
    k = rng.random()
    if k < 0.3:
        base = rng.choice([0, 55, -55, 180, -180, 305, -305, 360, -360, 90, -90])
        return 'D%d' % (base * 100 + rng.choice([0, 0, 1, -1, 7, -7, 50, -50, rng.randrange(-300, 301)]))
    return rand_angle(rng)


def rand_style(rng):
    k = rng.random()
    w = 0 if k < 0.1 else 1 if k < 0.3 else rng.randrange(0, 13)
    return (rng.choice([0, 7]), rng.choice([0, 9, 9]), w, rng.randrange(3))


def whole_pairs(tier):
    if tier == 'quick':
        return [(s, ((s * 7 + j * 24) % 721) - 360) for s in range(360) for j in range(30)]
    return [(s, w) for s in range(360) for w in range(-360, 361)]


def cases(tier, rng):
    out = []
    # (1) whole-degree pairs, both parities of the doubled coordinates, all |delta| <= 24
    wp = whole_pairs(tier)
    hn = hook([(D(s), D(w)) for s, w in wp])
    for k, ((s, w), n) in enumerate(zip(wp, hn)):
        ps = J(*n[:5])
        if tier == 'quick':
            d = 23 + (k & 1)
            out.append(J('sec_mask', 0, 0, d, D(s), D(w), ps))
            out.append(J('arc_mask', 0, 0, 47 - d, D(s), D(w), ps))
        else:
            for d in (23, 24):
                out.append(J('sec_mask', 0, 0, d, D(s), D(w), ps))
                out.append(J('arc_mask', 0, 0, d, D(s), D(w), ps))
            if k % 9 == 0:
                for d in range(0, 23):
                    out.append(J('sec_mask', -3, 5, d, D(s), D(w), ps))
                    out.append(J('arc_mask', -3, 5, d, D(s), D(w), ps))
    # (2) every diameter 0..24 on a coarse angle grid (quick) - thresholds incl. the d <= 4 correction
    if tier == 'quick':
        g = [(s, w) for s in range(0, 360, 45) for w in (-360, -300, -181, -90, -30, 0, 1, 54, 56, 90, 179, 180, 270, 306, 359, 360, 400)]
        hg = hook([(D(s), D(w)) for s, w in g])
        for (s, w), n in zip(g, hg):
            for d in range(0, 25):
                out.append(J('sec_mask', 2, -1, d, D(s), D(w), *n[:5]))
                out.append(J('arc_mask', 2, -1, d, D(s), D(w), *n[:5]))
    # (3) random angles / diameters / positions / styles
    n = 2500 if tier == 'quick' else 40000
    spec = []
    for _ in range(n):
        a, s = rand_angle(rng), rand_sweep(rng)
        k = rng.random()
        d = rng.choice([0, 1, 2, 3, 4, 5]) if k < 0.2 else rng.randrange(0, 25) if k < 0.7 else rng.randrange(0, 61)
        big = rng.random() < 0.1
        x, y = coord(rng, big), coord(rng, big)
        spec.append((x, y, d, a, s, rand_style(rng), rand_style(rng), rng.randrange(0, 4), big))
    hs = hook([(t[3], t[4]) for t in spec])
    for (x, y, d, a, s, st1, st2, m, big), nn in zip(spec, hs):
        ps = J(*nn[:5])
        out.append(J('sec_points', x, y, d, a, s, ps))
        out.append(J('arc_points', x, y, d, a, s, ps))
        if d + 2 * m <= 60:
            out.append(J('sec_contains', x, y, d, a, s, ps, m))
        out.append(J('sec_styled', x, y, d, a, s, ps, *nn[5:8], *st1))
        out.append(J('arc_styled', x, y, d, a, s, ps, *st2))
        out.append(J('sec_offset', x, y, d, rng.randrange(-14, 15)))
    # (3b) diameters up to 128 (the range of the accuracy theorems): point lists, a few styled
    spec = []
    for _ in range(150 if tier == 'quick' else 3000):
        spec.append((coord(rng), coord(rng), rng.randrange(61, 129), rand_angle(rng), rand_sweep(rng), rand_style(rng)))
    for dd in (64, 100, 127, 128):
        for (a, s) in ((D(0), D(90)), (D(30), D(-300)), (D(210), D(120)), (D(10), D(20)), (D(0), D(360)), (D(45), D(200))):
            spec.append((0, 0, dd, a, s, (7, 9, 5, 1)))
    hs = hook([(t[3], t[4]) for t in spec])
    for k, ((x, y, d, a, s, st), nn) in enumerate(zip(spec, hs)):
        ps = J(*nn[:5])
        out.append(J('sec_points', x, y, d, a, s, ps))
        out.append(J('arc_points', x, y, d, a, s, ps))
        if k % 5 == 0:
            out.append(J('sec_styled', x, y, d, a, s, ps, *nn[5:8], *st))
            out.append(J('arc_styled', x, y, d, a, s, ps, *st))
    # (3c) constructors: with_center / center for every diameter 0..40 (odd and even) and random ones, both signs
    for d in range(0, 41):
        for (cx, cy) in ((0, 0), (-7, 3), (10, -10)):
            out.append(J('sec_ctor', cx, cy, d))
    for _ in range(300 if tier == 'quick' else 5000):
        big = rng.random() < 0.2
        out.append(J('sec_ctor', coord(rng, big), coord(rng, big), rng.randrange(0, 300) if not big else rng.randrange(0, 2 ** 20)))
    # (4) styled, whole degrees around the bevel / operation thresholds, all alignments
    sw = [0, 1, 30, 54, 55, 56, 90, 179, 180, 181, 270, 304, 305, 306, 359, 360]
    g = [(s, w * sg) for s in range(0, 360, 15 if tier == 'quick' else 5) for w in sw for sg in (1, -1)]
    hg = hook([(D(s), D(w)) for s, w in g])
    for k, ((s, w), nn) in enumerate(zip(g, hg)):
        for al in range(3):
            wd = [1, 3, 4, 9][(k + al) % 4]
            d = [9, 16, 21, 30][(k // 3 + al) % 4]
            out.append(J('sec_styled', -4, 3, d, D(s), D(w), *nn[:5], *nn[5:8], 7, 9, wd, al))
            out.append(J('arc_styled', -4, 3, d, D(s), D(w), *nn[:5], 0, 9, wd, al))
    return out


TOP = 0x44B40000  # f32 bits of 1440.0: start in +-1080 deg plus sweeps up to +-360 deg for the end angle


def trig_bits(tier, rng, eps):
    """with_angle for f32 bit patterns of angles in +-1440 deg.
    quick: a stratified exhaustive slice - every 256th bit pattern, the residue class rotating with VERIF_SEED
    (9 million angles per build); thorough: EVERY bit pattern."""
    out = []
    if tier == 'quick':
        off = int(os.environ.get('VERIF_SEED', '1')) % 256
        step = 1 << 27
        for sign in (0, 1 << 31):
            for lo in range(0, TOP + 1, step):
                out.append(J('p_trig_stride', sign | lo, sign | min(lo + step, TOP + 1), 256, off, eps))
    else:
        for sign in (0, 1 << 31):
            for lo in range(0, TOP + 1, 1 << 24):
                out.append(J('p_trig_bits', sign | lo, sign | min(lo + (1 << 24), TOP + 1), eps))
    return out


def search(tier, rng):
    out = []
    for lo in range(-1080, 1080, 120):
        out.append(J('p_trig_deg', lo, lo + 120, EPS_MILLI))
    for lo in range(0, 360, 24):
        out.append(J('p_trig_pairs', lo, lo + 23, EPS_MILLI))
    k, per = (10, 10000) if tier == 'quick' else (80, 250000)
    for j in range(k):
        out.append(J('p_trig_rand', rng.randrange(1 << 48), per, EPS_MILLI))
        out.append(J('p_entire', rng.randrange(1 << 48), per // 2))
    out += trig_bits(tier, rng, EPS_MILLI)
    # geometric reading of the property on the implementation
    for s in range(0, 360, 9 if tier == 'quick' else 2):
        for j, w in enumerate([-359, -270, -181, -180, -100, -54, -2, 0, 1, 33, 89, 90, 135, 179, 180, 200, 306, 355, 360, 720]):
            d = [9, 24, 63, 128, 40][(s + j) % 5]
            out.append(J('p_sec_within', 0, 0, d, D(s), D(w)))
    # small diameters (threshold correction d <= 4), every observation (points, contains, filled pixels, arc)
    for d in range(0, 10):
        for s0 in (0, 45, 200):
            for w in (360, -360, 400, 90, -135, 200, -300, 30):
                out.append(J('p_sec_within', -3, 2, d, D(s0), D(w)))
    n = 1500 if tier == 'quick' else 30000
    for _ in range(n):
        k = rng.random()
        d = rng.randrange(0, 26) if k < 0.5 else rng.randrange(0, 129)
        out.append(J('p_sec_within', coord(rng), coord(rng), d, rand_angle(rng), rand_sweep(rng)))
    for d in range(0, 34):
        for (x, y) in ((0, 0), (-9, 4)):
            out.append(J('p_sec_ctor', x, y, d, D(30), D(-300)))
    for _ in range(400 if tier == 'quick' else 8000):
        big = rng.random() < 0.2
        out.append(J('p_sec_ctor', coord(rng, big), coord(rng, big), rng.randrange(0, 200), rand_angle(rng), rand_sweep(rng)))
    for _ in range(200 if tier == 'quick' else 4000):
        out.append(J('p_sec_far', coord(rng), coord(rng), rng.randrange(0, 129), rand_angle(rng), rand_sweep(rng)))
    return out + fixed_point_search(tier, rng)


# ---- the `fixed_point` feature set ---------------------------------------------------------------
# ./check builds one harness binary (default features).  The property also speaks about the fixed_point
# build, so this part builds a second binary (.build/cargo-fp) from the same harness sources with
# `--features fixed_point`, runs the trig / geometric search suites and a model correspondence batch on it
# (normals from the fixed-point hook) and hands each verdict to the check as a `p_fixed_point` search line.
def fp_oracle():
    h = os.path.join(V, 'harness')
    env = dict(os.environ, CARGO_NET_OFFLINE='true', CARGO_TARGET_DIR=os.path.join(V, '.build', 'cargo-fp'))
    p = subprocess.run('cargo build -j4 --release --offline --features fixed_point', shell=True, cwd=h, env=env,
                       stdout=subprocess.PIPE, stderr=subprocess.STDOUT, text=True, timeout=3000)
    exe = os.path.join(V, '.build', 'cargo-fp', 'release', 'eg_oracle')
    return exe if p.returncode == 0 and os.path.exists(exe) else None


def fx_cases(tier, rng):
    """fx_parts <start bits> <sweep bits>: PlaneSector::new of the fixed_point build on I16F16 angle BIT PATTERNS against
    the exact integer model coq/Model/Trigfixed.v (the model the C18_trigfixed_* theorems are about): every whole and
    half degree in +-1440 deg with its +-3 bit neighbours, the rounding boundaries of `degree`, the operation
    thresholds (PI, TAU bits +-1), random bit patterns."""
    import math
    out = []
    step = 1 if tier != 'quick' else 5
    off = int(os.environ.get('VERIF_SEED', '1')) % step
    for h in range(-2880 + off, 2881, step):
        b = round(h / 2 * math.pi / 180 * 65536)
        for d in range(-3, 4):
            out.append(J('fx_parts', b + d, 0))
    for k in range(-1440, 1441, 3 if tier != 'quick' else 29):
        b = round((k + 0.5) * 205887 / 180)
        for d in range(-4, 5):
            out.append(J('fx_parts', b + d, rng.choice([0, 0, 51472, -205000])))
    for _ in range(12000 if tier == 'quick' else 300000):
        a = rng.randrange(-1647100, 1647101)
        k = rng.random()
        if k < 0.6:
            w = rng.randrange(-420000, 420001)
        elif k < 0.8:
            w = rng.choice([0, 205886, 205887, 205888, 411774, 411775, 411776, 102943, 102944, 102945]) * rng.choice([1, -1])
        else:
            w = rng.randrange(-3000, 3001)
        out.append(J('fx_parts', a, w))
    return out


def fixed_point_search(tier, rng):
    exe = fp_oracle()
    if exe is None:
        return ['p_fixed_point FAIL class=fixed_point_build the harness does not build with --features fixed_point']
    lines = []
    for lo in range(-1080, 1080, 120):
        lines.append(J('p_trig_deg', lo, lo + 120, EPS_MILLI_FP))
    for lo in range(0, 360, 24):
        lines.append(J('p_trig_pairs', lo, lo + 23, EPS_MILLI_FP))
    k, per = (10, 10000) if tier == 'quick' else (80, 250000)
    for j in range(k):
        lines.append(J('p_trig_rand', rng.randrange(1 << 48), per, EPS_MILLI_FP))
        lines.append(J('p_entire', rng.randrange(1 << 48), per // 2))
    lines += trig_bits(tier, rng, EPS_MILLI_FP)
    for s in range(0, 360, 15 if tier == 'quick' else 3):
        for j, w in enumerate([-359, -270, -181, -180, -100, -54, -2, 1, 33, 89, 90, 135, 179, 180, 200, 306, 355, 360, 720]):
            lines.append(J('p_sec_within', 0, 0, [9, 24, 63, 128, 40][(s + j) % 5], D(s), D(w)))
    for _ in range(500 if tier == 'quick' else 10000):
        d = rng.randrange(0, 26) if rng.random() < 0.5 else rng.randrange(0, 129)
        lines.append(J('p_sec_within', coord(rng), coord(rng), d, rand_angle(rng), rand_sweep(rng)))
        lines.append(J('p_sec_c05', coord(rng), coord(rng), rng.randrange(0, 41), rand_angle(rng), rand_sweep(rng), rng.randrange(0, 4)))
    out = ['p_fixed_point %s :: %s' % (r, l) for l, r in zip(lines, run_lines(exe, lines))]
    # correspondence of the model with the fixed-point build
    spec = []
    for s in range(0, 360, 5 if tier == 'quick' else 1):
        for j in range(6 if tier == 'quick' else 40):
            spec.append((0, 0, 23 + (s + j) % 2, D(s), D(((s * 7 + j * 121) % 721) - 360), rand_style(rng)))
    for _ in range(1000 if tier == 'quick' else 20000):
        spec.append((coord(rng), coord(rng), rng.randrange(0, 41), rand_angle(rng), rand_sweep(rng), rand_style(rng)))
    hs = hook([(t[3], t[4]) for t in spec], exe)
    cl = []
    for (x, y, d, a, s, st), nn in zip(spec, hs):
        ps = J(*nn[:5])
        cl.append(J('sec_mask', x, y, d, a, s, ps))
        cl.append(J('arc_mask', x, y, d, a, s, ps))
        cl.append(J('sec_styled', x, y, d, a, s, ps, *nn[5:8], *st))
        cl.append(J('arc_styled', x, y, d, a, s, ps, *st))
    cl += fx_cases(tier, rng)
    impl = run_lines(exe, cl)
    model = run_lines(os.path.join(V, '.build', 'ocaml', 'model_oracle'), cl)
    B = 500
    for i in range(0, len(cl), B):
        bad = [(l, a, b) for l, a, b in zip(cl[i:i + B], impl[i:i + B], model[i:i + B]) if a != b]
        if bad:
            l, a, b = bad[0]
            out.append('p_fixed_point FAIL class=fixed_point_correspondence %d of %d cases differ, first: %s impl=%s model=%s' % (len(bad), len(cl[i:i + B]), l, a[:120], b[:120]))
        else:
            out.append('p_fixed_point OK correspondence model vs fixed_point build, cases %d..%d' % (i, i + len(cl[i:i + B])))
    return out
