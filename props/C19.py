"""C19 - Triangles cover their interior and polylines are the union of their segments  (metadata; generators live here and/or in props/C19_*.py parts)"""
CLAIMED = False   # set True by the owner once ./check C19 passes with real theorems
LEVEL = 'proof'
LEVEL_TEXT = 'TODO'
LEVEL_NOTE = 'TODO'
