"""C19 - Triangles cover their interior and polylines are the union of their segments."""
from common import *
import itertools

CLAIMED = True
LEVEL = 'proof'
LEVEL_TEXT = ('Proof for all 7 clauses (clause 6, the 1px triangle outline = its three edge lines, for every proper triangle and every alignment: C19_join_tri_outline_w1_proper of the join part (is_collapsed with width 1 <-> no area); triangles without area: the same for Center/Outside, '
              'collapsed Inside strokes = the rows of Triangle::scanline_intersection: C19_join_collapsed_inside_pixels). Models: Triangle::points()/bounding_box() (scanline iterator, Scanline::extend, bresenham_intersection, sorted_yx, sorted_clockwise, '
              'area_doubled as written), the Polyline Points iterator (the nth(1) recursion step by step), and Styled<Triangle> pixels()/draw() for stroke width 0 '
              '(step-by-step pixel iterator over the un-fused scanline iterator). Proved for ALL triangles with coordinates within +-8192, for Triangle::points() '
              'AND for the styled fill (pixels() = the fill_solid writes of draw() = points() in the fill colour): the points do not depend on the vertex order (same list); '
              'every lattice point of the closed mathematical triangle is yielded (colinear/coincident vertices: exactly the Bresenham line between the extreme vertices); '
              'every yielded point is in the closed triangle or a Bresenham pixel of a sorted edge, hence within HALF a pixel of an edge segment; the lines between the '
              'sorted vertices are part of the fill, two triangles on one edge share that line and leave no gap; row-major, inside the bounding box. For ALL polylines '
              '(0, 1 or more vertices, repeats, reversals, any translate): points() and the 1px styled pixels()/draw() = first segment line ++ every further line without its first point. '
              'NOT covered by a theorem: the fill between the strokes of a triangle with fill + stroke of width >= 1 (clause 1 for them): search suite p_tri_cover; clause 6 is also searched by p_tri_outline '
              '(clause 1 at full strength for widths 0, 1 and Outside alignment; for wider Inside/Center strokes for the lattice points farther than width + 1 from every edge).')
LEVEL_NOTE = ('Trusted: Coq kernel, extraction, the OCaml/Rust drivers; the hand-written model is validated by differential testing, not proved equal to '
              'the Rust code. Thin-line lemmas: Proofs/Line.v of builder "line". Arithmetic is unbounded Z; theorems carry tri_ok (+-8192), the range in which '
              'area_doubled/contains stay inside i32 (C19_tri_range_no_overflow). tri_outline_w1 (clause 6) is proved in Properties/C19_join.v for every triangle and every alignment (C19_join_tri_outline_w1_proper / _w1_any / _flat_inside_w1_is_line); p_tri_outline also compares all three alignments on the implementation.')
RULE = ('correspondence: Triangle::points() / bounding_box() for ALL 117 649 ordered vertex triples of a 7x7 grid (colinear and coincident vertices '
        'included) + random triples up to +-40 (flat/thin/axis-parallel shares), 40 up to +-300, 100 long slivers (edges up to 4000 px, inside +-8192) and small '
        'triangles at the range edge +-8192; Styled<Triangle> width 0 pixels() and fill_solid calls (tri_styled_w0) on all triples (up to order) of a 5x5 grid x 12 '
        'fill/stroke-colour/alignment combinations + random; Polyline::points() / bounding_box() (with translate, and translate twice) for ALL vertex lists of length '
        '0..=4 over a 3x3 grid and 0..=6 over 4 points (thorough: 0..=4 over 4x4, 5 over 3x3, 6 over 6 points) + random lists of up to 6 vertices with forced '
        'repeats and reversals, range edge +-2^20. A case is non-trivial when the model result is not empty; distinct = distinct case lines. '
        'search (implementation only, exact integer reference): p_tri on ALL vertex triples of the 7x7 grid, each in all 6 orders (interior coverage by the closed '
        'cross-product test, within one pixel by exact squared distance, order independence of points() and bounding_box(), sorted-edge lines inside the fill, '
        'row-major, no duplicates, inside the box) + random up to +-60 + 60 long slivers; p_tri_pair on ALL quadruples a<b,c,d of a 4x4 grid (thorough 5x5) as two '
        'triangles sharing edge ab; p_tri_outline (1px stroke = three edge lines, pixels() and draw()): Center on ALL ordered triples of a 6x6 grid, Inside and Outside '
        'on ALL ordered triples of a 5x5 grid (thorough: 7x7 for all three) + random/slivers with random alignment; p_tri_fill (width 0, 3 alignments, with/without stroke colour = points()) '
        'on all triples of a 6x6 grid; p_tri_cover (fill + stroke: every lattice point of the closed triangle painted, painted pixels near the triangle, pixels() = draw()) on all triples '
        '(up to order) of a 6x6 grid x widths 1,2 (thorough 1..4) x 3 alignments + fill-only / stroke-only + random widths 0..12 (clause 1 in full for widths 0, 1 and Outside, '
        'beyond the stroke band otherwise); p_poly on the same polyline lists.')
EXHAUSTIVE = {'quick': False, 'thorough': False}   # finite grids are swept completely (see RULE), the domain of the property is not finite
ASSUMPTIONS = ['triangle vertex coordinates within +-8192 (tri_ok): the range in which the i32 products of area_doubled()/contains() and the bounding-box '
               'arithmetic equal the unbounded model (C19_tri_range_no_overflow)',
               'polylines: the theorems are about the unbounded model; `vertex + translate` is i32 in the code (polyline/points.rs:31,57) and the Bresenham error '
               'terms of a segment need |coordinates| <= 2^28 (C17 line_ok): the tie is claimed for |vertex| + |translate| <= 2^28 (correspondence up to +-2^20)']
TRUSTED = ['modelled, not verified: Iterator::nth(1) = next() twice with early None; Range<i32>::is_empty / RangeInclusive::contains; '
           'Rectangle::rows() (C16 model); DrawTarget::fill_solid(area, c) writes c at every point of area (C01a/C03 are about that)']
PARTIAL = ['clause 1 for triangles with fill AND a stroke of width >= 1: no theorem (thick-stroke pipeline); searched by p_tri_cover (full clause for widths 0, 1 and Outside alignment; '
           'wider Inside/Center strokes: lattice points farther than width + 1 from every edge; see notes/findings/FINDINGS-C19.md "observations outside the property")']

PTS3 = [(x, y) for y in range(3) for x in range(3)]
PTS4 = [(0, 0), (2, 1), (1, 2), (-1, 3)]     # 4 points in general position (steep, shallow and diagonal segments)


def grid_pts(G):
    return [(x - 1, y - 1) for y in range(G) for x in range(G)]


def grid_triples(G):
    g = grid_pts(G)
    for a in g:
        for b in g:
            for c in g:
                yield (*a, *b, *c)


def grid_multisets(G):
    """vertex triples of the GxG grid up to order (the suites that use it try all 6 orders themselves)"""
    g = grid_pts(G)
    for a, b, c in itertools.combinations_with_replacement(g, 3):
        yield (*a, *b, *c)


def rnd_tri(rng, m=40):
    k = rng.random()
    if k < 0.1:
        # flat / thin / colinear
        a = (rng.randrange(-m, m + 1), rng.randrange(-m, m + 1))
        d = (rng.randrange(-6, 7), rng.randrange(-6, 7))
        s, t = rng.randrange(-5, 6), rng.randrange(-5, 6)
        b = (a[0] + s * d[0], a[1] + s * d[1])
        c = (a[0] + t * d[0] + rng.choice([0, 0, 1, -1]), a[1] + t * d[1] + rng.choice([0, 0, 1]))
        return (*a, *b, *c)
    if k < 0.2:
        # one horizontal or vertical edge
        a = (rng.randrange(-m, m + 1), rng.randrange(-m, m + 1))
        b = (rng.randrange(-m, m + 1), a[1]) if rng.random() < 0.5 else (a[0], rng.randrange(-m, m + 1))
        c = (rng.randrange(-m, m + 1), rng.randrange(-m, m + 1))
        v = [a, b, c]
        rng.shuffle(v)
        return (*v[0], *v[1], *v[2])
    if k < 0.5:
        m = 12
    return tuple(rng.randrange(-m, m + 1) for _ in range(6))


def edge_tri(rng):
    s = rng.choice([-1, 1])
    t = rng.choice([-1, 1])
    return tuple((s if i % 2 == 0 else t) * (8192 - rng.randrange(0, 25)) for i in range(6))


def long_thin_tri(rng, L=4000, off=4000):
    """long shallow / steep slivers (few rows or columns, edges thousands of pixels long) anywhere within +-8192"""
    x, y = rng.randrange(-off, off + 1), rng.randrange(-off, off + 1)
    l = rng.randrange(L // 4, L + 1) * rng.choice([-1, 1])
    h1, h2 = rng.randrange(-6, 7), rng.randrange(-6, 7)
    m = rng.randrange(-20, abs(l) + 21) * (1 if l > 0 else -1)
    v = [(x, y), (x + l, y + h1), (x + m, y + h2)]
    if rng.random() < 0.5:
        v = [(b, a) for a, b in v]
    rng.shuffle(v)
    return (*v[0], *v[1], *v[2])


STYLES_W0 = [(f, s, a) for f in (0, 1) for s in (0, 1) for a in (0, 1, 2)]


def rnd_poly(rng, maxn=6, m=30):
    n = rng.randrange(0, maxn + 1)
    vs = []
    for i in range(n):
        k = rng.random()
        if vs and k < 0.15:
            vs.append(vs[-1])                      # repeated vertex
        elif len(vs) >= 2 and k < 0.3:
            vs.append(vs[-2])                      # reversal
        elif k < 0.6:
            vs.append((rng.randrange(-6, 7), rng.randrange(-6, 7)))
        else:
            vs.append((rng.randrange(-m, m + 1), rng.randrange(-m, m + 1)))
    return vs


def flat(vs):
    return [c for v in vs for c in v]


def poly_lists(pts, maxn):
    for n in range(0, maxn + 1):
        for vs in itertools.product(pts, repeat=n):
            yield vs


def cases(tier, rng):
    trip = grid_triples(7)   # ALL ordered vertex triples of the 7x7 grid (117 649), colinear and coincident included
    for t in trip:
        yield J('tri_points', *t)
        yield J('tri_bbox', *t)
    n = 1500 if tier == 'quick' else 25000
    for _ in range(n):
        t = rnd_tri(rng)
        yield J('tri_points', *t)
        yield J('tri_bbox', *t)
    for _ in range(n // 10):
        t = edge_tri(rng)
        yield J('tri_points', *t)
        yield J('tri_bbox', *tuple(rng.randrange(-8192, 8193) for _ in range(6)))
    # size reach: medium triangles up to +-300 and long slivers with edges up to 4000 pixels inside +-8192
    for _ in range(40 if tier == 'quick' else 400):
        yield J('tri_points', *tuple(rng.randrange(-300, 301) for _ in range(6)))
    for _ in range(100 if tier == 'quick' else 1000):
        yield J('tri_points', *long_thin_tri(rng))
    # the styled fill (Model/Tristyled.v tri_styled_pixels_w0, cited by C19_tri_styled_fill_is_points): pixels() and the
    # fill_solid calls of draw() for stroke width 0, every fill / stroke-colour / alignment combination
    for k, t in enumerate(grid_multisets(5)):
        f, sc, al = STYLES_W0[k % 12]
        yield J('tri_styled_w0', *t, f, sc, al)
        if k % 3 == 0:
            yield J('tri_styled_w0_draw', *t, 1, sc, al)
    for _ in range(n // 3):
        yield J('tri_styled_w0', *rnd_tri(rng), rng.randrange(2), rng.randrange(2), rng.randrange(3))
    # polylines
    lists = list(poly_lists(PTS3, 4)) + list(poly_lists(PTS4, 6))
    if tier != 'quick':
        lists += list(poly_lists(grid_pts(4), 4)) + list(itertools.product(PTS3, repeat=5)) + list(itertools.product(PTS3[:6], repeat=6))
    for vs in lists:
        yield J('poly_points', 0, 0, *flat(vs))
    for vs in poly_lists(PTS3, 3):
        yield J('poly_bbox', rng.randrange(-3, 4), rng.randrange(-3, 4), *flat(vs))
    n = 1500 if tier == 'quick' else 25000
    for _ in range(n):
        vs = rnd_poly(rng)
        tr = (rng.randrange(-20, 21), rng.randrange(-20, 21)) if rng.random() < 0.6 else (0, 0)
        yield J('poly_points', *tr, *flat(vs))
        yield J('poly_bbox', *tr, *flat(vs))
        if rng.random() < 0.3:
            yield J('poly_points_tt', rng.randrange(-9, 10), rng.randrange(-9, 10), *tr, *flat(vs))
    for _ in range(n // 10):
        # range edge: large coordinates (polyline points only add/subtract coordinates)
        vs = [(rng.choice([-1, 1]) * (2 ** 20 - rng.randrange(0, 12)), rng.choice([-1, 1]) * (2 ** 20 - rng.randrange(0, 12))) for _ in range(2)]
        vs = [vs[0], (vs[0][0] + rng.randrange(-9, 10), vs[0][1] + rng.randrange(-9, 10)), (vs[0][0] + rng.randrange(-9, 10), vs[0][1] + rng.randrange(-9, 10))]
        yield J('poly_points', rng.randrange(-5, 6), rng.randrange(-5, 6), *flat(vs))
        yield J('poly_bbox', rng.randrange(-5, 6), rng.randrange(-5, 6), *flat(vs))


def search(tier, rng):
    # p_tri tries all 6 vertex orders of its argument itself: the multisets of the 7x7 grid are ALL ordered triples
    for t in grid_multisets(7):
        yield J('p_tri', *t)
    for t in grid_multisets(6):
        yield J('p_tri_fill', *t)
    # 1px outline: Center on all ordered triples; Inside / Outside on all ordered triples of a smaller grid (thorough: same grid)
    for t in (grid_triples(6) if tier == 'quick' else grid_triples(7)):
        yield J('p_tri_outline', *t, 1)
    for t in (grid_triples(5) if tier == 'quick' else grid_triples(7)):
        yield J('p_tri_outline', *t, 0)
        yield J('p_tri_outline', *t, 2)
    # fill + stroke: every lattice point of the closed triangle is painted (clause 1 at Styled::pixels()/draw())
    for k, t in enumerate(grid_multisets(6)):
        for w in ((1, 2) if tier == 'quick' else (1, 2, 3, 4)):
            for al in (0, 1, 2):
                yield J('p_tri_cover', w, al, 1, 1, *t)
        yield J('p_tri_cover', 1 + k % 4, k % 3, 1, 0, *t)
        yield J('p_tri_cover', 1 + k % 4, (k // 3) % 3, 0, 1, *t)
    n = 2500 if tier == 'quick' else 40000
    for _ in range(n):
        t = rnd_tri(rng, 60)
        yield J('p_tri', *t)
        if rng.random() < 0.3:
            yield J('p_tri_fill', *rnd_tri(rng, 40))
        yield J('p_tri_outline', *rnd_tri(rng, 60), rng.randrange(3))
        yield J('p_tri_cover', rng.choice([0, 1, 1, 2, 3, 4, rng.randrange(0, 13)]), rng.randrange(3), 1, rng.choice([1, 1, 1, 0]), *rnd_tri(rng, 40))
    for _ in range(60 if tier == 'quick' else 600):
        yield J('p_tri', *long_thin_tri(rng))
        yield J('p_tri_outline', *long_thin_tri(rng, 1500), rng.randrange(3))
    for _ in range(n // 10):
        yield J('p_tri', *edge_tri(rng))
        off = (rng.choice([-1, 1]) * rng.randrange(900, 1000), rng.choice([-1, 1]) * rng.randrange(900, 1000))
        t = rnd_tri(rng, 20)
        yield J('p_tri_outline', *[c + off[i % 2] for i, c in enumerate(t)])
    # all pairs of triangles sharing an edge: (a,b,c) and (b,d,a)
    g = grid_pts(4 if tier == 'quick' else 5)
    for a in g:
        for b in g:
            if a < b:
                for c in g:
                    for d in g:
                        yield J('p_tri_pair', *a, *b, *c, *d)
    for _ in range(n):
        t = rnd_tri(rng, 30)
        d = (rng.randrange(-30, 31), rng.randrange(-30, 31))
        yield J('p_tri_pair', *t, *d)
    # polylines
    lists = list(poly_lists(PTS3, 4)) + list(poly_lists(PTS4, 6))
    if tier != 'quick':
        lists += list(itertools.product(PTS3, repeat=5)) + list(itertools.product(PTS3[:6], repeat=6))
    for vs in lists:
        yield J('p_poly', 0, 0, *flat(vs))
    for _ in range(n):
        vs = rnd_poly(rng)
        tr = (rng.randrange(-20, 21), rng.randrange(-20, 21)) if rng.random() < 0.5 else (0, 0)
        yield J('p_poly', *tr, *flat(vs))
