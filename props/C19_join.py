"""C19, join part: the 1 px triangle outline through the thick stroke machinery (stroke width 1, Center alignment)."""
from common import *

RULE = ('no cases of its own: the model functions of the theorems (Model/Join.v, Model/JoinTri.v) are compared with the implementation by the C07 '
        'join suites, which include stroke widths 0 and 1 with all three alignments (join_tri_pixels / join_tri_rects / join_tri_bbox, joinh_join)')
PARTIAL = ['C19_join_tri_outline_w1 is proved for Center alignment; Inside / Outside alignment with width 1 take the same path in the implementation '
           '(suites joinh_extents, join_tri_pixels) but are not stated: the width-1 lemma for Line::extents exists for StrokeOffset::None only; '
           'C19_join_tri_outline_w1_partial (per-edge statement) is kept as the stepping stone']
ASSUMPTIONS = ['vertex coordinates within i32 (the saturating cast of the join intersection is the identity on them)']
