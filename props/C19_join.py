"""C19, join part: the 1 px triangle outline through the thick stroke machinery (stroke width 1, every alignment)."""
from common import *

RULE = ('no cases of its own: the model functions of the theorems (Model/Join.v, Model/JoinTri.v) are compared with the implementation by the C07 '
        'join suites, which include stroke widths 0 and 1 with all three alignments (join_tri_pixels / join_tri_rects / join_tri_bbox, joinh_join)')
PARTIAL = ['C19_join_flat_inside_w1_is_line: a triangle without area, width 1, Inside = the single Bresenham line between its extreme vertices; C19_join_tri_outline_w1_proper: every triangle with non-zero area, every alignment (Triangle::is_collapsed with width 1 <-> no area: C19_join_is_collapsed_w1); C19_join_tri_outline_w1_any: pixels() of a width-1 stroke = the three clockwise Bresenham lines for Center and Outside alignment unconditionally and for Inside '
           'alignment whenever Triangle::is_collapsed is false (Line::extents with thickness 1 is the line itself for every StrokeOffset: C19_join_extents_w1_any); '
           'a COLLAPSED Inside stroke (any width; with width 1 only degenerate triangles collapse) paints the rows of Triangle::scanline_intersection of the whole triangle in the stroke colour: C19_join_collapsed_inside_pixels - not the three clockwise edge lines read literally, so clause 6 is stated as these two cases; '
           'C19_join_tri_outline_w1_partial (per-edge statement) is kept as the stepping stone']
ASSUMPTIONS = ['vertex coordinates within i32 (the saturating cast of the join intersection is the identity on them)']
