"""C19, join part: the 1 px triangle outline through the thick stroke machinery (stroke width 1, Center alignment)."""
from common import *

RULE = ('no cases of its own: the model functions of the theorems (Model/Join.v, Model/JoinTri.v) are compared with the implementation by the C07 '
        'join suites, which include stroke widths 0 and 1 with all three alignments (join_tri_pixels / join_tri_rects / join_tri_bbox, joinh_join)')
PARTIAL = ['C19_join_tri_outline_w1_partial (full statement C19_join_tri_outline_w1: a triangle with stroke width 1 and no fill paints exactly the union '
           'of the three Bresenham lines between its clockwise-ordered vertices; proved: for Center alignment each of the three segments of the stroke '
           'IS the Bresenham line between consecutive clockwise vertices; open: the two-slot merge of edge_intersections never drops a scanline, and the '
           'Inside / Outside alignments)']
ASSUMPTIONS = ['vertex coordinates within i32 (the saturating cast of the join intersection is the identity on them)']
