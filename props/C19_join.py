"""C19, join part: the 1 px triangle outline through the thick stroke machinery (stroke width 1, every alignment)."""
from common import *

RULE = ('no cases of its own: the model functions of the theorems (Model/Join.v, Model/JoinTri.v) are compared with the implementation by the C07 '
        'join suites, which include stroke widths 0 and 1 with all three alignments (join_tri_pixels / join_tri_rects / join_tri_bbox, joinh_join)')
PARTIAL = ['none for clause 6 any more: the 1 px outline is characterised for EVERY triangle (vertices within +-2^29) and every alignment - '
           'C19_join_tri_outline_w1_proper (non-zero area, all alignments: pixels() = the three clockwise Bresenham lines; Triangle::is_collapsed with width 1 <-> no area, '
           'C19_join_is_collapsed_w1), C19_join_tri_outline_w1_any (no area, Center / Outside: the same three lines), C19_join_flat_inside_w1_is_line (no area, Inside: '
           'the single Bresenham line between the extreme vertices, from C19_join_collapsed_inside_pixels which holds for every width >= 1); the literal reading "three edge lines" '
           'of clause 6 is therefore stated as these cases. C19_join_tri_outline_w1_partial (per-edge statement) is kept as the stepping stone']
ASSUMPTIONS = ['vertex coordinates within i32 (the saturating cast of the join intersection is the identity on them)']
