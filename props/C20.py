"""C20 - MockDisplay is a faithful test oracle  (metadata; generators live here and/or in props/C20_*.py parts)"""
CLAIMED = False   # set True by the owner once ./check C20 passes with real theorems
LEVEL = 'proof'
LEVEL_TEXT = 'TODO'
LEVEL_NOTE = 'TODO'
