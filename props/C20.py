"""C20 - MockDisplay is a faithful test oracle.

Protocol (one case per line; tokens contain no blanks):
  mock_hist <type> <tok>...            history on a new display; probes print, a panic ends the line with `PANIC <kind>`
  mock_eqdiff <type> <tok>... / <tok>...   two histories, then `EQ b DIFF [map] DEQ b`
  mock_pattern <type> r<row>...        from_pattern(rows) ('_' stands for ' '): `MAP [..] AA rect DBG text` or `PANIC kind`
  p_mock_hist / p_mock_eq / p_mock_pattern: the same inputs judged on the implementation alone against an independent map.
tokens: dp:x:y:c  di:x:y:c;x:y:c;..  fs:x:y:w:h:c  fc:x:y:w:h:c,c,..  cl:c  sp:x:y:(c|n)  sps:(c|n):x:y;x:y;..  ao:b  ab:b      (operations)
        gp:x:y  aa  dump  sw  dbg  mp:k (dump of map(raw -> (raw + k) mod #values))                      (probes)
  mock_points <type> <c> x:y...        from_points(points, c): `[map] AA rect` or `PANIC setpixel`
colours are raw values of the colour type.
"""
from common import *

LEVEL = 'proof'

TYPES = [('BinaryColor', 2), ('Gray2', 4), ('Gray4', 16), ('Gray8', 256), ('Rgb332', 256), ('Rgb444', 4096),
         ('Rgb555', 32768), ('Bgr555', 32768), ('Rgb565', 65536), ('Bgr565', 65536), ('Rgb888', 1 << 24), ('Bgr888', 1 << 24)]
HEXU = '0123456789ABCDEF'
CHARSET = {'BinaryColor': '.#', 'Gray2': '0123', 'Gray4': HEXU, 'Gray8': HEXU}
RGBCH = 'KRGBYMCW'
I32MAX = 2 ** 31 - 1
I32MIN = -2 ** 31


def charset(t):
    return CHARSET.get(t, RGBCH)


def _rgb_named(t):
    lay = {'Rgb332': ((3, 3, 2), (5, 2, 0)), 'Rgb444': ((4, 4, 4), (8, 4, 0)), 'Rgb555': ((5, 5, 5), (10, 5, 0)),
           'Bgr555': ((5, 5, 5), (0, 5, 10)), 'Rgb565': ((5, 6, 5), (11, 5, 0)), 'Bgr565': ((5, 6, 5), (0, 5, 11)),
           'Rgb888': ((8, 8, 8), (16, 8, 0)), 'Bgr888': ((8, 8, 8), (0, 8, 16))}[t]
    out = []
    for r, g, b in [(0, 0, 0), (1, 0, 0), (0, 1, 0), (0, 0, 1), (1, 1, 0), (1, 0, 1), (0, 1, 1), (1, 1, 1)]:
        v = 0
        for k, on in enumerate((r, g, b)):
            v |= (on * ((1 << lay[0][k]) - 1)) << lay[1][k]
        out.append(v)
    return out


def color(rng, t, n):
    """raw colour: half of the time one that has its own pattern character"""
    if rng.random() < 0.5:
        if t == 'Gray8':
            return 17 * rng.randrange(16)
        if t.startswith('Rgb') or t.startswith('Bgr'):
            return rng.choice(_rgb_named(t))
    k = rng.random()
    if k < 0.15:
        return rng.choice([0, n - 1, 1, n // 2])
    return rng.randrange(n)


def inpt(rng):
    k = rng.random()
    if k < 0.3:
        return (rng.choice([0, 1, 62, 63]), rng.choice([0, 1, 62, 63]))
    if k < 0.5:
        return (rng.randrange(64), rng.choice([0, 1, 31, 62, 63]))
    return (rng.randrange(64), rng.randrange(64))


def outpt(rng):
    k = rng.random()
    if k < 0.35:   # just outside, one coordinate
        v = rng.choice([-1, 64, -2, 65])
        return (v, rng.randrange(64)) if rng.random() < 0.5 else (rng.randrange(64), v)
    if k < 0.5:    # the cells an unchecked index computation would alias
        x, y = inpt(rng)
        return rng.choice([(x + 64, y - 1), (x - 64, y + 1), (x + 64 * 64, y - 64), (x, y + 64), (x + 64, y)])
    if k < 0.65:
        return (rng.choice([-1, 64]), rng.choice([-1, 64]))
    if k < 0.85:
        return rng.choice([(rng.randrange(-200, 300), rng.randrange(64, 300)), (rng.randrange(-200, 0), rng.randrange(-200, 300)),
                           (rng.randrange(64, 300), rng.randrange(-200, 300)), (rng.randrange(-200, 300), rng.randrange(-200, 0))])
    e = [I32MAX, I32MIN, I32MAX - 1, I32MIN + 1, 2 ** 16, -2 ** 16, 4096, 2 ** 26, -2 ** 26 + 5]
    return rng.choice([(rng.choice(e), rng.randrange(-2, 66)), (rng.randrange(-2, 66), rng.choice(e)), (rng.choice(e), rng.choice(e))])


def history(rng, t, n, ao, ab, nops, probes=True, fresh=None):
    """token list. `fresh` = set of cells already drawn (to steer between new cells and repeats)."""
    toks = []
    drawn = set() if fresh is None else fresh
    # the flags of MockDisplay::new() are (false, false): half of the time a flag that keeps its default is NOT set explicitly,
    # so that the defaults themselves are exercised
    first = []
    if ao or rng.random() < 0.5:
        first.append('ao:%d' % ao)
    if ab or rng.random() < 0.5:
        first.append('ab:%d' % ab)
    if rng.random() < 0.5:
        first.reverse()
    toks += first
    # how eager this history is to provoke a panic
    p_out = rng.choice([0.0, 0.0, 0.1, 0.3]) if not ab else rng.choice([0.1, 0.3, 0.5])
    p_rep = rng.choice([0.0, 0.0, 0.1, 0.3]) if not ao else rng.choice([0.2, 0.4, 0.6])

    def point():
        if rng.random() < p_out:
            return outpt(rng)
        if drawn and rng.random() < p_rep:
            return rng.choice(sorted(drawn)) if len(drawn) < 50 else inpt(rng)
        for _ in range(6):
            p = inpt(rng)
            if p not in drawn:
                return p
        return p

    def origin():
        """top-left of a fill area: inside +-2^29, where Rectangle::points() does not saturate (C16's range; outside it
        a rectangle touching i32::MAX yields no points at all, which is not MockDisplay's business)"""
        x, y = point()
        lim = 2 ** 29
        return (max(-lim, min(lim, x)), max(-lim, min(lim, y)))

    for _ in range(nops):
        k = rng.random()
        if k < 0.35:
            x, y = point()
            toks.append('dp:%d:%d:%d' % (x, y, color(rng, t, n)))
            drawn.add((x, y))
        elif k < 0.55:
            m = rng.choice([0, 1, 2, 3, 5, 8])
            ps = [point() for _ in range(m)]
            toks.append('di:' + ';'.join('%d:%d:%d' % (x, y, color(rng, t, n)) for x, y in ps))
            drawn.update(ps)
        elif k < 0.7:
            x, y = origin()
            w, h = rng.choice([0, 1, 1, 2, 3, 5, 9]), rng.choice([0, 1, 1, 2, 3, 4, 7])
            if rng.random() < 0.08:
                x, y, w, h = rng.choice([(-1, -1, 66, 66), (0, 0, 64, 64), (0, 0, 65, 64), (0, 63, 64, 2), (60, 60, 5, 5), (-2, 3, 4, 2)])
            toks.append('fs:%d:%d:%d:%d:%d' % (x, y, w, h, color(rng, t, n)))
            drawn.update((xx, yy) for xx in range(x, x + w) for yy in range(y, y + h))
        elif k < 0.82:
            x, y = origin()
            w, h = rng.choice([0, 1, 2, 3, 5]), rng.choice([0, 1, 2, 3, 4])
            m = max(0, w * h + rng.choice([0, 0, 0, -1, -2, 1, 3, -w * h]))
            toks.append('fc:%d:%d:%d:%d:%s' % (x, y, w, h, ','.join(str(color(rng, t, n)) for _ in range(m))))
            cells = [(xx, yy) for yy in range(y, y + h) for xx in range(x, x + w)][:m]
            drawn.update(cells)
        elif k < 0.85:
            toks.append('cl:%d' % color(rng, t, n))
            drawn.update((xx, yy) for xx in range(64) for yy in range(64))
        elif k < 0.93:
            x, y = inpt(rng) if rng.random() < 0.9 else outpt(rng)
            if rng.random() < 0.4:
                toks.append('sp:%d:%d:n' % (x, y))
                drawn.discard((x, y))
            else:
                toks.append('sp:%d:%d:%d' % (x, y, color(rng, t, n)))
                drawn.add((x, y))
        elif k < 0.955:
            m = rng.choice([0, 1, 2, 4, 7])
            ps = [rng.choice(sorted(drawn)) if drawn and len(drawn) < 200 and rng.random() < 0.5 else inpt(rng) for _ in range(m)]
            if ps and rng.random() < 0.12:
                ps.insert(rng.randrange(len(ps) + 1), outpt(rng))
            if rng.random() < 0.5:
                toks.append('sps:n:' + ';'.join('%d:%d' % p for p in ps))
                if all(0 <= x < 64 and 0 <= y < 64 for x, y in ps):
                    drawn.difference_update(ps)
            else:
                toks.append('sps:%d:' % color(rng, t, n) + ';'.join('%d:%d' % p for p in ps))
                drawn.update(ps)
        elif k < 0.97:
            toks.append(rng.choice(['ao:0', 'ao:1', 'ab:0', 'ab:1']))
        else:
            toks.append('aa')
        if probes and rng.random() < 0.5:
            j = rng.random()
            if j < 0.4:
                x, y = rng.choice(sorted(drawn)) if drawn and len(drawn) < 200 and rng.random() < 0.6 else outpt(rng) if rng.random() < 0.6 else inpt(rng)
                if rng.random() < 0.35:   # the points whose unchecked index would be the same cell
                    x, y = rng.choice([(x + 64, y - 1), (x - 64, y + 1), (x + 64, y), (x, y + 64), (x - 64, y), (x, y - 64)])
                toks.append('gp:%d:%d' % (x, y))
            elif j < 0.7:
                toks.append('aa')
            elif j < 0.85:
                toks.append('dump')
            elif j < 0.9:
                toks.append('sw')
            elif j < 0.95:
                toks.append('mp:%d' % rng.choice([0, 1, n - 1, rng.randrange(n)]))
            else:
                toks.append('dbg')
    if probes:
        toks += ['dump', 'aa']
        if rng.random() < 0.3:
            toks.append('dbg')
    return toks


def pattern(rng, t, valid_only=False, upper_only=False):
    cs = charset(t)
    if not upper_only and t in ('Gray4', 'Gray8'):
        cs = cs + 'abcdef'
    k = rng.random()
    w = rng.choice([0, 1, 2, 3, 5, 8, 13, 63, 64]) if k < 0.8 else rng.randrange(0, 65)
    h = rng.choice([0, 1, 2, 3, 4, 7, 63, 64]) if rng.random() < 0.85 else rng.randrange(0, 65)
    dens = rng.choice([0.1, 0.5, 0.9, 1.0])
    rows = [''.join(rng.choice(cs) if rng.random() < dens else ' ' for _ in range(w)) for _ in range(h)]
    if not valid_only:
        j = rng.random()
        if j < 0.05:
            rows = [r + ' ' * (65 - len(r)) for r in rows] or [' ' * 65]
        elif j < 0.1:
            rows = rows + [' ' * w] * (65 - len(rows))
        elif j < 0.17 and rows:
            i = rng.randrange(len(rows))
            rows[i] = rows[i] + rng.choice(cs) if rng.random() < 0.5 else rows[i][:-1]
        elif j < 0.25 and rows and w > 0:
            i = rng.randrange(len(rows))
            bad = rng.choice('G4#.KRzZ?gxX!~@/9')
            x = rng.randrange(w)
            rows[i] = rows[i][:x] + bad + rows[i][x + 1:]
    return ['r' + r.replace(' ', '_') for r in rows]


def one_cell_pairs(rng, suite):
    """pairs of displays that differ in exactly one cell (every corner, border cells, random cells), both orders, and equal pairs"""
    cells = [(0, 0), (63, 0), (0, 63), (63, 63), (1, 0), (0, 1), (62, 63), (63, 62)] + [inpt(rng) for _ in range(24)]
    for i, (x, y) in enumerate(cells):
        t, n = TYPES[i % len(TYPES)]
        c1 = color(rng, t, n)
        c2 = (c1 + 1 + rng.randrange(n - 1)) % n
        base = rng.choice([[], ['ao:1', 'cl:%d' % c1], ['fs:%d:%d:3:3:%d' % (max(0, x - 1), max(0, y - 1), c1)], ['ab:1', 'fs:60:60:9:9:%d' % c1]])
        extras = [['sp:%d:%d:%d' % (x, y, c2)], ['sp:%d:%d:n' % (x, y)] if base else ['sp:%d:%d:%d' % (x, y, c1)]]
        for extra in extras:
            yield J(suite, t, *base, '/', *base, *extra)
            yield J(suite, t, *base, *extra, '/', *base)
            yield J(suite, t, *base, *extra, '/', *base, *extra)


def point_lists(rng, suite, count):
    for i in range(count):
        t, n = TYPES[i % len(TYPES)]
        m = rng.choice([0, 1, 2, 3, 8, 30])
        pts = [inpt(rng) for _ in range(m)]
        if pts and rng.random() < 0.3:
            pts.append(rng.choice(pts))            # repeated points are fine for set_pixels
        if rng.random() < 0.35:
            pts.insert(rng.randrange(len(pts) + 1), outpt(rng))
        yield J(suite, t, color(rng, t, n), *['%d:%d' % p for p in pts])


def cases(tier, rng):
    yield from point_lists(rng, 'mock_points', 150 if tier == 'quick' else 2000)
    n_hist = 2200 if tier == 'quick' else 30000
    for i in range(n_hist):
        t, n = TYPES[i % len(TYPES)] if rng.random() < 0.5 else rng.choice(TYPES[:4] + TYPES[8:])
        ao, ab = (i // 3) % 2, (i // 6) % 2
        yield J('mock_hist', t, *history(rng, t, n, ao, ab, rng.choice([1, 2, 3, 5, 8, 13])))
    n_eq = 500 if tier == 'quick' else 6000
    for i in range(n_eq):
        t, n = rng.choice(TYPES)
        a = history(rng, t, n, 1, 1, rng.choice([0, 1, 2, 4, 7]), probes=False)
        k = rng.random()
        if k < 0.3:
            b = list(a)
        elif k < 0.6:   # one cell away from equal
            b = list(a)
            x, y = inpt(rng)
            b.append(rng.choice(['sp:%d:%d:n' % (x, y), 'sp:%d:%d:%d' % (x, y, color(rng, t, n)), 'dp:%d:%d:%d' % (x, y, color(rng, t, n))]))
            if rng.random() < 0.5:
                a, b = b, a
        else:
            b = history(rng, t, n, 1, 1, rng.choice([0, 1, 2, 4]), probes=False)
        yield J('mock_eqdiff', t, *a, '/', *b)
    yield from one_cell_pairs(rng, 'mock_eqdiff')
    n_pat = 600 if tier == 'quick' else 8000
    for i in range(n_pat):
        t, n = TYPES[i % len(TYPES)]
        yield J('mock_pattern', t, *pattern(rng, t))
    # every single character of every set, and every character code 33..126 alone
    for t, n in TYPES:
        for ch in range(33, 127):
            if chr(ch) != '_':
                yield J('mock_pattern', t, 'r' + chr(ch))


def search(tier, rng):
    for t, n in TYPES:
        yield J('p_mock_default', t)
    yield from point_lists(rng, 'p_mock_points', 150 if tier == 'quick' else 2000)
    n_hist = 1500 if tier == 'quick' else 20000
    for i in range(n_hist):
        t, n = TYPES[i % len(TYPES)] if rng.random() < 0.5 else rng.choice(TYPES[:4] + TYPES[8:])
        ao, ab = (i // 3) % 2, (i // 6) % 2
        yield J('p_mock_hist', t, *history(rng, t, n, ao, ab, rng.choice([1, 2, 3, 5, 8, 13])))
    n_eq = 400 if tier == 'quick' else 5000
    for i in range(n_eq):
        t, n = rng.choice(TYPES)
        a = history(rng, t, n, 1, 1, rng.choice([0, 1, 2, 4, 7]), probes=False)
        k = rng.random()
        if k < 0.3:
            b = list(a)
        elif k < 0.65:
            b = list(a)
            x, y = inpt(rng)
            b.append(rng.choice(['sp:%d:%d:n' % (x, y), 'sp:%d:%d:%d' % (x, y, color(rng, t, n)), 'dp:%d:%d:%d' % (x, y, color(rng, t, n))]))
            if rng.random() < 0.5:
                a, b = b, a
        else:
            b = history(rng, t, n, 1, 1, rng.choice([0, 1, 2, 4]), probes=False)
        yield J('p_mock_eq', t, *a, '/', *b)
        if i % 2 == 0:
            yield J('p_mock_assert', t, *a, '/', *b)
    yield from one_cell_pairs(rng, 'p_mock_eq')
    yield from one_cell_pairs(rng, 'p_mock_assert')
    n_pat = 500 if tier == 'quick' else 6000
    for i in range(n_pat):
        t, n = TYPES[i % len(TYPES)]
        yield J('p_mock_pattern', t, *pattern(rng, t, valid_only=True, upper_only=(i % 3 != 0)))
    for t, n in TYPES:
        for code in list(range(32, 127)) + [0, 9, 10, 127, 160, 178, 233, 1633, 65297, 65313, 120793, 0x10FFFF]:
            yield J('p_mock_char', t, code)
    for t, n in TYPES:
        for ch in charset(t):
            yield J('p_mock_pattern', t, 'r' + ch)
            yield J('p_mock_pattern', t, 'r' + '_' * 63 + ch)


def trivial(line, res):
    return res in ('', 'none', '0', '[]', '[] 0 0 0 0')


RULE = ('correspondence: (i) random operation histories on a new display (draw_pixel, draw_iter, default fill_solid / fill_contiguous / '
        'clear, set_pixel, set_pixels, flag changes; 1-13 operations; a flag that keeps the default of new() is left unset half of the time) under the four combinations of allow_overdraw / allow_out_of_bounds_drawing, '
        'points inside, on the border, just outside, on the cells an unchecked index would alias, and at the i32 extremes, repeated points '
        'with tunable probability; interleaved probes get_pixel / affected_area / swap_xy / Debug / full dump; panics caught and compared '
        'by kind; for all 12 colour types; (ii) pairs of histories for == and diff (equal, one cell apart at every corner/border, unrelated); '
        '(iii) patterns over every colour type\'s character set (upper and lower case hex), empty / 64-wide / 64-tall, plus too wide, '
        'too tall, ragged and bad-character patterns, and every printable ASCII character alone for every type. '
        'A case is non-trivial when the model result is not an empty dump/none; distinct = distinct case lines. '
        'search (p_*): the same inputs judged on the implementation alone against an independent HashMap reference: expected panic kind, '
        'get_pixel on a 70x70 window + far points after every operation, tight bounding box, ==/diff against the reference maps, '
        'from_pattern against the documented character tables (upper and lower case hex), Debug text against the documented format and '
        'character tables (also for the dbg probe inside histories: \'?\' exactly for colours without a character), the round trip, and '
        'assert_eq / assert_pattern (+ _with_message): panic exactly when the cells differ, message shows both displays.')
EXHAUSTIVE = {'quick': False, 'thorough': False}
ASSUMPTIONS = ['histories are judged up to their first panic (a panicking test is a failed test); the state left behind by a caught panic '
               'is compared by the search suite only',
               'fill areas in generated cases have their top-left within +-2^29 (the range of C16 in which Rectangle::points() does not saturate)',
               'pattern rows are ASCII in the correspondence (row.len() is a byte length; every character set is ASCII)']
TRUSTED = ['modelled, not verified: core::char::to_digit / from_digit / to_ascii_uppercase on ASCII (evaluated by translate/gen_mock.py), '
           'usize wrap of a negative index (modelled as the index panic it causes), the Rgb888 / named colour constants as computed by '
           'gen_mock.py from rgb_color.rs',
           'Debug: the header / "(n empty rows skipped)" text is modelled (debug_string) and compared by correspondence; the theorems speak '
           'about the rows (debug_rows)']
PARTIAL = []
LEVEL_TEXT = ('Proof: 43 Coq theorems over the Gallina model of MockDisplay (coq/Model/Mockdisplay.v: the 4096-cell array with the index '
              'arithmetic as written, both flags, every panic as a value). After ANY operation history that runs to its end get_pixel(p) is the '
              'content given by the last event at p and None elsewhere and outside the display (induction over the history); drawing panics '
              'exactly at the first pixel outside the display / drawn twice while the respective check is on, and with no other panic kind; '
              'affected_area is zero when nothing is touched, contains every touched cell, is contained in every rectangle that does, and each of '
              'its sides touches a touched cell; == holds exactly when all 64x64 cells agree; diff never panics, colours exactly the differing cells '
              'GREEN/RED/BLUE and is empty exactly when ==; swap_xy mirrors, map applies its function cell by cell, from_points sets exactly the listed points; for all 12 ColorMapping tables (regenerated from color_mapping.rs on '
              'every run) colour->char->colour and char->colour->char are identities on the documented sets (pinned: character sets, all RGB '
              'raw values, the default arm \'?\' which is never a pattern character, so a printed character identifies its colour), from_pattern puts the colour of the '
              'character in row y, column x into cell (x,y), Debug prints a pattern back (padded, trailing blank rows dropped) and parsing '
              'Debug output gives back the same display. Model and code are tied by running both on the same histories / patterns on every run.')
LEVEL_NOTE = ('Trusted: Coq kernel, extraction (ExtrOcamlBasic), the OCaml/Rust drivers and the translator gen_mock.py (fails closed on any '
              'unknown source shape, incl. the Default impl behind MockDisplay::new()); the hand-written model is validated by differential '
              'testing (panics caught and canonicalised), not proved equal to the Rust code. assert_eq / assert_pattern (+ _with_message) are '
              'not modelled; the search suite p_mock_assert checks on the implementation that they panic exactly when the cells differ and '
              'show both displays. EG_FANCY_PANIC output and affected_area_origin (private, used only there) are not covered.')
CLAIMED = True
