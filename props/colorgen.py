"""Helper for props/C12.py and props/C13.py: reads the colour rows and conversion pairs from the GENERATED
coq/Gen/ColorTable.v (so that the cases cover exactly what the theorems quantify over); falls back to the
built-in list when the table could not be generated (the check then reports the translator as broken, and
the search still runs)."""
import os, re

V = os.path.dirname(os.path.dirname(os.path.abspath(__file__)))

FALLBACK_TYPES = [  # name, kind, storage bits, bpp
    ('BinaryColor', 'bin', 8, 1), ('Gray2', 'gray', 8, 2), ('Gray4', 'gray', 8, 4), ('Gray8', 'gray', 8, 8),
    ('Rgb332', 'rgb', 8, 8), ('Rgb444', 'rgb', 16, 16), ('Rgb555', 'rgb', 16, 16), ('Bgr555', 'rgb', 16, 16),
    ('Rgb565', 'rgb', 16, 16), ('Bgr565', 'rgb', 16, 16), ('Rgb666', 'rgb', 32, 24), ('Bgr666', 'rgb', 32, 24),
    ('Rgb888', 'rgb', 32, 24), ('Bgr888', 'rgb', 32, 24)]


def load():
    """returns (types, pairs): types = [(name, kind, sbits, bpp)], pairs = [(from, to)]"""
    p = os.path.join(V, 'coq', 'Gen', 'ColorTable.v')
    types, pairs = [], []
    try:
        s = open(p).read()
        raws = {m.group(1): (int(m.group(2)), int(m.group(3))) for m in re.finditer(
            r'Definition raw_(\w+) : rawrow := \{\| raw_name := \[[^\]]*\]; raw_sbits := (\d+); raw_bpp := (\d+);', s)}
        for m in re.finditer(r'Definition row_(\w+) : crow := \{\| c_id := \d+; c_name := \[[^\]]*\]; c_kind := (\w+)[^;]*; c_raw := raw_(\w+) \|\}', s):
            k = {'KBinary': 'bin', 'KGray': 'gray', 'KRgb': 'rgb'}[m.group(2)]
            types.append((m.group(1), k) + raws[m.group(3)])
        pairs = re.findall(r'\(F\w+, row_(\w+), row_(\w+)\)', s)
    except Exception:
        types, pairs = [], []
    if not types:
        types = list(FALLBACK_TYPES)
    if not pairs:
        pairs = [(a[0], b[0]) for a in types for b in types if a[0] != b[0]]
    return types, pairs


def web_types():
    """names of the types that implement WebColors (generated table; fallback: the documented eight)"""
    try:
        t = open(os.path.join(V, 'coq', 'Gen', 'ColorTable.v')).read()
        m = re.search(r'Definition web_types : list crow := \[([^\]]*)\]', t)
        xs = [x.strip()[4:] for x in m.group(1).split(';') if x.strip()]
        if xs:
            return xs
    except Exception:
        pass
    return ['Rgb555', 'Rgb565', 'Rgb666', 'Rgb888', 'Bgr555', 'Bgr565', 'Bgr666', 'Bgr888']
