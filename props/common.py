"""Shared generator helpers for props/Cxx.py (every random choice comes from the rng passed in)."""

EDGE = [0, 1, 2, 3, 4, 5, 7, 8, 9, 15, 16, 17, 31, 32, 33, 63, 64, 65]


def coord(rng, big=False):
    k = rng.random()
    if big and k < 0.15:
        return rng.choice([-1, 1]) * rng.randrange(2 ** 20 - 3, 2 ** 20 + 1)
    if big and k < 0.45:
        return rng.randrange(-2 ** 20, 2 ** 20 + 1)
    if k < 0.7:
        return rng.randrange(-12, 13)
    return rng.randrange(-70, 71)


def extent(rng, big=False, maxs=40):
    k = rng.random()
    if k < 0.12:
        return 0
    if k < 0.22:
        return 1
    if big and k < 0.4:
        return rng.randrange(0, 2 ** 20 + 1)
    if k < 0.8:
        return rng.randrange(0, 12)
    return rng.randrange(0, maxs + 1)


def rect(rng, big=False, maxs=40):
    return (coord(rng, big), coord(rng, big), extent(rng, big, maxs), extent(rng, big, maxs))


def J(*xs):
    return ' '.join(str(x) for x in xs)
