"""Shared generator helpers for props/Cxx.py (every random choice comes from the rng passed in)."""

EDGE = [0, 1, 2, 3, 4, 5, 7, 8, 9, 15, 16, 17, 31, 32, 33, 63, 64, 65]


def coord(rng, big=False):
    k = rng.random()
    if big and k < 0.15:
        return rng.choice([-1, 1]) * rng.randrange(2 ** 20 - 3, 2 ** 20 + 1)
    if big and k < 0.45:
        return rng.randrange(-2 ** 20, 2 ** 20 + 1)
    if k < 0.7:
        return rng.randrange(-12, 13)
    return rng.randrange(-70, 71)


def extent(rng, big=False, maxs=40):
    k = rng.random()
    if k < 0.12:
        return 0
    if k < 0.22:
        return 1
    if big and k < 0.4:
        return rng.randrange(0, 2 ** 20 + 1)
    if k < 0.8:
        return rng.randrange(0, 12)
    return rng.randrange(0, maxs + 1)


def rect(rng, big=False, maxs=40):
    return (coord(rng, big), coord(rng, big), extent(rng, big, maxs), extent(rng, big, maxs))


def J(*xs):
    return ' '.join(str(x) for x in xs)


# ---- zoo cases (harness/src/zoo.rs) ------------------------------------------------------------
FAMILIES = ['rect', 'circle', 'ellipse', 'rrect', 'tri', 'line', 'poly', 'arc', 'sector', 'image', 'subimage', 'text']


def zstyle(rng, maxw=12):
    k = rng.random()
    w = 0 if k < 0.1 else 1 if k < 0.3 else rng.randrange(0, maxw + 1)
    return J('S', rng.randrange(2), rng.randrange(2), w, rng.randrange(3))


def zoo_case(rng, fam=None, c=lambda rng: rng.randrange(-30, 31), e=lambda rng: rng.choice([0, 1, 2, 3]) if rng.random() < 0.25 else rng.randrange(0, 32), maxw=12, ang=None, absolute=False, dotted=False):
    """one zoo case line (without suite name); c = coordinate sampler, e = extent sampler"""
    fam = fam or rng.choice(FAMILIES)
    ang = ang or (lambda rng: rng.choice([0, 30, 45, 90, 180, 270, 360, -90, -360, 400, -720]) if rng.random() < 0.4 else rng.randrange(-400, 401))
    if fam == 'rect' or fam == 'ellipse':
        g = J(c(rng), c(rng), e(rng), e(rng))
    elif fam == 'circle':
        g = J(c(rng), c(rng), e(rng))
    elif fam == 'rrect':
        g = J(c(rng), c(rng), e(rng), e(rng), *[e(rng) if rng.random() < 0.8 else 0 for _ in range(8)])
    elif fam == 'tri' and absolute:
        g = J(c(rng), c(rng), c(rng), c(rng), c(rng), c(rng))
    elif fam == 'line' and absolute:
        g = J(c(rng), c(rng), c(rng), c(rng))
    elif fam == 'poly' and absolute:
        n = rng.choice([0, 1, 2, 3, 3, 4, 5, 6])
        pts = [(c(rng) // 2, c(rng) // 2) for _ in range(n)]
        g = J(c(rng) // 2 if rng.random() < 0.5 else 0, c(rng) // 2 if rng.random() < 0.5 else 0, n, *[v for p in pts for v in p])
    elif fam == 'tri':
        x, y = c(rng), c(rng)
        g = J(x, y, x + e(rng) * rng.choice([-1, 1]), y + e(rng) * rng.choice([-1, 1]), x + e(rng) * rng.choice([-1, 1]), y + e(rng) * rng.choice([-1, 1]))
    elif fam == 'line':
        x, y = c(rng), c(rng)
        g = J(x, y, x + e(rng) * rng.choice([-1, 1]), y + e(rng) * rng.choice([-1, 1]))
    elif fam == 'poly':
        n = rng.choice([0, 1, 2, 3, 3, 4, 5, 6])
        x, y = c(rng), c(rng)
        pts = []
        for _ in range(n):
            if pts and rng.random() < 0.12:
                pts.append(rng.choice(pts))
            else:
                pts.append((x + e(rng) * rng.choice([-1, 1]), y + e(rng) * rng.choice([-1, 1])))
        g = J(c(rng) if rng.random() < 0.5 else 0, c(rng) if rng.random() < 0.5 else 0, n, *[v for p in pts for v in p])
    elif fam in ('arc', 'sector'):
        g = J(c(rng), c(rng), e(rng), ang(rng), ang(rng))
    elif fam == 'image':
        return J('image', c(rng), c(rng), min(e(rng), 40), min(e(rng), 40), rng.randrange(1000))
    elif fam == 'subimage':
        w, h = min(e(rng), 40), min(e(rng), 40)
        return J('subimage', c(rng), c(rng), w, h, rng.randrange(1000), rng.randrange(-3, w + 3), rng.randrange(-3, h + 3), rng.randrange(0, w + 4), rng.randrange(0, h + 4))
    elif fam == 'text':
        lhk = rng.randrange(2)
        lhv = rng.choice([0, 1, 8, 10, 20, 30]) if lhk == 0 else rng.choice([0, 50, 100, 150, 200, 400])
        return J('text', c(rng), c(rng), rng.randrange(8), rng.randrange(3), rng.randrange(4), lhk, lhv, rng.randrange(16), rng.randrange(12))
    else:
        raise ValueError(fam)
    st = zstyle(rng, maxw)
    # the dotted stroke style exists for rectangles only; C01 (solid strokes by its statement) never asks for it
    if dotted and fam == 'rect' and rng.random() < 0.35:
        st += ' 1'
    return fam + ' ' + g + ' ' + st


def axis_line_cases():
    """directed stratum: axis-parallel and diagonal lines in both directions x stroke widths 1..8 (zoo syntax, no suite name)"""
    out = []
    for (dx, dy) in [(6, 0), (-6, 0), (0, 5), (0, -5), (5, 5), (-5, 5), (5, -5), (-5, -5), (0, 0)]:
        for w in range(1, 9):
            out.append(J('line', 12, 12, 12 + dx, 12 + dy, 'S', 0, 1, w, 1))
    return out
