"""Generator helpers shared by the RoundedRectangle parts (props/C??_rrect.py)."""
from common import J


def radii(rng, maxr):
    """8 radius components (tlw tlh trw trh brw brh blw blh)"""
    k = rng.random()
    if k < 0.15:
        a, b = rng.randrange(maxr + 1), rng.randrange(maxr + 1)
        return [a, b] * 4
    if k < 0.25:
        a = rng.randrange(maxr + 1)
        return [a] * 8
    out = []
    for _ in range(4):
        q = rng.random()
        if q < 0.2:
            out += [0, 0]
        elif q < 0.3:
            out += [rng.randrange(maxr + 1), 0] if rng.random() < 0.5 else [0, rng.randrange(maxr + 1)]
        elif q < 0.4:
            out += [rng.choice([1, 2]), rng.randrange(maxr + 1)] if rng.random() < 0.5 else [rng.randrange(maxr + 1), rng.choice([1, 2])]
        else:
            out += [rng.randrange(maxr + 1), rng.randrange(maxr + 1)]
    return out


def small(rng):
    """sizes 0..12, radii 0..8, position near the origin (both sides of the axes)"""
    return [rng.randrange(-6, 7), rng.randrange(-6, 7), rng.randrange(13), rng.randrange(13)] + radii(rng, 8)


def medium(rng):
    """sizes up to 60, radii up to 1.6 x the sides (oversized radii are confined), thin shapes over-represented"""
    w = rng.choice([1, 2, 3, 4]) if rng.random() < 0.2 else rng.randrange(61)
    h = rng.choice([1, 2, 3, 4]) if rng.random() < 0.2 else rng.randrange(61)
    m = rng.choice([max(w, h) // 2 + 1, max(w, h) + 1, int(1.6 * max(w, h)) + 2, 200])
    return [rng.randrange(-70, 71), rng.randrange(-70, 71), w, h] + radii(rng, m)


def style(rng, maxw=12):
    """fill stroke width align: colours are tags 0 (none) .. 255"""
    k = rng.random()
    w = 0 if k < 0.1 else 1 if k < 0.25 else rng.randrange(maxw + 1)
    fill = rng.choice([0, 5, 5, 5])
    stroke = rng.choice([0, 7, 7, 7])
    return [fill, stroke, w, rng.randrange(3)]


def equal_grid(maxs=12, maxr=8):
    for w in range(maxs + 1):
        for h in range(maxs + 1):
            for a in range(maxr + 1):
                for b in range(maxr + 1):
                    yield [-2, 3, w, h] + [a, b] * 4
