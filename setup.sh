#!/bin/sh
# MANIFEST.setup_cmd: offline build of everything the checks need, into /verif/.build
set -e
cd "$(dirname "$0")"
export CARGO_NET_OFFLINE=true CARGO_TARGET_DIR="$PWD/.build/cargo"
mkdir -p .build evidence replays
for g in translate/gen_*.py; do [ -f "$g" ] && python3 "$g"; done
[ -f translate/errflow/run.sh ] && sh translate/errflow/run.sh
sh tools/gen_coqproject.sh
timeout 7200 make -j16 -C coq > .build/coq-build.log 2>&1 || { tail -40 .build/coq-build.log; echo "setup: Coq build failed (checks will report it per property)"; }
sh tools/build_ocaml.sh || echo "setup: model oracle build failed"
python3 tools/gen_registry.py
REPO=${EG_REPO:-/repo}; sed "s#@REPO@#$REPO#g" harness/Cargo.toml.in > harness/Cargo.toml; [ -f harness/Cargo.lock ] || cp $REPO/Cargo.lock harness/Cargo.lock
(cd harness && cargo build --release --offline 2>&1 | tail -3) || echo "setup: harness build failed"
# second harness binary with the fixed_point feature set (C18 trigonometry through the I16F16 table)
(cd harness && CARGO_TARGET_DIR="$PWD/../.build/cargo-fp" cargo build --release --offline --features fixed_point 2>&1 | tail -2) || echo "setup: fixed_point harness build failed"
# regression suite of the expression-level translator (adversarial reproducers; refuses or agrees with native Rust)
(timeout 600 sh tools/r2c_selftest.sh 2>&1 | tail -1) || echo "setup: r2c selftest reported failures (see translate/r2c/tests)"
echo "setup done"
