#!/bin/sh
# Extracts the Coq models (ExtrOcamlBasic only) and builds ocaml model_oracle -> .build/ocaml/model_oracle
# Re-extracts only when a Model/Base/Gen .vo is newer than the last extraction.
set -e
V=$(cd "$(dirname "$0")/.." && pwd)
B=$V/.build/ocaml
mkdir -p "$B/src"
cd "$B/src"
MODS=$(cd "$V/coq" && ls Model/*.v | sed 's/\.v$//; s#/#.#' | LC_ALL=C sort)
{
  echo "Require Import ExtrOcamlBasic."
  echo "From EG Require Base.Prelude."
  for m in $MODS; do echo "From EG Require $m."; done
  echo "Set Extraction KeepSingleton."
  printf "Separate Extraction EG.Base.Prelude"
  for m in $MODS; do printf " EG.%s" "$m"; done
  echo "."
} > Extract.v.new
need=0
if ! cmp -s Extract.v.new Extract.v; then need=1; fi
if [ $need = 0 ] && [ -n "$(find "$V/coq/Base" "$V/coq/Model" "$V/coq/Gen" -name '*.vo' -newer Extract.stamp 2>/dev/null | head -1)" ]; then need=1; fi
[ -f Extract.stamp ] || need=1
if [ $need = 1 ]; then
  rm -f ./*.ml ./*.mli
  mv Extract.v.new Extract.v
  coqc -Q "$V/coq" EG Extract.v > extract.log 2>&1 || { cat extract.log; exit 1; }
  touch Extract.stamp
else
  rm -f Extract.v.new
fi
# hand written driver + suites
cp "$V"/ocaml/*.ml "$V"/ocaml/suites/*.ml .
# `s.[i]` is sugar for String.get, which an extracted Coq module named String shadows: spell it out
for f in "$V"/ocaml/*.ml "$V"/ocaml/suites/*.ml; do
  sed -i -E "s/([A-Za-z_][A-Za-z0-9_']*)\\.\\[([^]]*)\\]/(Stdlib.String.get \\1 (\\2))/g" "$(basename "$f")"
done
{
  echo "let init () ="
  for f in "$V"/ocaml/suites/*.ml; do m=$(basename "$f" .ml); M=$(echo "$m" | sed 's/^./\U&/'); echo "  $M.init ();"; done
  echo "  ()"
} > suites_all.ml
cat > dune <<'EOD'
(executable (name main) (ocamlopt_flags (:standard -O2 -unboxed-types))
 (flags (:standard -w -a)))
EOD
cat > dune <<'EOD'
(executable (name main) (flags (:standard -w -a)))
EOD
[ -f dune-project ] || echo '(lang dune 2.9)' > dune-project
dune build --profile release ./main.exe > build.log 2>&1 || { head -60 build.log; rm -f "$B/model_oracle"; exit 1; }
cp -f _build/default/main.exe "$B/model_oracle.new" && mv -f "$B/model_oracle.new" "$B/model_oracle"
