#!/bin/sh
# Regenerates coq/_CoqProject from the .v files present (deterministic order).
cd "$(dirname "$0")/../coq" || exit 1
{ echo "-Q . EG"; echo "-arg -w -arg -deprecated-hint-without-locality,-notation-overridden"; find Base Gen Model Proofs Properties -name '*.v' 2>/dev/null | LC_ALL=C sort; } > _CoqProject.new
if ! cmp -s _CoqProject.new _CoqProject; then mv _CoqProject.new _CoqProject; coq_makefile -f _CoqProject -o Makefile >/dev/null; else rm _CoqProject.new; [ -f Makefile ] || coq_makefile -f _CoqProject -o Makefile >/dev/null; fi
