#!/usr/bin/env python3
"""Regenerates MANIFEST.json from props/Cxx.py (claimed checks) and properties.jsonl (ids)."""
import json, os, importlib.util, sys
V = os.path.join(os.path.dirname(os.path.abspath(__file__)), '..')
sys.path.insert(0, os.path.join(V, 'props'))
ids = [json.loads(l)['id'] for l in open(os.path.join(V, 'properties.jsonl'))]
checks, na = [], []
pending = json.load(open(os.path.join(V, 'props', 'not_applicable.json')))
for pid in ids:
    p = os.path.join(V, 'props', pid + '.py')
    if not os.path.exists(p):
        na.append({'property_id': pid, 'reason': pending.get(pid, 'no check built yet in this development; the design for it is DESIGN.md section 5')})
        continue
    spec = importlib.util.spec_from_file_location('p' + pid, p)
    m = importlib.util.module_from_spec(spec)
    spec.loader.exec_module(m)
    if not getattr(m, 'CLAIMED', False):
        na.append({'property_id': pid, 'reason': pending.get(pid, 'check still under construction in this development (design: DESIGN.md section 5); not claimed until its theorems and correspondence run clean')})
        continue
    checks.append({
        'property_id': pid,
        'quick_cmd': './check %s --tier quick' % pid,
        'thorough_cmd': './check %s --tier thorough' % pid,
        'evidence_file': 'evidence/%s.json' % pid,
        'replay_cmd_template': './check %s --replay {path}' % pid,
        'engine': 'coq-proof+correspondence',
        'level_claimed': {'category': getattr(m, 'LEVEL', 'proof'), 'text': m.LEVEL_TEXT, 'design_ref': 'DESIGN.md section 5, ' + pid},
        'level_note': m.LEVEL_NOTE,
        'technique': getattr(m, 'TECHNIQUE', 'machine-checked proof in Coq 8.16 over a Gallina model + correspondence check of the extracted model against the implementation'),
    })
man = {
    'version': 1,
    'setup_cmd': './setup.sh',
    'hooks': {
        'guard': 'cargo feature `verif_hooks` of embedded-graphics (off by default)',
        'enable': 'harness/Cargo.toml enables feature verif_hooks on the path dependency /repo when a check needs it (C18 only); all other checks use the public API',
        'baseline_off_cmd': 'cd /repo && cargo test --workspace --no-fail-fast --offline',
        'source_commits': json.load(open(os.path.join(V, 'props', 'hook_commits.json'))),
        'add_only': True,
    },
    'engines': [
        {'name': 'coq-proof+correspondence', 'path': 'check', 'serves_properties': [c['property_id'] for c in checks],
         'kind_free_text': 'Coq 8.16 theorems over executable Gallina models (coq/), models extracted to OCaml (ocaml/) and compared with the Rust implementation (harness/) on generated cases; direct property search on the implementation for replays; generated tables (translate/) regenerated from /repo on every run'},
    ],
    'checks': checks,
    'not_applicable': na,
    'notes': 'Every check rebuilds harness and generated Coq tables from /repo working tree. known_findings.txt lists fixed/recorded defects. See DESIGN.md.',
}
json.dump(man, open(os.path.join(V, 'MANIFEST.json'), 'w'), indent=1)
print('checks:', [c['property_id'] for c in checks], 'not_applicable:', len(na))
