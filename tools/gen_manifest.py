#!/usr/bin/env python3
"""Regenerates MANIFEST.json from props/Cxx.py (claimed checks) and properties.jsonl (ids)."""
import json, os, importlib.util, sys
V = os.path.join(os.path.dirname(os.path.abspath(__file__)), '..')
sys.path.insert(0, os.path.join(V, 'props'))
ids = [json.loads(l)['id'] for l in open(os.path.join(V, 'properties.jsonl'))]
checks, na = [], []
pending = json.load(open(os.path.join(V, 'props', 'not_applicable.json')))
for pid in ids:
    p = os.path.join(V, 'props', pid + '.py')
    if not os.path.exists(p):
        na.append({'property_id': pid, 'reason': pending.get(pid, 'no check built yet in this development; the design for it is DESIGN.md section 5')})
        continue
    spec = importlib.util.spec_from_file_location('p' + pid, p)
    m = importlib.util.module_from_spec(spec)
    spec.loader.exec_module(m)
    if not getattr(m, 'CLAIMED', False):
        na.append({'property_id': pid, 'reason': pending.get(pid, 'check still under construction in this development (design: DESIGN.md section 5); not claimed until its theorems and correspondence run clean')})
        continue
    checks.append({
        'property_id': pid,
        'quick_cmd': './check %s --tier quick' % pid,
        'thorough_cmd': './check %s --tier thorough' % pid,
        'evidence_file': 'evidence/%s.json' % pid,
        'replay_cmd_template': './check %s --replay {path}' % pid,
        'engine': 'coq-proof+correspondence',
        'level_claimed': {'category': getattr(m, 'LEVEL', 'proof'), 'text': m.LEVEL_TEXT, 'design_ref': 'DESIGN.md section 5, ' + pid},
        'level_note': m.LEVEL_NOTE,
        'technique': getattr(m, 'TECHNIQUE', 'machine-checked proof in Coq 8.16 over a Gallina model + correspondence check of the extracted model against the implementation'),
    })
man = {
    'version': 1,
    'setup_cmd': './setup.sh',
    'hooks': {
        'guard': 'cargo feature `verif_hooks` of embedded-graphics (off by default)',
        'enable': 'harness/Cargo.toml.in always enables feature verif_hooks on the path dependency (it only adds read-only accessors in src/primitives/verif_hooks.rs + one in plane_sector.rs); used by the C18/C05 sector suites (plane_sector_parts) and the C07/C02/C08 thick-stroke suites (line_extents, linear_equation, line_intersection, line_join, thick_segment); every other suite uses the public API',
        'baseline_off_cmd': 'cd /repo && cargo test --workspace --no-fail-fast --offline',
        'source_commits': json.load(open(os.path.join(V, 'props', 'hook_commits.json'))),
        'add_only': True,
    },
    'engines': [
        {'name': 'coq-proof+correspondence', 'path': 'check', 'serves_properties': [c['property_id'] for c in checks],
         'kind_free_text': 'Coq 8.16 theorems over executable Gallina models (coq/); tie to the code by (1) translators that regenerate tables, control-flow and arithmetic skeletons and - expression level, translate/r2c - Gallina definitions of source functions from /repo on every run, with theorems proving them equal to the models, and (2) a correspondence check: models extracted to OCaml (ocaml/) and compared with the Rust implementation (harness/) on generated cases; direct property search on the implementation supplies the replays'},
    ],
    'checks': checks,
    'not_applicable': na,
    'notes': 'Every check regenerates the Coq tables and source-tie definitions (translate/) and rebuilds the harness from the /repo working tree (EG_REPO selects another tree). known_findings.txt lists 23 fixed and 4 recorded defects (5 finding lines). seeded/: 80 independent breaking changes, all reported. See DESIGN.md (status table at the top, sections 10-12 as built).',
}
json.dump(man, open(os.path.join(V, 'MANIFEST.json'), 'w'), indent=1)
print('checks:', [c['property_id'] for c in checks], 'not_applicable:', len(na))
