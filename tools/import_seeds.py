#!/usr/bin/env python3
"""Imports independently written seeded changes that tools/verify_seed.sh has VERIFIED into seeded/<id>-<v>/."""
import os, glob, json, shutil, re, subprocess
V = os.path.join(os.path.dirname(os.path.abspath(__file__)), '..')
for out in sorted(glob.glob('/tmp/seed-verify/*.txt')):
    name = os.path.basename(out)[:-4]
    first = open(out).readline().strip()
    if not first.startswith('VERIFIED'):
        continue
    pid, v = name.split('-')
    src = '/tmp/seed-out/%s/%s' % (pid, v)
    dst = os.path.join(V, 'seeded', name)
    if os.path.exists(os.path.join(dst, 'meta.json')):
        continue
    os.makedirs(dst, exist_ok=True)
    for f in ('patch.diff', 'demo.rs', 'notes.md'):
        if os.path.exists(os.path.join(src, f)):
            shutil.copy(os.path.join(src, f), os.path.join(dst, f))
    notes = open(os.path.join(src, 'notes.md')).read() if os.path.exists(os.path.join(src, 'notes.md')) else ''
    files = re.findall(r'^\+\+\+ b/(\S+)', open(os.path.join(src, 'patch.diff')).read(), re.M)
    json.dump({
        'property': pid, 'also': [],
        'author': 'independent sub-agent given only the property text and a scratch worktree of /repo',
        'files_touched': files,
        'needs_to_manifest': 'see notes.md',
        'confirmed_by': 'tools/verify_seed.sh in a scratch worktree outside /repo and /verif: ' + first,
        'base_commit': subprocess.check_output(['git', '-C', '/repo', 'rev-parse', 'HEAD'], text=True).strip(),
    }, open(os.path.join(dst, 'meta.json'), 'w'), indent=1)
    print('imported', name)
