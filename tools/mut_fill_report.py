#!/usr/bin/env python3
"""mut_fill_report.py <report.md with @@..@@ placeholders> <results.tsv> <triage.tsv>: fills the generated sections in place"""
import sys, subprocess, os
rep, res, tri = sys.argv[1:4]
here = os.path.dirname(os.path.abspath(__file__))
out = subprocess.run([sys.executable, os.path.join(here, 'mut_report.py'), res, tri], stdout=subprocess.PIPE, text=True).stdout
table, totals = out.strip().rsplit('\n\n', 1)
T = {}
for l in open(tri):
    if l.strip():
        a = l.rstrip('\n').split('\t')
        T[a[0]] = (a[1], a[2])
rows = [l.rstrip('\n').split('\t') for l in open(res) if l.strip()]
surv = ['| mutant (file:line:offset:change) | source line | class | why |', '|---|---|---|---|']
for mid, v, line in rows:
    if v.startswith('SURVIVED'):
        c, why = T.get(mid, ('?', 'NOT TRIAGED'))
        surv.append('| `%s` | `%s` | %s | %s |' % (mid.replace('src/primitives/', '').replace('|', '\\|'), line.replace('|', '\\|')[:70], c, why.replace('|', '\\|')))
noin = ['| mutant | reported by |', '|---|---|']
for mid, v, line in rows:
    if v.startswith('CAUGHT') and 'no-input' in v:
        noin.append('| `%s` (`%s`) | %s |' % (mid.replace('src/primitives/', '').replace('|', '\\|'), line.replace('|', '\\|')[:60], v.replace('|', '\\|')))
s = open(rep).read()
s = s.replace('@@TABLE@@', table).replace('@@TOTALS@@', totals).replace('@@SURVIVORS@@', '\n'.join(surv)).replace('@@NOINPUT@@', '\n'.join(noin))
open(rep, 'w').write(s)
