#!/usr/bin/env python3
"""mut_report.py <results.tsv> <triage.tsv> -> per-file table + totals (markdown on stdout)"""
import sys, collections
res = [l.rstrip('\n').split('\t') for l in open(sys.argv[1]) if l.strip()]
if len(sys.argv) > 3:      # optional: only rows from this 0-based index on (a later pass)
    res = res[int(sys.argv[3]):]
tri = {}
for l in open(sys.argv[2]):
    if l.strip():
        a = l.rstrip('\n').split('\t')
        tri[a[0]] = (a[1], a[2])
per = collections.OrderedDict()
tot = collections.Counter()
for mid, verdict, line in res:
    f = mid.split(':')[0]
    c = per.setdefault(f, collections.Counter())
    k = verdict.split(' ')[0]
    if k == 'CAUGHT':
        k = 'CAUGHT-input' if ' input' in verdict else 'CAUGHT-noinput'
    if k == 'SURVIVED':
        t = tri.get(mid, ('?', ''))[0]
        k = 'S-' + t.split(':')[0]
    c[k] += 1
    c['tried'] += 1
cols = ['tried', 'NOCOMPILE', 'KILLED-BY-TESTS', 'CAUGHT-input', 'CAUGHT-noinput', 'S-E', 'S-M', 'S-G', 'S-?']
print('| file | tried | not compiling | killed by existing tests | CAUGHT with input | CAUGHT no input | survived E | survived, caught by unmapped check | survived G | untriaged |')
print('|---|' + '---|' * len(cols))
for f, c in per.items():
    print('| %s | %s |' % (f.replace('src/primitives/', ''), ' | '.join(str(c[k]) for k in cols)))
    tot.update(c)
print('| **total** | %s |' % ' | '.join(str(tot[k]) for k in cols))
passing = tot['CAUGHT-input'] + tot['CAUGHT-noinput'] + tot['S-E'] + tot['S-M'] + tot['S-G'] + tot['S-?']
caught = tot['CAUGHT-input'] + tot['CAUGHT-noinput']
print()
print('test-passing mutants: %d; caught by the mapped checks: %d (%.0f %%); caught by mapped or unmapped checks: %d; '
      'non-equivalent (caught + M + G): %d -> kill rate on non-equivalent test-passing mutants: %.0f %% (mapped), %.0f %% (all checks)' % (
          passing, caught, 100.0 * caught / max(1, passing), caught + tot['S-M'], caught + tot['S-M'] + tot['S-G'],
          100.0 * caught / max(1, caught + tot['S-M'] + tot['S-G']), 100.0 * (caught + tot['S-M']) / max(1, caught + tot['S-M'] + tot['S-G'])))
