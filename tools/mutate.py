#!/usr/bin/env python3
"""mutate.py <verif worktree> <scratch repo worktree> <out.tsv> <prop-map.json> <file> [<file> ...]
Systematic single-token mutation testing of the checks.  For every mutant of the given /repo source files
(non-test code, deterministic list): apply it in the scratch worktree, keep it only if the crate still compiles and the
whole existing suite passes (that is the kind of change the checks must detect), then run the mapped property checks
(EG_REPO=<scratch>) of <verif worktree> and record CAUGHT / SURVIVED.  prop-map.json: {"path prefix": ["C05", ...]}.
Resumable: mutants already in out.tsv are skipped."""
import sys, os, re, json, subprocess, hashlib, time

V, W, OUT, MAP = sys.argv[1:5]
FILES = sys.argv[5:]
PMAP = json.load(open(MAP))
ENV = dict(os.environ, CARGO_NET_OFFLINE='true', CARGO_TARGET_DIR='/tmp/mut-target-' + os.path.basename(W))

RULES = [  # (regex, replacements)  applied to code with comments stripped positions preserved
    (r'(?<![<>=!\-+*/&|])<=(?!=)', ['<']), (r'(?<![<>=!\-])>=(?!=)', ['>']),
    (r'(?<![<>=!\-+*/&|<])<(?![<=])', ['<=']), (r'(?<![<>=!\-+*/&|>-])>(?![>=])', ['>=']),
    (r'==', ['!=']), (r'!=', ['==']),
    (r'(?<![+\-*/=<>!&|(,])\s\+\s(?!=)', [' - ']), (r'(?<![+\-*/=<>!&|(,])\s-\s(?!=)', [' + ']),
    (r'\s\*\s(?!=)', [' / ']), (r'\s/\s(?!=)', [' * ']),
    (r'&&', ['||']), (r'\|\|', ['&&']),
    (r'\b1\b(?![.\w])', ['0', '2']), (r'\b2\b(?![.\w])', ['1', '3']), (r'\b0\b(?![.\w])', ['1']),
    (r'saturating_sub', ['wrapping_sub']), (r'saturating_add', ['wrapping_add']),
    (r'\.min\(', ['.max(']), (r'\.max\(', ['.min(']),
    (r'\btrue\b', ['false']), (r'\bfalse\b', ['true']),
    (r'\.x\b', ['.y']), (r'\.y\b', ['.x']), (r'\bwidth\b', ['height']), (r'\bheight\b', ['width']),
    (r'\?;', [';']), (r'\.rev\(\)', ['']), (r'\.abs\(\)', ['']),
]
# ---- options (mut1): MUT_SKIP_GENERICS=1 drops `<`/`>` of generic brackets; MUT_EXTRA=1 adds semantic rules for plumbing
# code; MUT_EXTRA2=1 adds the second-round rule classes; MUT_ONLY=<regex on the mutant id> selects mutants
SKIP_GENERICS = os.environ.get('MUT_SKIP_GENERICS') == '1'
ONLY = os.environ.get('MUT_ONLY')
if os.environ.get('MUT_EXTRA') == '1':
    RULES += [
        (r'(?<=[(=,] )-(?=[a-z])|(?<=\()-(?=[a-z])', ['']),            # drop a unary minus
        (r'\+=', ['-=']), (r'(?<![<>=!\-+*/&|])-=', ['+=']),
        (r'\.intersection\(', ['.envelope(']),
        (r'\.translate\(', ['.translate(Point::new(1, 0) + ', '.translate(Point::zero() - ']),
        (r'\.is_zero_sized\(\)', ['.is_zero_sized() ^ true']),
        (r'\.nth\(', ['.nth(1 + ']),
        (r'\.top_left\b(?!\.)', ['.top_left.swap_xy()']), (r'\.size\b(?![.(])', ['.size.swap_xy()']),
        (r'\.is_some\(\)', ['.is_none()']), (r'\.is_none\(\)', ['.is_some()']),
        (r'\.saturating_as\(\)', ['.saturating_as::<i32>().saturating_add(1)']),
        (r'\bSome\(color\)', ['None']),
        (r'\bu32::MAX\b', ['0']),
        (r'\.zip\(', ['.skip(1).zip(']), (r'\.filter\(', ['.skip(1).filter(']),
        (r'\.take\(', ['.take(1 + ']),
        (r'&self\.bounding_box\(\)', ['&self.bounding_box().offset(1)']),
    ]
if os.environ.get('MUT_EXTRA2') == '1':
    RULES += [
        # swapped call arguments f(a, b) -> f(b, a) (two simple arguments; differently typed pairs do not compile)
        (r'(?<=\w\()([^(),;:{}]+), ([^(),;:{}]+)(?=\))', [lambda m: m.group(2) + ', ' + m.group(1)]),
        (r'(?<![.])\.\.(?![.=])', ['..=']), (r'\.\.=', ['..']),
        (r'<<(?!=)', ['>>']), (r'>>(?!=)', ['<<']),
        (r'\.saturating_sub\(([^()]+)\)', [lambda m: ' - ' + m.group(1)]),
        (r'\.saturating_add\(([^()]+)\)', [lambda m: ' + ' + m.group(1)]),
        (r'(?<!let )\bSome\(([^()]*)\)(?! =)', ['None']),
    ]


if os.environ.get('MUT_EXTRA3') == '1':   # mut2's pass-2 classes that are not in EXTRA / EXTRA2
    RULES += [
        # first two of three or more call arguments swapped
        (r'(?<=\w\()([^(),;:{}]+), ([^(),;:{}]+)(?=,)', [lambda m: m.group(2) + ', ' + m.group(1)]),
        (r'LineSide::Left\b', ['LineSide::Right']), (r'LineSide::Right\b', ['LineSide::Left']),
        (r'StrokeOffset::Left\b', ['StrokeOffset::Right']), (r'StrokeOffset::Right\b', ['StrokeOffset::Left']), (r'StrokeOffset::None\b', ['StrokeOffset::Left']),
        (r'StrokeAlignment::Inside\b', ['StrokeAlignment::Center']), (r'StrokeAlignment::Center\b', ['StrokeAlignment::Outside']), (r'StrokeAlignment::Outside\b', ['StrokeAlignment::Inside']),
        (r'\.start\b(?!\()', ['.end']), (r'\.end\b(?!\()', ['.start']),
        (r'\bfirst\b', ['second']), (r'\bsecond\b', ['first']), (r'\.left\b', ['.right']), (r'\.right\b', ['.left']),
        (r'\bJoinKind::(?!Bevel)(\w+)\b', ['JoinKind::Bevel']),
        (r'PointType::Stroke\b', ['PointType::Fill']), (r'PointType::Fill\b', ['PointType::Stroke']),
        (r'BevelKind::Interior\b', ['BevelKind::Exterior']), (r'BevelKind::Exterior\b', ['BevelKind::Interior']),
        (r'Operation::Union\b', ['Operation::Intersection']), (r'Operation::Intersection\b', ['Operation::Union']),
        (r'\bstroke_color\b', ['fill_color']), (r'\bfill_color\b', ['stroke_color']),
        (r'\bstroke_area\b', ['fill_area']), (r'\bfill_area\b', ['stroke_area']),
        (r'\binside_stroke_width\b', ['outside_stroke_width']), (r'\boutside_stroke_width\b', ['inside_stroke_width']),
        (r'\bouter_threshold\b', ['inner_threshold']), (r'\binner_threshold\b', ['outer_threshold']),
        (r'\bangle_start\b', ['angle_sweep']), (r'\bangle_sweep\b', ['angle_start']),
    ]


def code_spans(src):
    """yield (start, end) of non-comment, non-string, non-test code"""
    k = src.find('#[cfg(test)]')
    limit = k if k >= 0 else len(src)
    i = 0
    out = []
    st = 0
    while i < limit:
        if src.startswith('//', i):
            j = src.find('\n', i)
            j = limit if j < 0 else j
            if st < i:
                out.append((st, i))
            i = st = j
        elif src.startswith('/*', i):
            j = src.find('*/', i)
            j = limit if j < 0 else j + 2
            if st < i:
                out.append((st, i))
            i = st = j
        elif src[i] == '"':
            j = i + 1
            while j < limit and src[j] != '"':
                j += 2 if src[j] == '\\' else 1
            if st < i:
                out.append((st, i))
            i = st = j + 1
        else:
            i += 1
    if st < limit:
        out.append((st, limit))
    return out


def mutants(path):
    src = open(path).read()
    res = []
    for (a, b) in code_spans(src):
        seg = src[a:b]
        for rx, reps in RULES:
            for m in re.finditer(rx, seg):
                line_start = src.rfind('\n', 0, a + m.start()) + 1
                line = src[line_start:src.find('\n', a + m.start())]
                if re.match(r'\s*(#\[|use |pub use |mod |//|///|assert|debug_assert)', line):
                    continue
                if SKIP_GENERICS and m.group(0) in '<>' and not (seg[m.start() - 1:m.start()] == ' ' and seg[m.end():m.end() + 1] == ' '):
                    continue   # rustfmt puts spaces around comparisons; `<`/`>` without them are generic brackets
                for r in reps:
                    if callable(r):
                        r = r(m)
                        if r == m.group(0):
                            continue
                    res.append((a + m.start(), a + m.end(), m.group(0), r))
    res.sort()
    return src, res


def sh(cmd, cwd=None, timeout=None, env=None):
    try:
        p = subprocess.run(cmd, shell=True, cwd=cwd, env=env or ENV, stdout=subprocess.PIPE, stderr=subprocess.STDOUT, text=True, timeout=timeout)
        return p.returncode, p.stdout
    except subprocess.TimeoutExpired:
        return 124, 'TIMEOUT'


done = set()
if os.path.exists(OUT):
    for l in open(OUT):
        done.add(l.split('\t')[0])
STRIDE = int(os.environ.get('MUT_STRIDE', '1'))
OFFSET = int(os.environ.get('MUT_OFFSET', '0'))
for rel in FILES:
    path = os.path.join(W, rel)
    src, ms = mutants(path)
    # cheapest check first (measured quick-tier wall times); the set of mapped properties is unchanged
    COST = {'C19': 17, 'C16': 13, 'C06': 27, 'C17': 36, 'C01': 41, 'C02': 49, 'C07': 61, 'C18': 87, 'C05': 112, 'C08': 160}
    props = sorted({p for pre, ps in PMAP.items() if rel.startswith(pre) for p in ps}, key=lambda q: (COST.get(q, 100), q))
    for idx, (a, b, old, new) in enumerate(ms):
        if idx % STRIDE != OFFSET:
            continue
        line_no = src.count('\n', 0, a) + 1
        mid = '%s:%d:%d:%s->%s' % (rel, line_no, a, old.strip() or '_', new.strip() or '_')
        if mid in done or (ONLY and not re.search(ONLY, mid)):
            continue
        open(path, 'w').write(src[:a] + new + src[b:])
        try:
            rc, out = sh('cargo build --offline -j6 2>&1 | tail -5', cwd=W, timeout=600)
            if 'error' in out:
                verdict = 'NOCOMPILE'
            else:
                rc, out = sh('timeout -k 10 150 cargo test --workspace --offline -j6 2>&1 | grep -E "^test result|error(\\[|:)|FAILED|panicked" | head -20', cwd=W, timeout=1500)
                # NB "test result: ok. 421 passed; 0 failed; ..." contains the word `failed`: only a non-zero count is a failure
                if rc == 124 or 'FAILED' in out or 'error' in out or 'panicked' in out or re.search(r'\b[1-9]\d* failed', out) or out.count('test result') < 9:   # 9 = number of test binaries + doc-test runs on the unchanged tree
                    verdict = 'NOCOMPILE (test build)' if 'error[E' in out else 'KILLED-BY-TESTS'
                else:
                    verdict = ''
                    for p in props:
                        rc, o = sh('timeout 1500 ./check %s' % p, cwd=V, env=dict(os.environ, EG_REPO=W), timeout=1600)
                        v = [l for l in o.splitlines() if l.startswith('VIOLATION')]
                        if v:
                            verdict = 'CAUGHT %s %s' % (p, 'no-input' if 'no-failing-input-found' in v[0] else 'input')
                            try:  # remember which suite / theorem reported it (first replay)
                                d = json.load(open(os.path.join(V, re.search(r'replay=(\S+)', v[0]).group(1))))
                                what = d.get('input') or d.get('first_disagreeing_case') or d.get('theorem_or_suite') or ''
                                verdict += ' [' + str(d.get('kind')) + ': ' + str(what).replace('\t', ' ').replace('\n', ' ')[:120] + ']'
                            except Exception:
                                pass
                            break
                    if not verdict:
                        verdict = 'SURVIVED ' + ','.join(props)
        finally:
            open(path, 'w').write(src)
        with open(OUT, 'a') as f:
            f.write('%s\t%s\t%s\n' % (mid, verdict, src[src.rfind(chr(10), 0, a) + 1:src.find(chr(10), a)].strip()[:120]))
        print(mid, verdict, flush=True)
