#!/bin/sh
# Regression suite of the Rust->Gallina translator translate/r2c (adversarial inputs of the r2c audit: each test is either
# refused by the translator or agrees, value by value, with a native Rust run; expectations pinned in
# translate/r2c/tests/EXPECT.txt).  ~1-2 minutes, offline.   usage: sh tools/r2c_selftest.sh [test names]
exec sh "$(cd "$(dirname "$0")/.." && pwd)/translate/r2c/selftest.sh" "$@"
