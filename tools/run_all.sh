#!/bin/sh
# runs every claimed check (quick tier unless TIER is set) on the unchanged tree, prints one line per property
cd "$(dirname "$0")/.."
for p in $(python3 -c "import json; print(' '.join(c['property_id'] for c in json.load(open('MANIFEST.json'))['checks']))"); do
  s=$(date +%s); out=$(./check $p --tier ${TIER:-quick} 2>&1); rc=$?
  echo "$p rc=$rc $(( $(date +%s) - s ))s $(echo "$out" | grep -E '^(OK|VIOLATION|KNOWN-FINDING)' | cut -c1-160 | tr '\n' '|')"
done
