#!/usr/bin/env python3
"""run_seeded.py [<seed dir name> ...] [--tier quick]
Runs the registered check of the property each seeded change breaks against a scratch worktree of /repo with the
change applied (EG_REPO), and reports whether the check raised a VIOLATION.  /repo itself is never touched.
seeded/<name>/meta.json: {"property": "Cxx", "also": ["Cyy"...]}.  Results go to seeded/RESULTS.md (table)."""
import sys, os, json, subprocess, time
V = os.path.join(os.path.dirname(os.path.abspath(__file__)), '..')
S = os.path.join(V, 'seeded')
args = [a for a in sys.argv[1:] if not a.startswith('--')]
names = args or sorted(d for d in os.listdir(S) if os.path.isdir(os.path.join(S, d)))
rows = []
for n in names:
    d = os.path.join(S, n)
    meta = json.load(open(os.path.join(d, 'meta.json')))
    w = '/tmp/seedrun-%s' % n
    subprocess.run(['git', '-C', '/repo', 'worktree', 'remove', '--force', w], stderr=subprocess.DEVNULL)
    subprocess.check_call(['git', '-C', '/repo', 'worktree', 'add', '-q', '--detach', w, 'HEAD'])
    try:
        subprocess.check_call(['git', '-C', w, 'apply', os.path.join(d, 'patch.diff')])
        for pid in [meta['property']] + meta.get('also', []):
            t = time.time()
            p = subprocess.run([os.path.join(V, 'check'), pid], env=dict(os.environ, EG_REPO=w), stdout=subprocess.PIPE,
                               stderr=subprocess.STDOUT, text=True)
            vio = [l for l in p.stdout.splitlines() if l.startswith('VIOLATION')]
            how = ''
            if vio:
                rp = vio[0].split('replay=')[1].split()[0]
                try:
                    r = json.load(open(os.path.join(V, rp)))
                    how = r.get('kind', '') + ': ' + str(r.get('input') or r.get('first_disagreeing_case') or r.get('theorem_or_suite'))[:160]
                except Exception:
                    pass
            rows.append((n, pid, 'CAUGHT' if (vio and p.returncode == 1) else 'MISSED', '%.0fs' % (time.time() - t), how))
            print(rows[-1], flush=True)
    finally:
        subprocess.run(['git', '-C', '/repo', 'worktree', 'remove', '--force', w])
# restore harness manifest to /repo
subprocess.run(['sh', '-c', 'sed "s#@REPO@#/repo#g" harness/Cargo.toml.in > harness/Cargo.toml'], cwd=V)
if not args:
    with open(os.path.join(S, 'RESULTS.md'), 'w') as f:
        f.write('| seeded change | property | result | time | how |\n|---|---|---|---|---|\n')
        for r in rows:
            f.write('| %s | %s | %s | %s | %s |\n' % r)
