#!/bin/sh
# verify_seed.sh <dir with patch.diff + demo.rs>
# Confirms, in a scratch worktree of /repo outside /repo and /verif, that a seeded change
#   (1) applies and compiles, (2) leaves the existing suite green, (3) makes the demonstration fail,
#   and that (4) the demonstration passes on the unchanged tree.  Prints one line VERIFIED / REJECTED <why>.
set -u
D=$(cd "$1" && pwd)
W=/tmp/vseed-$$
export CARGO_NET_OFFLINE=true CARGO_TARGET_DIR=/tmp/vseed-target
git -C /repo worktree add -q --detach "$W" HEAD || { echo "REJECTED cannot create worktree"; exit 2; }
cleanup() { git -C /repo worktree remove --force "$W" >/dev/null 2>&1; }
trap cleanup EXIT
cd "$W"
cp "$D/demo.rs" tests/seed_demo.rs
if ! timeout 1200 cargo test --offline -j8 --test seed_demo >/tmp/vseed-base.log 2>&1; then
  echo "REJECTED demo fails on the unchanged tree"; tail -15 /tmp/vseed-base.log; exit 1
fi
rm tests/seed_demo.rs
if ! git apply "$D/patch.diff" 2>/tmp/vseed-apply.log; then echo "REJECTED patch does not apply"; cat /tmp/vseed-apply.log; exit 1; fi
if ! timeout 2400 cargo test --workspace --no-fail-fast --offline -j8 >/tmp/vseed-suite.log 2>&1; then
  echo "REJECTED existing suite fails with the change"; grep -E "FAILED|failed|panicked|error" /tmp/vseed-suite.log | head -10; exit 1
fi
cp "$D/demo.rs" tests/seed_demo.rs
if timeout 1200 cargo test --offline -j8 --test seed_demo >/tmp/vseed-demo.log 2>&1; then
  echo "REJECTED demo passes with the change"; exit 1
fi
echo "VERIFIED $(grep -E '^test result' /tmp/vseed-suite.log | awk '{p+=$4} END {print p}') existing tests pass with the change; demo fails with it and passes without"
