#!/usr/bin/env python3
"""Mutation tests for the C04 machinery (translate/errflow + Properties/C04.v + p_errflow).

usage: python3 translate/errflow/mutation_tests.py [name ...]
Creates the scratch worktree /tmp/scratch-errflow of /repo, applies one mutation at a time, runs
`EG_REPO=/tmp/scratch-errflow ./check C04`, prints the verdict lines, restores the file, and removes the
scratch tree at the end.  Every mutation must give VIOLATION (with a failing input from the dynamic sweep
where the fault is reachable by the sweep's drawables)."""
import os, subprocess, sys, json, re

V = os.path.dirname(os.path.dirname(os.path.dirname(os.path.abspath(__file__))))
S = '/tmp/scratch-errflow'

M = [
    # 1. dropped `?` -> `let _ =`
    ('rect_fill_let_underscore', 'src/primitives/rectangle/styled.rs',
     'target.fill_solid(&fill_area, fill_color)?;', 'let _ = target.fill_solid(&fill_area, fill_color);'),
    # 2. swallowed only for the bottom border rectangle
    ('rect_bottom_border_ok', 'src/primitives/rectangle/styled.rs',
     'target.fill_solid(&bottom_border, stroke_color)?;', 'target.fill_solid(&bottom_border, stroke_color).ok();'),
    # 3. per-line loop of Text::draw finishes first and returns the error at the end (Deferred)
    ('text_deferred', 'src/text/text.rs',
     '''        for (line, position) in self.lines() {
            next_position = self.character_style.draw_string(
                line,
                position,
                self.text_style.baseline,
                target,
            )?;
        }

        Ok(next_position)''',
     '''        let mut result = Ok(next_position);
        for (line, position) in self.lines() {
            let r = self.character_style.draw_string(
                line,
                position,
                self.text_style.baseline,
                target,
            );
            if result.is_ok() {
                result = r;
            }
        }

        result'''),
    # 4. retry once on error: the error of the first attempt is replaced by the outcome of the second
    ('triangle_retry', 'src/primitives/triangle/styled.rs',
     'target.fill_solid(&rect, color)?;', 'target.fill_solid(&rect, color).or_else(|_| target.fill_solid(&rect, color))?;'),
    # 5. a call after the failing one: decorations are still drawn, then the error is returned
    ('whitespace_call_after_failure', 'src/mono_font/mono_text_style.rs',
     '''            self.draw_decorations(width, position, target)?;
        }

        Ok(position + Point::new(width.saturating_as(), self.baseline_offset(baseline)))''',
     '''            let r = self.draw_decorations(width, position, target);
            if r.is_err() {
                target.fill_solid(&Rectangle::new(position, Size::new(width, 1)), self.text_color.unwrap())?;
            }
            r?;
        }

        Ok(position + Point::new(width.saturating_as(), self.baseline_offset(baseline)))'''),
    # 6. swallowed only when there is no fill (stroke-only circle)
    ('circle_stroke_only_discard', 'src/primitives/circle/styled.rs',
     'scanline.draw_stroke(target, stroke_color)?;', 'scanline.draw_stroke(target, stroke_color).unwrap_or_default();'),
    # 7. adapter swallows
    ('translated_fill_contiguous_swallow', 'src/draw_target/translated.rs',
     'self.parent.fill_contiguous(&area, colors)\n', 'self.parent.fill_contiguous(&area, colors).ok();\n        Ok(())\n'),
    # 8. trait default swallows
    ('default_fill_solid_swallow', 'core/src/draw_target/mod.rs',
     'self.fill_contiguous(area, core::iter::repeat(color))\n', 'let _ = self.fill_contiguous(area, core::iter::repeat(color));\n        Ok(())\n'),
    # 9. loop goes on after an error, error returned after the loop
    ('polyline_thick_continue', 'src/primitives/polyline/styled.rs',
     '''        if !rect.is_zero_sized() {
            target.fill_solid(&rect, stroke_color)?;
        }
    }

    Ok(())''',
     '''        if !rect.is_zero_sized() {
            if let Err(e) = target.fill_solid(&rect, stroke_color) {
                first = first.or(Some(e));
                continue;
            }
        }
    }

    match first {
        Some(e) => Err(e),
        None => Ok(()),
    }'''),
    # 10. glyph drawing: error mapped through a closure (same value here, but the flow is no longer `?` on the call)
    ('glyph_map_err', 'src/mono_font/mono_text_style.rs',
     'Image::new(&glyph, p).draw(&mut target)?;', 'Image::new(&glyph, p).draw(&mut target).map_err(|e| e)?;'),
    # 11. scanline: middle statement loses its `?`
    ('scanline_fill_semicolon', 'src/primitives/common/styled_scanline.rs',
     'self.fill().draw(target, fill_color)?;', 'let _unused = self.fill().draw(target, fill_color);'),
    # benign refactor (must stay OK): two border fills moved into a new propagating helper
    ('BENIGN_new_helper', 'src/primitives/rectangle/styled.rs',
     '''                target.fill_solid(&left_border, stroke_color)?;
                target.fill_solid(&right_border, stroke_color)?;''',
     '''                draw_sides(target, &left_border, &right_border, stroke_color)?;'''),
    # 12. the swallowing is hidden in a helper that does not return a Result
    ('helper_without_result', 'src/primitives/rectangle/styled.rs',
     'target.fill_solid(&top_border, stroke_color)?;',
     'fill_quietly(target, &top_border, stroke_color);'),
    # 13. loop turned into an iterator chain whose closure swallows
    ('closure_for_each', 'src/primitives/polyline/styled.rs',
     '''    for line in ScanlineIterator::new(polyline, style) {
        let rect = line.to_rectangle();

        if !rect.is_zero_sized() {
            target.fill_solid(&rect, stroke_color)?;
        }
    }

    Ok(())''',
     '''    ScanlineIterator::new(polyline, style)
        .map(|line| line.to_rectangle())
        .filter(|rect| !rect.is_zero_sized())
        .for_each(|rect| {
            target.fill_solid(&rect, stroke_color).ok();
        });

    Ok(())'''),
    # 14. nested fn inside the drawing function swallows
    ('nested_fn', 'src/primitives/common/scanline.rs',
     '''        target.fill_solid(
            &Rectangle::new(Point::new(self.x.start, self.y), Size::new(width, 1)),
            color,
        )
    }''',
     '''        fn quiet<T: DrawTarget>(t: &mut T, r: &Rectangle, c: T::Color) -> bool {
            t.fill_solid(r, c).is_ok()
        }
        quiet(
            target,
            &Rectangle::new(Point::new(self.x.start, self.y), Size::new(width, 1)),
            color,
        );
        Ok(())
    }'''),
    # 15. the swallowing call is hidden in a macro_rules body (not parsed by syn): the translator must refuse the tree
    ('macro_hidden', 'src/primitives/rectangle/styled.rs',
     'target.fill_solid(&top_border, stroke_color)?;',
     'quiet_fill!(target, &top_border, stroke_color);'),
]
PRE = {'macro_hidden': ('fn dot_positions_with_dotted_corners(', 'macro_rules! quiet_fill {\n    ($t:expr, $r:expr, $c:expr) => {\n        let _ = $t.fill_solid($r, $c);\n    };\n}\n\nfn dot_positions_with_dotted_corners('),
       'BENIGN_new_helper': ('fn dot_positions_with_dotted_corners(', 'fn draw_sides<D: DrawTarget>(t: &mut D, l: &Rectangle, r: &Rectangle, c: D::Color) -> Result<(), D::Error> {\n    t.fill_solid(l, c)?;\n    t.fill_solid(r, c)\n}\n\nfn dot_positions_with_dotted_corners('),
       'helper_without_result': ('fn dot_positions_with_dotted_corners(', 'fn fill_quietly<D: DrawTarget>(t: &mut D, r: &Rectangle, c: D::Color) {\n    t.fill_solid(r, c).ok();\n}\n\nfn dot_positions_with_dotted_corners('),
       'polyline_thick_continue': ('for line in ScanlineIterator::new(polyline, style) {', 'let mut first = None;\n    for line in ScanlineIterator::new(polyline, style) {')}


def sh(cmd, **kw):
    return subprocess.run(cmd, shell=True, stdout=subprocess.PIPE, stderr=subprocess.STDOUT, text=True, **kw)


def main():
    want = sys.argv[1:]
    sh('git -C /repo worktree remove --force %s' % S)
    r = sh('git -C /repo worktree add --detach %s HEAD' % S)
    if r.returncode != 0:
        print(r.stdout)
        return 2
    caught = 0
    total = 0
    try:
        for name, f, old, new in M:
            if want and name not in want:
                continue
            total += 1
            p = os.path.join(S, f)
            src = open(p).read()
            if src.count(old) < 1:
                print('MUTATION %s: pattern not found in %s' % (name, f))
                continue
            mut = src.replace(old, new, 1)
            if name in PRE:
                a, b = PRE[name]
                assert a in mut
                mut = mut.replace(a, b, 1)
            open(p, 'w').write(mut)
            r = sh('timeout 1500 ./check C04', cwd=V, env=dict(os.environ, EG_REPO=S))
            lines = [l for l in r.stdout.splitlines() if l.startswith(('VIOLATION', 'OK', 'KNOWN'))]
            if name.startswith('BENIGN'):
                ok = r.returncode == 0 and any(l.startswith('OK') for l in lines)
            else:
                ok = r.returncode == 1 and any(l.startswith('VIOLATION') for l in lines)
            caught += ok
            print('MUTATION %-36s exit=%d %s' % (name, r.returncode, ('CAUGHT' if ok else 'MISSED') if not name.startswith('BENIGN') else ('STAYS-OK' if ok else 'FALSE-ALARM')))
            for l in lines[:2]:
                print('    ' + l)
                m = re.search(r'replay=(\S+)', l)
                if m:
                    d = json.load(open(os.path.join(V, m.group(1))))
                    what = d.get('input') or d.get('theorem_or_suite') or d.get('log', '')
                    print('      %s: %s' % (d['kind'], str(what)[:420].replace('\n', ' ')))
                    if d.get('observed'):
                        print('      observed: %s' % d['observed'][:300])
            ev = json.load(open(os.path.join(V, 'evidence', 'C04.json')))['coverage']
            static = ev.get('discharged') != ev.get('obligations') or any('translator' in str(n) or 'proof' in str(n) for n in ev.get('notes', []))
            print('    static side (translator + Coq reflection): %s   theorems %s/%s  notes=%s' % (
                'BROKEN (caught)' if static else 'still passes', ev.get('discharged'), ev.get('obligations'), ev.get('notes')))
            open(p, 'w').write(src)
    finally:
        sh('git -C /repo worktree remove --force %s' % S)
    print('caught %d of %d' % (caught, total))
    return 0 if caught == total else 1


if __name__ == '__main__':
    sys.exit(main())
