#!/usr/bin/env python3
"""Mutation tests for the C04 machinery (translate/errflow + Properties/C04.v + p_errflow).

usage: python3 translate/errflow/mutation_tests.py [name ...]
Creates the scratch worktree /tmp/scratch-errflow of /repo, applies one mutation at a time, runs
`EG_REPO=/tmp/scratch-errflow ./check C04`, prints the verdict lines, restores the file, and removes the
scratch tree at the end.  Every mutation must give VIOLATION (with a failing input from the dynamic sweep
where the fault is reachable by the sweep's drawables)."""
import os, subprocess, sys, json, re

V = os.path.dirname(os.path.dirname(os.path.dirname(os.path.abspath(__file__))))
S = '/tmp/scratch-errflow'

M = [
    # 1. dropped `?` -> `let _ =`
    ('rect_fill_let_underscore', 'src/primitives/rectangle/styled.rs',
     'target.fill_solid(&fill_area, fill_color)?;', 'let _ = target.fill_solid(&fill_area, fill_color);'),
    # 2. swallowed only for the bottom border rectangle
    ('rect_bottom_border_ok', 'src/primitives/rectangle/styled.rs',
     'target.fill_solid(&bottom_border, stroke_color)?;', 'target.fill_solid(&bottom_border, stroke_color).ok();'),
    # 3. per-line loop of Text::draw finishes first and returns the error at the end (Deferred)
    ('text_deferred', 'src/text/text.rs',
     '''        for (line, position) in self.lines() {
            next_position = self.character_style.draw_string(
                line,
                position,
                self.text_style.baseline,
                target,
            )?;
        }

        Ok(next_position)''',
     '''        let mut result = Ok(next_position);
        for (line, position) in self.lines() {
            let r = self.character_style.draw_string(
                line,
                position,
                self.text_style.baseline,
                target,
            );
            if result.is_ok() {
                result = r;
            }
        }

        result'''),
    # 4. retry once on error: the error of the first attempt is replaced by the outcome of the second
    ('triangle_retry', 'src/primitives/triangle/styled.rs',
     'target.fill_solid(&rect, color)?;', 'target.fill_solid(&rect, color).or_else(|_| target.fill_solid(&rect, color))?;'),
    # 5. a call after the failing one: decorations are still drawn, then the error is returned
    ('whitespace_call_after_failure', 'src/mono_font/mono_text_style.rs',
     '''            self.draw_decorations(width, position, target)?;
        }

        Ok(position + Point::new(width.saturating_as(), self.baseline_offset(baseline)))''',
     '''            let r = self.draw_decorations(width, position, target);
            if r.is_err() {
                target.fill_solid(&Rectangle::new(position, Size::new(width, 1)), self.text_color.unwrap())?;
            }
            r?;
        }

        Ok(position + Point::new(width.saturating_as(), self.baseline_offset(baseline)))'''),
    # 6. swallowed only when there is no fill (stroke-only circle)
    ('circle_stroke_only_discard', 'src/primitives/circle/styled.rs',
     'scanline.draw_stroke(target, stroke_color)?;', 'scanline.draw_stroke(target, stroke_color).unwrap_or_default();'),
    # 7. adapter swallows
    ('translated_fill_contiguous_swallow', 'src/draw_target/translated.rs',
     'self.parent.fill_contiguous(&area, colors)\n', 'self.parent.fill_contiguous(&area, colors).ok();\n        Ok(())\n'),
    # 8. trait default swallows
    ('default_fill_solid_swallow', 'core/src/draw_target/mod.rs',
     'self.fill_contiguous(area, core::iter::repeat(color))\n', 'let _ = self.fill_contiguous(area, core::iter::repeat(color));\n        Ok(())\n'),
    # 9. loop goes on after an error, error returned after the loop
    ('polyline_thick_continue', 'src/primitives/polyline/styled.rs',
     '''        if !rect.is_zero_sized() {
            target.fill_solid(&rect, stroke_color)?;
        }
    }

    Ok(())''',
     '''        if !rect.is_zero_sized() {
            if let Err(e) = target.fill_solid(&rect, stroke_color) {
                first = first.or(Some(e));
                continue;
            }
        }
    }

    match first {
        Some(e) => Err(e),
        None => Ok(()),
    }'''),
    # 10. glyph drawing: error mapped through a closure (same value here, but the flow is no longer `?` on the call)
    ('glyph_map_err', 'src/mono_font/mono_text_style.rs',
     'Image::new(&glyph, p).draw(&mut target)?;', 'Image::new(&glyph, p).draw(&mut target).map_err(|e| e)?;'),
    # 11. scanline: middle statement loses its `?`
    ('scanline_fill_semicolon', 'src/primitives/common/styled_scanline.rs',
     'self.fill().draw(target, fill_color)?;', 'let _unused = self.fill().draw(target, fill_color);'),
    # benign refactor (must stay OK): two border fills moved into a new propagating helper
    ('BENIGN_new_helper', 'src/primitives/rectangle/styled.rs',
     '''                target.fill_solid(&left_border, stroke_color)?;
                target.fill_solid(&right_border, stroke_color)?;''',
     '''                draw_sides(target, &left_border, &right_border, stroke_color)?;'''),
    # 12. the swallowing is hidden in a helper that does not return a Result
    ('helper_without_result', 'src/primitives/rectangle/styled.rs',
     'target.fill_solid(&top_border, stroke_color)?;',
     'fill_quietly(target, &top_border, stroke_color);'),
    # 13. loop turned into an iterator chain whose closure swallows
    ('closure_for_each', 'src/primitives/polyline/styled.rs',
     '''    for line in ScanlineIterator::new(polyline, style) {
        let rect = line.to_rectangle();

        if !rect.is_zero_sized() {
            target.fill_solid(&rect, stroke_color)?;
        }
    }

    Ok(())''',
     '''    ScanlineIterator::new(polyline, style)
        .map(|line| line.to_rectangle())
        .filter(|rect| !rect.is_zero_sized())
        .for_each(|rect| {
            target.fill_solid(&rect, stroke_color).ok();
        });

    Ok(())'''),
    # 14. nested fn inside the drawing function swallows
    ('nested_fn', 'src/primitives/common/scanline.rs',
     '''        target.fill_solid(
            &Rectangle::new(Point::new(self.x.start, self.y), Size::new(width, 1)),
            color,
        )
    }''',
     '''        fn quiet<T: DrawTarget>(t: &mut T, r: &Rectangle, c: T::Color) -> bool {
            t.fill_solid(r, c).is_ok()
        }
        quiet(
            target,
            &Rectangle::new(Point::new(self.x.start, self.y), Size::new(width, 1)),
            color,
        );
        Ok(())
    }'''),
    # 15. the swallowing call is hidden in a macro_rules body (not parsed by syn): the translator must refuse the tree
    ('macro_hidden', 'src/primitives/rectangle/styled.rs',
     'target.fill_solid(&top_border, stroke_color)?;',
     'quiet_fill!(target, &top_border, stroke_color);'),
    # 16. (audit 1, gap 1) swallowing helper under #[cfg(not(test))]: its cfg text contains "test" but it is NOT test-only
    ('cfg_not_test_helper', 'src/primitives/rectangle/styled.rs',
     'target.fill_solid(&top_border, stroke_color)?;',
     'fill_quietly(target, &top_border, stroke_color);'),
    # 17. (audit 1, gap 2) propagating fn used as a bare value, called through the variable, result discarded
    ('fn_pointer_value', 'src/primitives/polyline/styled.rs',
     '                        draw_thick(self, style, stroke_color, target)\n',
     '                        let f = draw_thick;\n                        let _ = f(self, style, stroke_color, target);\n                        Ok(())\n'),
    # 18. adapter converts the error through a wrapper type is not expressible without changing the public API; instead:
    #     `?` inside a helper that returns Option (error dropped by conversion)
    ('try_in_option_fn', 'src/primitives/rectangle/styled.rs',
     'target.fill_solid(&bottom_border, stroke_color)?;',
     'let _ = fill_opt(target, &bottom_border, stroke_color);'),
    # seeded changes of the coordinator (patch files)
    ('SEEDED_C04_A', None, '/verif/seeded/C04-A/patch.diff', None),
    ('SEEDED_C04_B', None, '/verif/seeded/C04-B/patch.diff', None),
]
PRE = {'cfg_not_test_helper': ('fn dot_positions_with_dotted_corners(', '#[cfg(not(test))]\nfn fill_quietly<D: DrawTarget>(t: &mut D, r: &Rectangle, c: D::Color) {\n    t.fill_solid(r, c).ok();\n}\n#[cfg(test)]\nfn fill_quietly<D: DrawTarget>(t: &mut D, r: &Rectangle, c: D::Color) {\n    t.fill_solid(r, c).ok();\n}\n\nfn dot_positions_with_dotted_corners('),
       'try_in_option_fn': ('fn dot_positions_with_dotted_corners(', 'fn fill_opt<D: DrawTarget>(t: &mut D, r: &Rectangle, c: D::Color) -> Option<()> {\n    t.fill_solid(r, c).ok()?;\n    Some(())\n}\n\nfn dot_positions_with_dotted_corners('),
       'macro_hidden': ('fn dot_positions_with_dotted_corners(', 'macro_rules! quiet_fill {\n    ($t:expr, $r:expr, $c:expr) => {\n        let _ = $t.fill_solid($r, $c);\n    };\n}\n\nfn dot_positions_with_dotted_corners('),
       'BENIGN_new_helper': ('fn dot_positions_with_dotted_corners(', 'fn draw_sides<D: DrawTarget>(t: &mut D, l: &Rectangle, r: &Rectangle, c: D::Color) -> Result<(), D::Error> {\n    t.fill_solid(l, c)?;\n    t.fill_solid(r, c)\n}\n\nfn dot_positions_with_dotted_corners('),
       'helper_without_result': ('fn dot_positions_with_dotted_corners(', 'fn fill_quietly<D: DrawTarget>(t: &mut D, r: &Rectangle, c: D::Color) {\n    t.fill_solid(r, c).ok();\n}\n\nfn dot_positions_with_dotted_corners('),
       'polyline_thick_continue': ('for line in ScanlineIterator::new(polyline, style) {', 'let mut first = None;\n    for line in ScanlineIterator::new(polyline, style) {')}


def sh(cmd, **kw):
    return subprocess.run(cmd, shell=True, stdout=subprocess.PIPE, stderr=subprocess.STDOUT, text=True, **kw)


def run_one(name):
    r = sh('timeout 1500 ./check C04', cwd=V, env=dict(os.environ, EG_REPO=S))
    lines = [l for l in r.stdout.splitlines() if l.startswith(('VIOLATION', 'OK', 'KNOWN'))]
    if name.startswith('BENIGN'):
        ok = r.returncode == 0 and any(l.startswith('OK') for l in lines)
    else:
        ok = r.returncode == 1 and any(l.startswith('VIOLATION') for l in lines)
    print('MUTATION %-36s exit=%d %s' % (name, r.returncode, ('CAUGHT' if ok else 'MISSED') if not name.startswith('BENIGN') else ('STAYS-OK' if ok else 'FALSE-ALARM')))
    for l in lines[:2]:
        print('    ' + l)
        m = re.search(r'replay=(\S+)', l)
        if m:
            d = json.load(open(os.path.join(V, m.group(1))))
            what = d.get('input') or d.get('theorem_or_suite') or d.get('log', '')
            print('      %s: %s' % (d['kind'], str(what)[:420].replace('\n', ' ')))
            if d.get('observed'):
                print('      observed: %s' % d['observed'][:300])
    ev = json.load(open(os.path.join(V, 'evidence', 'C04.json')))['coverage']
    static = ev.get('discharged') != ev.get('obligations') or any('translator' in str(n) or 'proof' in str(n) for n in ev.get('notes', []))
    print('    static side (translator + Coq reflection): %s   theorems %s/%s  notes=%s' % (
        'BROKEN (caught)' if static else 'still passes', ev.get('discharged'), ev.get('obligations'), ev.get('notes')))
    return ok


def per_site():
    """One swallow-the-error mutation per translated call site (79 on the unchanged tree), generated from the translator's
    own site list: `call?` -> `call.unwrap_or_default()`, tail/return `call` -> `call.or_else(|_| Ok(Default::default()))`.
    Requires the SWEEP ALONE to report a failing input for each (the static side catches all of them trivially).
    Writes translate/errflow/site_coverage.txt."""
    sh('git -C /repo worktree remove --force %s' % S)
    r = sh('git -C /repo worktree add --detach %s HEAD' % S)
    if r.returncode != 0:
        print(r.stdout)
        return 2
    tsv = '/tmp/errflow-sites.tsv'
    r = sh('%s/.build/errflow/release/errflow /repo /tmp/errflow-sites.v --sites %s' % (V, tsv))
    sites = [l.rstrip('\n').split('\t') for l in open(tsv)]
    only = [a for a in sys.argv[2:]]
    only_again = ['src/primitives/styled.rs:121']    # Styled::draw returns the generic Self::Output
    rows = []
    try:
        for f, callee, use, l0, c0, l1, c1 in sites:
            key = '%s:%s' % (f, l0)
            if only and key not in only:
                continue
            p = os.path.join(S, f)
            src = open(p).read()
            lines = src.split('\n')
            # offset of the end of the call expression
            li = int(l1) - 1
            line = lines[li]
            # columns count characters
            head, tail = line[:int(c1)], line[int(c1):]
            if use == 'Try':
                rest = '\n'.join([tail] + lines[li + 1:])
                m = re.match(r'(\s*)\?', rest)
                if not m:
                    rows.append((key, callee, use, 'NO-PATTERN'))
                    continue
                rest = '.unwrap_or_default()' + rest[m.end():]
                mut = '\n'.join(lines[:li] + [head + rest])
            elif use == 'Result':
                mut = '\n'.join(lines[:li] + [head + '.or_else(|_| Ok(Default::default()))' + tail] + lines[li + 1:])
            else:
                rows.append((key, callee, use, 'NOT-A-PROPAGATED-SITE'))
                continue
            if key in only_again or os.environ.get('SITE_MUTATION') == 'again':
                # fallback where no Ok value can be made up (generic Output): on error, make the same call once more,
                # then return the error -> "a call after the failing one"
                a = sum(len(x) + 1 for x in lines[:int(l0) - 1]) + int(c0)
                b = sum(len(x) + 1 for x in lines[:li]) + int(c1)
                call = src[a:b]
                mut = src[:a] + '{ let r__ = ' + call + '; if r__.is_err() { let _ = ' + call + '; } r__ }' + src[b:]
            open(p, 'w').write(mut)
            r = sh('timeout 1500 ./check C04', cwd=V, env=dict(os.environ, EG_REPO=S))
            verdict = 'MISSED'
            detail = ''
            for l in r.stdout.splitlines():
                m = re.search(r'^VIOLATION.*replay=(\S+)', l)
                if m:
                    d = json.load(open(os.path.join(V, m.group(1))))
                    if d['kind'] == 'failing-input':
                        verdict = 'SWEEP-CAUGHT'
                        detail = d['input'][:90] + ' -> ' + d['observed'][:60]
                        break
                    elif d['kind'] == 'implementation-does-not-build':
                        verdict = 'MUTANT-DOES-NOT-BUILD'
                        detail = d.get('log', '')[-300:].replace('\n', ' ')
                    elif verdict == 'MISSED':
                        verdict = 'STATIC-ONLY'
            rows.append((key, callee, use, verdict, detail))
            print('SITE %-52s %-16s %-7s %s %s' % (key, callee, use, verdict, detail), flush=True)
            open(p, 'w').write(src)
    finally:
        sh('git -C /repo worktree remove --force %s' % S)
    n = sum(1 for r_ in rows if r_[3] == 'SWEEP-CAUGHT')
    print('sweep alone caught %d of %d sites' % (n, len(rows)))
    if not only:
        with open(os.path.join(V, 'translate', 'errflow', 'site_coverage.txt'), 'w') as fo:
            fo.write('# per-site swallow mutation (mutation_tests.py --per-site): does p_errflow ALONE produce a failing input?\n')
            for r_ in rows:
                fo.write('%s\t%s\t%s\t%s\n' % r_[:4])
            fo.write('# sweep alone caught %d of %d sites\n' % (n, len(rows)))
    return 0


def main():
    if sys.argv[1:2] == ['--per-site']:
        return per_site()
    want = sys.argv[1:]
    sh('git -C /repo worktree remove --force %s' % S)
    r = sh('git -C /repo worktree add --detach %s HEAD' % S)
    if r.returncode != 0:
        print(r.stdout)
        return 2
    caught = 0
    total = 0
    try:
        for name, f, old, new in M:
            if want and name not in want:
                continue
            total += 1
            if f is None:      # patch file
                r = sh('git -C %s apply %s' % (S, old))
                if r.returncode != 0:
                    print('MUTATION %s: patch does not apply: %s' % (name, r.stdout))
                    continue
                caught += run_one(name)
                sh('git -C %s checkout -- .' % S)
                continue
            p = os.path.join(S, f)
            src = open(p).read()
            if src.count(old) < 1:
                print('MUTATION %s: pattern not found in %s' % (name, f))
                continue
            mut = src.replace(old, new, 1)
            if name in PRE:
                a, b = PRE[name]
                assert a in mut
                mut = mut.replace(a, b, 1)
            open(p, 'w').write(mut)
            caught += run_one(name)
            open(p, 'w').write(src)
    finally:
        sh('git -C /repo worktree remove --force %s' % S)
    print('caught %d of %d' % (caught, total))
    return 0 if caught == total else 1


if __name__ == '__main__':
    sys.exit(main())
