#!/bin/sh
# Builds translate/errflow (offline, into .build/errflow) and regenerates coq/Gen/ErrFlow.v from the tree at
# $EG_REPO (default /repo).  The .v file is rewritten only when its content changes.  Non-zero exit = the source
# no longer has a shape the translator understands (fail closed).
set -e
HERE=$(cd "$(dirname "$0")" && pwd)
V=$(cd "$HERE/../.." && pwd)
REPO=${EG_REPO:-/repo}
T=$V/.build/errflow
mkdir -p "$T" "$V/coq/Gen"
( cd "$HERE" && CARGO_NET_OFFLINE=true CARGO_TARGET_DIR="$T" timeout 900 cargo build --release --offline -j4 -q ) || { echo "errflow: translator does not build"; exit 3; }
OUT=$V/coq/Gen/ErrFlow.v
if ! timeout 300 "$T/release/errflow" "$REPO" "$OUT"; then
  # never leave the table of an earlier tree behind: the reflection theorems must fail, not pass on stale data
  cat > "$OUT" <<'EOD'
(* GENERATED stub: translate/errflow refused the source tree (see its message in the check output). *)
From Coq Require Import String List.
From EG Require Import Model.Errlang.
Import ListNotations.
Open Scope string_scope.
Definition prop_names : list string := [].
Definition functions : list fndef :=
  [ {| fname := "translator-failed"; fwhere := "translate/errflow refused the source tree";
       fbody := Other "translate/errflow refused the source tree" |} ].
Definition site_census : list (string * nat) := [].
Definition target_error_types : list (string * string * bool) := [].
EOD
  exit 2
fi
