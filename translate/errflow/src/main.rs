//! translate/errflow: regenerates coq/Gen/ErrFlow.v from the embedded-graphics source tree.
//!
//! usage: errflow <repo root> <output .v>
//!
//! Every `*.rs` file below `<repo>/src` and `<repo>/core/src` is parsed with syn.  Every function
//! (free fn, inherent/trait impl method, provided trait method; `#[cfg(test)]` items skipped) whose
//! return type is `Result<_, X::Error>` (X = a single identifier: `D`, `T`, `DT`, `Self`, ...) is an
//! *error-flow function*.  The set of their names (PROP, recomputed on every run, trait method
//! declarations without a body included) defines what a *propagating call* is: a method call
//! `recv.name(..)` or a path call `name(..)` / `Type::name(..)` with `name` in PROP.
//!
//! For each error-flow function with a body a control-flow skeleton
//!     Skip | Seq a b | Loop b | Branch a b | Call callee line disposition | Ret | Other why
//! is written as a Coq term (language: coq/Model/Errlang.v).  The disposition of a propagating call
//! says what happens to its `Result`:
//!     Propagated  `call?`, tail expression of the function, `return call`
//!     Discarded   `let _ = call;`, `call;`, `call.ok()`, `call.unwrap_or*(..)`, `call.is_ok()/is_err()`
//!     Deferred    `let r = call;`, `r = call;`  (bound to a variable, looked at later or never)
//! Every use this file does not know (result passed to a function, matched on, `.map_err(..)`, a
//! propagating call inside a closure or a macro, a hand made `Err(..)`, `break`/`continue`, `?` on
//! something that is not a propagating call, unknown expression kinds ...) becomes `Other "why"`,
//! which fails the Coq check (fail closed).  Shapes that cannot be represented at all (an anchored
//! file missing, a macro_rules body calling a propagating method) make this program exit non-zero.
//!
//! Items are dropped as test-only only when their `#[cfg(..)]` predicate evaluates to false with `test` off
//! (`cfg(test)`, `cfg(all(test, ..))`); `cfg(not(test))`, features etc. are kept.  A propagating NAME that occurs
//! outside call position (path / method reference / field / any token inside a macro invocation) is `Other`; so is
//! `call?` inside a function that does not itself return Result<_, X::Error>.  Besides the skeletons the output
//! contains `site_census` (per file: `name(` tokens in all non-test code) and `target_error_types` (the
//! `type Error` of every `impl DrawTarget`), both checked against the table in Properties/C04.v.
//! `--sites <tsv>` lists the source span of every call site (used by mutation_tests.py --per-site).
//!
//! Completeness self-check (independent of the AST walk): per function the number of `name(` tokens with a
//! propagating name must equal the number of translated call sites, otherwise an `Other` is appended.
//! Known limit (documented in props/C04.py): calls are recognised by NAME.  A callee that is not defined in the
//! scanned tree (closure parameter `f(target)`, method of a foreign trait) is only noticed where its value is the
//! function result or the operand of `?` (-> Other); discarding such a Result with `;` is not seen statically
//! (the dynamic sweep p_errflow is the net for that).
use proc_macro2::{Delimiter, TokenStream, TokenTree};
use std::collections::BTreeSet;
use std::fmt::Write as _;
use std::path::{Path, PathBuf};
use syn::spanned::Spanned;
use syn::*;

/// C04 anchor files (properties.jsonl + DESIGN.md section 5): each must exist and contain at least one
/// error-flow function, otherwise the source no longer has the shape this translator was written for.
const ANCHORS: &[&str] = &[
    "src/primitives/rectangle/styled.rs",
    "src/primitives/circle/styled.rs",
    "src/primitives/ellipse/styled.rs",
    "src/primitives/rounded_rectangle/styled.rs",
    "src/primitives/triangle/styled.rs",
    "src/primitives/polyline/styled.rs",
    "src/primitives/line/styled.rs",
    "src/primitives/arc/styled.rs",
    "src/primitives/sector/styled.rs",
    "src/primitives/styled.rs",
    "src/primitives/common/styled_scanline.rs",
    "src/primitives/common/scanline.rs",
    "src/mono_font/mono_text_style.rs",
    "src/mono_font/draw_target.rs",
    "src/text/text.rs",
    "src/image/mod.rs",
    "src/image/image_raw.rs",
    "src/image/sub_image.rs",
    "src/draw_target/clipped.rs",
    "src/draw_target/cropped.rs",
    "src/draw_target/translated.rs",
    "src/draw_target/color_converted.rs",
    "src/iterator/mod.rs",
    "core/src/draw_target/mod.rs",
    "core/src/drawable.rs",
    "core/src/image/mod.rs",
];

#[derive(Clone, Debug, PartialEq)]
enum Disp {
    Propagated,
    Discarded,
    Deferred,
}

#[derive(Clone, Debug, PartialEq)]
enum Sk {
    Skip,
    Seq(Box<Sk>, Box<Sk>),
    Loop(Box<Sk>),
    Branch(Box<Sk>, Box<Sk>),
    Call(String, usize, Disp),
    Ret,
    Other(String),
}

fn seq(a: Sk, b: Sk) -> Sk {
    match (a, b) {
        (Sk::Skip, b) => b,
        (a, Sk::Skip) => a,
        (a, b) => Sk::Seq(Box::new(a), Box::new(b)),
    }
}
fn seqs<I: IntoIterator<Item = Sk>>(it: I) -> Sk {
    // right nested: Seq a (Seq b c)
    let v: Vec<Sk> = it.into_iter().filter(|s| *s != Sk::Skip).collect();
    let mut acc = Sk::Skip;
    for s in v.into_iter().rev() {
        acc = seq(s, acc);
    }
    acc
}
fn branch(a: Sk, b: Sk) -> Sk {
    if a == Sk::Skip && b == Sk::Skip {
        Sk::Skip
    } else {
        Sk::Branch(Box::new(a), Box::new(b))
    }
}
fn lp(b: Sk) -> Sk {
    if b == Sk::Skip {
        Sk::Skip
    } else {
        Sk::Loop(Box::new(b))
    }
}

/// how the value of an expression is used
#[derive(Clone, Copy, Debug, PartialEq)]
enum Use {
    /// it is the function's result (tail expression or operand of `return`)
    Result,
    /// operand of `?`
    Try,
    /// thrown away: `expr;`, `let _ = expr;`
    Discard,
    /// bound to / assigned to a variable
    Bind,
    /// any other use (argument, operand, condition, scrutinee, receiver ...)
    Value,
}

struct FnInfo {
    name: String,
    place: String,
    body: Sk,
}

struct Ctx<'a> {
    prop: &'a BTreeSet<String>,
    /// the function being translated returns Result<_, X::Error>
    errflow: bool,
    /// file of the function being translated
    file: String,
    /// every translated call site: file, callee, use, start line, start column, end line, end column of the call
    /// expression (without the `?`); columns count characters from 0 (only for `--sites`, the per-site sweep test)
    sites: std::cell::RefCell<Vec<(String, String, String, usize, usize, usize, usize)>>,
}

fn line_of<T: Spanned>(t: &T) -> usize {
    t.span().start().line
}

/// three-valued evaluation of a cfg predicate under `test = false`; everything else (features, targets) is unknown
fn cfg_eval(m: &Meta) -> Option<bool> {
    match m {
        Meta::Path(p) => {
            if p.is_ident("test") {
                Some(false)
            } else {
                None
            }
        }
        Meta::NameValue(_) => None,
        Meta::List(l) => {
            let args: Vec<Meta> = match l.parse_args_with(syn::punctuated::Punctuated::<Meta, Token![,]>::parse_terminated) {
                Ok(a) => a.into_iter().collect(),
                Err(_) => return None,
            };
            let vals: Vec<Option<bool>> = args.iter().map(cfg_eval).collect();
            if l.path.is_ident("not") {
                vals.first().copied().flatten().map(|b| !b)
            } else if l.path.is_ident("all") {
                if vals.iter().any(|v| *v == Some(false)) {
                    Some(false)
                } else if vals.iter().all(|v| *v == Some(true)) {
                    Some(true)
                } else {
                    None
                }
            } else if l.path.is_ident("any") {
                if vals.iter().any(|v| *v == Some(true)) {
                    Some(true)
                } else if vals.iter().all(|v| *v == Some(false)) {
                    Some(false)
                } else {
                    None
                }
            } else {
                None
            }
        }
    }
}

/// an item is dropped only if one of its `#[cfg(..)]` predicates is definitely false when `test` is off
/// (`cfg(test)`, `cfg(all(test, ..))`); `cfg(not(test))`, `cfg(any(test, feature = ..))`, features ... are kept
fn is_cfg_test(attrs: &[Attribute]) -> bool {
    attrs.iter().any(|a| {
        a.path().is_ident("cfg")
            && match &a.meta {
                Meta::List(l) => match l.parse_args::<Meta>() {
                    Ok(pred) => cfg_eval(&pred) == Some(false),
                    Err(_) => false,
                },
                _ => false,
            }
    })
}

trait Ts {
    fn to_token_stream_string(&self) -> String;
}
impl<T: quote::ToTokens> Ts for T {
    fn to_token_stream_string(&self) -> String {
        self.to_token_stream().to_string()
    }
}

/// `Result<_, X::Error>` with X a single identifier
fn is_errflow_sig(sig: &Signature) -> bool {
    let ty = match &sig.output {
        ReturnType::Type(_, ty) => ty,
        _ => return false,
    };
    let p = match &**ty {
        Type::Path(p) if p.qself.is_none() => p,
        _ => return false,
    };
    let last = match p.path.segments.last() {
        Some(l) if l.ident == "Result" => l,
        _ => return false,
    };
    let args = match &last.arguments {
        PathArguments::AngleBracketed(a) => a,
        _ => return false,
    };
    if args.args.len() != 2 {
        return false;
    }
    match &args.args[1] {
        GenericArgument::Type(Type::Path(e)) => {
            // X::Error  or  <X as Trait>::Error
            let segs: Vec<_> = e.path.segments.iter().map(|s| s.ident.to_string()).collect();
            if segs.last().map(|s| s.as_str()) != Some("Error") {
                return false;
            }
            e.qself.is_some() || segs.len() == 2
        }
        _ => false,
    }
}

fn strip(e: &Expr) -> &Expr {
    match e {
        Expr::Paren(p) => strip(&p.expr),
        Expr::Group(g) => strip(&g.expr),
        _ => e,
    }
}

fn path_last(e: &Expr) -> Option<String> {
    match strip(e) {
        Expr::Path(p) => p.path.segments.last().map(|s| s.ident.to_string()),
        _ => None,
    }
}

/// does a token stream (macro argument) mention a propagating name as `name (`?
fn tokens_call_prop(ts: TokenStream, prop: &BTreeSet<String>) -> Option<String> {
    let v: Vec<TokenTree> = ts.into_iter().collect();
    for i in 0..v.len() {
        match &v[i] {
            TokenTree::Ident(id) => {
                if prop.contains(&id.to_string()) {
                    if let Some(TokenTree::Group(g)) = v.get(i + 1) {
                        if g.delimiter() == Delimiter::Parenthesis {
                            // `fn name(` is a definition, not a call
                            let is_def = i > 0 && matches!(&v[i - 1], TokenTree::Ident(f) if f == "fn");
                            if !is_def {
                                return Some(id.to_string());
                            }
                        }
                    }
                }
            }
            TokenTree::Group(g) => {
                if let Some(n) = tokens_call_prop(g.stream(), prop) {
                    return Some(n);
                }
            }
            _ => {}
        }
    }
    None
}

/// does a token stream mention a propagating name at all (call, path, method reference)?  `fn name` excluded
fn tokens_mention_prop(ts: TokenStream, prop: &BTreeSet<String>) -> Option<String> {
    let v: Vec<TokenTree> = ts.into_iter().collect();
    for i in 0..v.len() {
        match &v[i] {
            TokenTree::Ident(id) if prop.contains(&id.to_string()) => {
                let is_def = i > 0 && matches!(&v[i - 1], TokenTree::Ident(f) if f == "fn");
                if !is_def {
                    return Some(id.to_string());
                }
            }
            TokenTree::Group(g) => {
                if let Some(n) = tokens_mention_prop(g.stream(), prop) {
                    return Some(n);
                }
            }
            _ => {}
        }
    }
    None
}

/// independent count of propagating call tokens `name (` (not preceded by `fn`) in a token stream
fn census(ts: TokenStream, prop: &BTreeSet<String>) -> usize {
    let v: Vec<TokenTree> = ts.into_iter().collect();
    let mut n = 0;
    for i in 0..v.len() {
        match &v[i] {
            TokenTree::Ident(id) if prop.contains(&id.to_string()) => {
                let mut j = i + 1;
                // turbofish: name::<T>(..)
                if let (Some(TokenTree::Punct(a)), Some(TokenTree::Punct(b))) = (v.get(j), v.get(j + 1)) {
                    if a.as_char() == ':' && b.as_char() == ':' {
                        j += 2;
                        let mut depth = 0i32;
                        while let Some(t) = v.get(j) {
                            if let TokenTree::Punct(p) = t {
                                if p.as_char() == '<' {
                                    depth += 1;
                                } else if p.as_char() == '>' {
                                    depth -= 1;
                                    if depth == 0 {
                                        j += 1;
                                        break;
                                    }
                                }
                            }
                            j += 1;
                        }
                    }
                }
                if let Some(TokenTree::Group(g)) = v.get(j) {
                    let is_def = i > 0 && matches!(&v[i - 1], TokenTree::Ident(f) if f == "fn");
                    if g.delimiter() == Delimiter::Parenthesis && !is_def {
                        n += 1;
                    }
                }
            }
            TokenTree::Group(g) => n += census(g.stream(), prop),
            _ => {}
        }
    }
    n
}

fn nested_fn_census(block: &Block, prop: &BTreeSet<String>) -> usize {
    struct V<'a> {
        prop: &'a BTreeSet<String>,
        n: usize,
    }
    impl<'ast, 'a> syn::visit::Visit<'ast> for V<'a> {
        fn visit_item_fn(&mut self, f: &'ast ItemFn) {
            // not descending: the whole nested fn (with fns nested in it) is counted once
            self.n += census(quote::ToTokens::to_token_stream(&f.block), self.prop);
        }
    }
    let mut v = V { prop, n: 0 };
    syn::visit::visit_block(&mut v, block);
    v.n
}

fn sk_sites(s: &Sk) -> (usize, usize) {
    match s {
        Sk::Call(..) => (1, 0),
        Sk::Other(_) => (0, 1),
        Sk::Seq(a, b) | Sk::Branch(a, b) => {
            let (x, y) = sk_sites(a);
            let (z, w) = sk_sites(b);
            (x + z, y + w)
        }
        Sk::Loop(b) => sk_sites(b),
        _ => (0, 0),
    }
}

impl<'a> Ctx<'a> {
    /// name of the propagating call `e` is, if it is one
    fn prop_call(&self, e: &Expr) -> Option<String> {
        match strip(e) {
            Expr::MethodCall(m) => {
                let n = m.method.to_string();
                if self.prop.contains(&n) {
                    Some(n)
                } else {
                    None
                }
            }
            Expr::Call(c) => match path_last(&c.func) {
                Some(n) if self.prop.contains(&n) => Some(n),
                _ => None,
            },
            _ => None,
        }
    }

    fn contains_prop_call(&self, e: &Expr) -> bool {
        struct V<'b> {
            prop: &'b BTreeSet<String>,
            hit: bool,
        }
        impl<'ast, 'b> syn::visit::Visit<'ast> for V<'b> {
            fn visit_expr_method_call(&mut self, m: &'ast ExprMethodCall) {
                if self.prop.contains(&m.method.to_string()) {
                    self.hit = true;
                }
                syn::visit::visit_expr_method_call(self, m);
            }
            fn visit_expr_call(&mut self, c: &'ast ExprCall) {
                if let Some(n) = path_last(&c.func) {
                    if self.prop.contains(&n) {
                        self.hit = true;
                    }
                }
                syn::visit::visit_expr_call(self, c);
            }
            fn visit_expr_try(&mut self, t: &'ast ExprTry) {
                // a `?` inside a closure returns from the closure, not from the function
                self.hit = true;
                syn::visit::visit_expr_try(self, t);
            }
            fn visit_macro(&mut self, m: &'ast Macro) {
                if tokens_call_prop(m.tokens.clone(), self.prop).is_some() {
                    self.hit = true;
                }
            }
        }
        let mut v = V { prop: self.prop, hit: false };
        syn::visit::visit_expr(&mut v, e);
        v.hit
    }

    fn other<T: Spanned>(&self, at: &T, why: &str) -> Sk {
        Sk::Other(format!("line {}: {}", line_of(at), why))
    }

    /// receiver and arguments of a call are evaluated before the call itself
    fn call(&self, e: &Expr, name: String, u: Use) -> Sk {
        let pre = match strip(e) {
            Expr::MethodCall(m) => seq(self.expr(&m.receiver, Use::Value), seqs(m.args.iter().map(|a| self.expr(a, Use::Value)))),
            Expr::Call(c) => seqs(c.args.iter().map(|a| self.expr(a, Use::Value))),
            _ => unreachable!(),
        };
        let line = match strip(e) {
            Expr::MethodCall(m) => line_of(&m.method),
            other => line_of(other),
        };
        {
            let sp = strip(e).span();
            self.sites.borrow_mut().push((
                self.file.clone(),
                name.clone(),
                format!("{:?}", u),
                sp.start().line,
                sp.start().column,
                sp.end().line,
                sp.end().column,
            ));
        }
        let this = match u {
            Use::Try if !self.errflow => seq(
                Sk::Call(name.clone(), line, Disp::Discarded),
                self.other(e, &format!("`{}(..)?` in a function that does not return Result<_, X::Error>: the error is converted or dropped", name)),
            ),
            Use::Try => Sk::Call(name, line, Disp::Propagated),
            Use::Result => seq(Sk::Call(name, line, Disp::Propagated), Sk::Ret),
            Use::Discard => Sk::Call(name, line, Disp::Discarded),
            Use::Bind => Sk::Call(name, line, Disp::Deferred),
            Use::Value => self.other(e, &format!("the Result of `{}` is used as a value", name)),
        };
        seq(pre, this)
    }

    fn block(&self, b: &Block, u: Use) -> Sk {
        let n = b.stmts.len();
        let mut out = Vec::new();
        for (i, s) in b.stmts.iter().enumerate() {
            let last = i + 1 == n;
            match s {
                Stmt::Local(l) => {
                    if let Some(init) = &l.init {
                        let lu = match &l.pat {
                            Pat::Wild(_) => Use::Discard,
                            Pat::Ident(_) => Use::Bind,
                            Pat::Type(t) => match &*t.pat {
                                Pat::Wild(_) => Use::Discard,
                                Pat::Ident(_) => Use::Bind,
                                _ => Use::Value,
                            },
                            _ => Use::Value,
                        };
                        out.push(self.expr(&init.expr, lu));
                        if let Some((_, d)) = &init.diverge {
                            out.push(branch(self.expr(d, Use::Discard), Sk::Skip));
                        }
                    }
                }
                Stmt::Item(Item::Fn(_)) | Stmt::Item(Item::Use(_)) | Stmt::Item(Item::Const(_)) | Stmt::Item(Item::Struct(_))
                | Stmt::Item(Item::Enum(_)) | Stmt::Item(Item::Type(_)) | Stmt::Item(Item::Static(_)) => {}
                Stmt::Item(it) => out.push(self.other(it, "item inside a function body")),
                Stmt::Expr(e, semi) => {
                    let eu = if semi.is_some() || !last { Use::Discard } else { u };
                    out.push(self.expr(e, eu));
                }
                Stmt::Macro(m) => out.push(self.mac(&m.mac)),
            }
        }
        // a block that ends without a tail expression but is the function result falls off with `()`:
        // only possible after a diverging statement; nothing to add.
        seqs(out)
    }

    fn mac(&self, m: &Macro) -> Sk {
        match tokens_mention_prop(m.tokens.clone(), self.prop) {
            Some(n) => self.other(m, &format!("propagating name `{}` inside a macro invocation", n)),
            None => Sk::Skip,
        }
    }

    /// an expression whose value is the function result / the operand of `?`, and which is not a propagating call
    fn result_like(&self, e: &Expr, u: Use) -> Option<Sk> {
        match strip(e) {
            Expr::Call(c) if path_last(&c.func).as_deref() == Some("Ok") => {
                let pre = seqs(c.args.iter().map(|a| self.expr(a, Use::Value)));
                Some(if u == Use::Result { seq(pre, Sk::Ret) } else { pre })
            }
            // a variable: whatever was bound to it has been classified where it was bound
            Expr::Path(_) => Some(self.expr(strip(e), u)),
            // diverging macros (unreachable!, panic!, todo!, unimplemented!): panics are outside C04
            Expr::Macro(m) => {
                let n = m.mac.path.segments.last().map(|s| s.ident.to_string()).unwrap_or_default();
                if ["unreachable", "panic", "todo", "unimplemented"].contains(&n.as_str()) {
                    Some(self.mac(&m.mac))
                } else {
                    None
                }
            }
            _ => None,
        }
    }

    fn expr(&self, e: &Expr, u: Use) -> Sk {
        if let Some(name) = self.prop_call(e) {
            return self.call(e, name, u);
        }
        match e {
            Expr::Paren(p) => self.expr(&p.expr, u),
            Expr::Group(g) => self.expr(&g.expr, u),
            Expr::Try(t) => {
                let inner = strip(&t.expr);
                if self.prop_call(inner).is_some() || matches!(inner, Expr::Block(_) | Expr::If(_) | Expr::Match(_)) {
                    self.expr(inner, Use::Try)
                } else if let Some(s) = self.result_like(inner, Use::Try) {
                    s
                } else {
                    seq(self.expr(inner, Use::Value), self.other(e, "`?` applied to something that is not a propagating call"))
                }
            }
            Expr::Return(r) => match &r.expr {
                None => Sk::Ret,
                Some(x) => self.expr(x, Use::Result), // every Use::Result leaf ends in Ret
            },
            Expr::Block(b) => {
                if b.label.is_some() {
                    return self.other(e, "labelled block");
                }
                self.block(&b.block, u)
            }
            Expr::Unsafe(b) => self.block(&b.block, u),
            Expr::If(i) => {
                let c = self.expr(&i.cond, Use::Value);
                let t = self.block(&i.then_branch, u);
                let f = match &i.else_branch {
                    Some((_, x)) => self.expr(x, u),
                    None => Sk::Skip,
                };
                seq(c, branch(t, f))
            }
            Expr::Let(l) => self.expr(&l.expr, Use::Value),
            Expr::Match(m) => {
                let s = self.expr(&m.expr, Use::Value);
                let mut acc = Sk::Skip;
                let mut first = true;
                for arm in m.arms.iter().rev() {
                    let g = match &arm.guard {
                        Some((_, g)) => self.expr(g, Use::Value),
                        None => Sk::Skip,
                    };
                    let a = seq(g, self.expr(&arm.body, u));
                    acc = if first { a } else { branch(a, acc) };
                    first = false;
                }
                seq(s, acc)
            }
            Expr::ForLoop(f) => {
                if f.label.is_some() {
                    return self.other(e, "labelled loop");
                }
                seq(self.expr(&f.expr, Use::Value), lp(self.block(&f.body, Use::Discard)))
            }
            Expr::While(w) => {
                if w.label.is_some() {
                    return self.other(e, "labelled loop");
                }
                // the condition runs once more than the body: only conditions without calls are representable
                let c = self.expr(&w.cond, Use::Value);
                if c != Sk::Skip {
                    return seq(c, self.other(e, "while condition with propagating calls"));
                }
                lp(self.block(&w.body, Use::Discard))
            }
            Expr::Loop(l) => seq(lp(self.block(&l.body, Use::Discard)), self.other(e, "`loop` (needs break)")),
            Expr::Break(_) => self.other(e, "break"),
            Expr::Continue(_) => self.other(e, "continue"),
            Expr::Closure(c) => {
                if self.contains_prop_call(&c.body) {
                    self.other(e, "propagating call or `?` inside a closure")
                } else {
                    Sk::Skip
                }
            }
            Expr::Macro(m) => {
                if u == Use::Result {
                    if let Some(s) = self.result_like(e, u) {
                        return s;
                    }
                }
                self.mac(&m.mac)
            }
            Expr::MethodCall(m) => {
                // not itself a propagating call; is its receiver one?
                if let Some(name) = self.prop_call(&m.receiver) {
                    let meth = m.method.to_string();
                    let args = seqs(m.args.iter().map(|a| self.expr(a, Use::Value)));
                    let swallow = ["ok", "unwrap_or", "unwrap_or_default", "unwrap_or_else", "is_ok", "is_err"];
                    if swallow.contains(&meth.as_str()) {
                        return seq(self.call(&m.receiver, name, Use::Discard), args);
                    }
                    return seq(
                        seq(self.call(&m.receiver, name.clone(), Use::Discard), args),
                        self.other(e, &format!("the Result of `{}` is consumed by `.{}(..)`", name, meth)),
                    );
                }
                let s = seq(self.expr(&m.receiver, Use::Value), seqs(m.args.iter().map(|a| self.expr(a, Use::Value))));
                self.finish_unknown(e, s, u)
            }
            Expr::Call(c) => {
                match path_last(&c.func).as_deref() {
                    Some("Ok") => {
                        if let Some(s) = self.result_like(e, u) {
                            return s;
                        }
                    }
                    Some("Err") => return self.other(e, "hand made `Err(..)`"),
                    _ => {}
                }
                let s = seq(self.expr(&c.func, Use::Value), seqs(c.args.iter().map(|a| self.expr(a, Use::Value))));
                self.finish_unknown(e, s, u)
            }
            Expr::Path(p) => {
                // outside call position (prop_call above handles `name(..)`): a function pointer / method reference
                if self.prop.contains(&p.path.segments.last().unwrap().ident.to_string()) {
                    return self.other(e, "propagating function used as a value (function pointer)");
                }
                if u == Use::Result {
                    Sk::Ret
                } else {
                    Sk::Skip
                }
            }
            Expr::Lit(_) => self.finish_unknown(e, Sk::Skip, u),
            Expr::Assign(a) => {
                let r = if self.prop_call(&a.right).is_some() { self.expr(&a.right, Use::Bind) } else { self.expr(&a.right, Use::Value) };
                seq(self.expr(&a.left, Use::Value), r)
            }
            Expr::Binary(b) => seq(self.expr(&b.left, Use::Value), self.short_circuit(&b.op, self.expr(&b.right, Use::Value))),
            Expr::Unary(x) => self.expr(&x.expr, Use::Value),
            Expr::Reference(x) => self.expr(&x.expr, Use::Value),
            Expr::Cast(x) => self.expr(&x.expr, Use::Value),
            Expr::Field(x) => {
                if let Member::Named(id) = &x.member {
                    if self.prop.contains(&id.to_string()) {
                        return seq(self.expr(&x.base, Use::Value), self.other(e, "field with a propagating name used as a value"));
                    }
                }
                self.expr(&x.base, Use::Value)
            }
            Expr::Index(x) => seq(self.expr(&x.expr, Use::Value), self.expr(&x.index, Use::Value)),
            Expr::Tuple(t) => seqs(t.elems.iter().map(|a| self.expr(a, Use::Value))),
            Expr::Array(t) => seqs(t.elems.iter().map(|a| self.expr(a, Use::Value))),
            Expr::Repeat(r) => seq(self.expr(&r.expr, Use::Value), self.expr(&r.len, Use::Value)),
            Expr::Range(r) => seq(
                r.start.as_ref().map(|x| self.expr(x, Use::Value)).unwrap_or(Sk::Skip),
                r.end.as_ref().map(|x| self.expr(x, Use::Value)).unwrap_or(Sk::Skip),
            ),
            Expr::Struct(s) => seq(
                seqs(s.fields.iter().map(|f| self.expr(&f.expr, Use::Value))),
                s.rest.as_ref().map(|x| self.expr(x, Use::Value)).unwrap_or(Sk::Skip),
            ),
            _ => self.other(e, "expression kind not understood by translate/errflow"),
        }
    }

    fn short_circuit(&self, op: &BinOp, rhs: Sk) -> Sk {
        match op {
            BinOp::And(_) | BinOp::Or(_) => branch(rhs, Sk::Skip),
            _ => rhs,
        }
    }

    /// `e` is an expression this translator has no special knowledge of (evaluation of its parts = `parts`).
    /// As the function result or under `?` it would be an unrecognised source of errors.
    fn finish_unknown(&self, e: &Expr, parts: Sk, u: Use) -> Sk {
        match u {
            Use::Result => seq(seq(parts, self.other(e, "function result is neither a propagating call, Ok(..), nor a variable")), Sk::Ret),
            _ => parts,
        }
    }
}

// ------------------------------------------------------------------------------------------------ collection
struct Collected {
    /// (file, place, signature, body)
    fns: Vec<(String, String, Signature, Option<Block>)>,
    /// item-level macros: (file, line, tokens)
    macros: Vec<(String, usize, TokenStream)>,
    /// `impl DrawTarget for X`: (place, `type Error` as written, the type named before `::Error` is a type
    /// parameter of the impl bounded by DrawTarget)
    error_types: Vec<(String, String, bool)>,
    /// token streams of all non-test items per file, for the whole-tree census
    item_tokens: Vec<(String, TokenStream)>,
}

fn type_str(t: &Type) -> String {
    let s = t.to_token_stream_string();
    s.replace(" :: ", "::").replace(" < ", "<").replace(" >", ">").replace("< ", "<").replace(" ,", ",").replace("& '", "&'")
}

/// fn items nested inside a function body are functions of their own
fn collect_nested(file: &str, block: &Block, out: &mut Collected) {
    struct V<'a> {
        file: &'a str,
        found: Vec<ItemFn>,
    }
    impl<'ast, 'a> syn::visit::Visit<'ast> for V<'a> {
        fn visit_item_fn(&mut self, f: &'ast ItemFn) {
            self.found.push(f.clone());
            syn::visit::visit_item_fn(self, f);
        }
    }
    let mut v = V { file, found: Vec::new() };
    syn::visit::visit_block(&mut v, block);
    let _ = v.file;
    for f in v.found {
        out.fns.push((file.to_string(), format!("{}:{} nested fn", file, line_of(&f.sig.ident)), f.sig.clone(), Some((*f.block).clone())));
    }
}

fn collect_items(file: &str, items: &[Item], out: &mut Collected) {
    for it in items {
        match it {
            Item::Fn(f) => {
                if is_cfg_test(&f.attrs) {
                    continue;
                }
                out.item_tokens.push((file.to_string(), quote::ToTokens::to_token_stream(&f.block)));
                out.fns.push((file.to_string(), format!("{}:{} fn", file, line_of(&f.sig.ident)), f.sig.clone(), Some((*f.block).clone())));
                collect_nested(file, &f.block, out);
            }
            Item::Impl(im) => {
                if is_cfg_test(&im.attrs) {
                    continue;
                }
                let tr = im.trait_.as_ref().map(|(_, p, _)| p.to_token_stream_string());
                if let Some(t) = &tr {
                    if t.starts_with("TryFrom") || t.starts_with("core :: convert :: TryFrom") {
                        continue; // Self::Error there is a conversion error, not a draw target error
                    }
                }
                let head = match &tr {
                    Some(t) => format!("impl {} for {}", t.replace(' ', ""), type_str(&im.self_ty)),
                    None => format!("impl {}", type_str(&im.self_ty)),
                };
                if tr.as_deref().map(|t| t.replace(' ', "")).map(|t| t == "DrawTarget" || t.ends_with("::DrawTarget")).unwrap_or(false) {
                    let mut found = false;
                    for ii in &im.items {
                        if let ImplItem::Type(t) = ii {
                            if t.ident == "Error" {
                                found = true;
                                let ty = type_str(&t.ty).replace(' ', "");
                                // `P::Error` with P a type parameter of this impl that is bounded by DrawTarget
                                let par = ty.strip_suffix("::Error").map(|p| p.to_string());
                                let bounded = match &par {
                                    Some(pn) => {
                                        let in_params = im.generics.type_params().any(|tp| {
                                            tp.ident == pn.as_str() && tp.bounds.iter().any(|b| b.to_token_stream_string().contains("DrawTarget"))
                                        });
                                        let in_where = im.generics.where_clause.as_ref().map(|w| {
                                            w.predicates.iter().any(|pr| match pr {
                                                WherePredicate::Type(pt) => {
                                                    type_str(&pt.bounded_ty).replace(' ', "") == *pn
                                                        && pt.bounds.iter().any(|b| b.to_token_stream_string().contains("DrawTarget"))
                                                }
                                                _ => false,
                                            })
                                        }).unwrap_or(false);
                                        let is_param = im.generics.type_params().any(|tp| tp.ident == pn.as_str());
                                        is_param && (in_params || in_where)
                                    }
                                    None => false,
                                };
                                out.error_types.push((format!("{}:{} {}", file, line_of(&t.ident), head), ty, bounded));
                            }
                        }
                    }
                    if !found {
                        out.error_types.push((format!("{}:{} {}", file, line_of(&im.self_ty), head), "<missing>".to_string(), false));
                    }
                }
                for ii in &im.items {
                    match ii {
                        ImplItem::Fn(f) => {
                            if is_cfg_test(&f.attrs) {
                                continue;
                            }
                            out.item_tokens.push((file.to_string(), quote::ToTokens::to_token_stream(&f.block)));
                            out.fns.push((file.to_string(), format!("{}:{} {}", file, line_of(&f.sig.ident), head), f.sig.clone(), Some(f.block.clone())));
                            collect_nested(file, &f.block, out);
                        }
                        ImplItem::Macro(m) => {
                            out.item_tokens.push((file.to_string(), m.mac.tokens.clone()));
                            out.macros.push((file.to_string(), line_of(m), m.mac.tokens.clone()))
                        }
                        ImplItem::Const(c) => out.item_tokens.push((file.to_string(), quote::ToTokens::to_token_stream(c))),
                        _ => {}
                    }
                }
            }
            Item::Trait(t) => {
                if is_cfg_test(&t.attrs) {
                    continue;
                }
                for ti in &t.items {
                    match ti {
                        TraitItem::Fn(f) => {
                            if let Some(b) = &f.default {
                                out.item_tokens.push((file.to_string(), quote::ToTokens::to_token_stream(b)));
                            }
                            out.fns.push((
                                file.to_string(),
                                format!("{}:{} trait {} (provided method)", file, line_of(&f.sig.ident), t.ident),
                                f.sig.clone(),
                                f.default.clone(),
                            ));
                            if let Some(b) = &f.default {
                                collect_nested(file, b, out);
                            }
                        }
                        TraitItem::Macro(m) => {
                            out.item_tokens.push((file.to_string(), m.mac.tokens.clone()));
                            out.macros.push((file.to_string(), line_of(m), m.mac.tokens.clone()))
                        }
                        _ => {}
                    }
                }
            }
            Item::Mod(m) => {
                if is_cfg_test(&m.attrs) {
                    continue;
                }
                if let Some((_, items)) = &m.content {
                    collect_items(file, items, out);
                }
            }
            Item::Macro(m) => {
                out.item_tokens.push((file.to_string(), m.mac.tokens.clone()));
                out.macros.push((file.to_string(), line_of(m), m.mac.tokens.clone()))
            }
            Item::Const(_) | Item::Static(_) => out.item_tokens.push((file.to_string(), quote::ToTokens::to_token_stream(it))),
            _ => {}
        }
    }
}

fn walk(dir: &Path, out: &mut Vec<PathBuf>) {
    let mut es: Vec<_> = std::fs::read_dir(dir).unwrap_or_else(|e| die(&format!("cannot read {}: {}", dir.display(), e))).map(|e| e.unwrap().path()).collect();
    es.sort();
    for p in es {
        if p.is_dir() {
            walk(&p, out);
        } else if p.extension().map(|x| x == "rs").unwrap_or(false) {
            out.push(p);
        }
    }
}

fn die(msg: &str) -> ! {
    eprintln!("errflow: {}", msg);
    std::process::exit(2)
}

fn coq_str(s: &str) -> String {
    let mut o = String::from("\"");
    for c in s.chars() {
        match c {
            '"' => o.push_str("\"\""),
            c if c.is_ascii() && !c.is_ascii_control() => o.push(c),
            _ => o.push('?'),
        }
    }
    o.push('"');
    o
}

fn emit(s: &Sk, ind: usize, o: &mut String) {
    let pad = " ".repeat(ind);
    match s {
        Sk::Skip => write!(o, "{}Skip", pad).unwrap(),
        Sk::Ret => write!(o, "{}Ret", pad).unwrap(),
        Sk::Other(w) => write!(o, "{}(Other {})", pad, coq_str(w)).unwrap(),
        Sk::Call(n, l, d) => write!(o, "{}(Call {} {} {:?})", pad, coq_str(n), l, d).unwrap(),
        Sk::Seq(a, b) => {
            writeln!(o, "{}(Seq", pad).unwrap();
            emit(a, ind + 1, o);
            o.push('\n');
            emit(b, ind + 1, o);
            o.push(')');
        }
        Sk::Branch(a, b) => {
            writeln!(o, "{}(Branch", pad).unwrap();
            emit(a, ind + 1, o);
            o.push('\n');
            emit(b, ind + 1, o);
            o.push(')');
        }
        Sk::Loop(b) => {
            writeln!(o, "{}(Loop", pad).unwrap();
            emit(b, ind + 1, o);
            o.push(')');
        }
    }
}

fn count(s: &Sk, calls: &mut usize, bad: &mut Vec<String>, f: &FnInfo) {
    match s {
        Sk::Call(n, l, d) => {
            *calls += 1;
            if *d != Disp::Propagated {
                bad.push(format!("{} [{}]: call `{}` at line {} is {:?}", f.name, f.place, n, l, d));
            }
        }
        Sk::Other(w) => bad.push(format!("{} [{}]: Other: {}", f.name, f.place, w)),
        Sk::Seq(a, b) | Sk::Branch(a, b) => {
            count(a, calls, bad, f);
            count(b, calls, bad, f);
        }
        Sk::Loop(b) => count(b, calls, bad, f),
        _ => {}
    }
}

fn main() {
    let a: Vec<String> = std::env::args().collect();
    if a.len() != 3 && !(a.len() == 5 && a[3] == "--sites") {
        die("usage: errflow <repo root> <output .v> [--sites <output .tsv>]");
    }
    let root = PathBuf::from(&a[1]);
    let mut files = Vec::new();
    walk(&root.join("src"), &mut files);
    walk(&root.join("core/src"), &mut files);
    let mut col = Collected { fns: Vec::new(), macros: Vec::new(), error_types: Vec::new(), item_tokens: Vec::new() };
    for p in &files {
        let rel = p.strip_prefix(&root).unwrap().to_string_lossy().to_string();
        let src = std::fs::read_to_string(p).unwrap_or_else(|e| die(&format!("cannot read {}: {}", rel, e)));
        let ast = syn::parse_file(&src).unwrap_or_else(|e| die(&format!("cannot parse {}: {} (line {})", rel, e, e.span().start().line)));
        collect_items(&rel, &ast.items, &mut col);
    }
    // PROP: names of all error-flow functions (with or without body)
    let prop: BTreeSet<String> = col.fns.iter().filter(|f| is_errflow_sig(&f.2)).map(|f| f.2.ident.to_string()).collect();
    if prop.is_empty() {
        die("no function returning Result<_, X::Error> found");
    }
    for must in ["draw", "draw_iter", "fill_solid", "fill_contiguous", "clear", "draw_styled", "draw_string", "draw_sub_image"] {
        if !prop.contains(must) {
            die(&format!("expected error-flow function name `{}` not found: the source no longer has the expected shape", must));
        }
    }
    // macro bodies are not parsed: they must not call a propagating function
    for (file, line, ts) in &col.macros {
        if let Some(n) = tokens_call_prop(ts.clone(), &prop) {
            die(&format!("{}:{}: macro body calls `{}(..)`; code inside item-level macros is not translated", file, line, n));
        }
    }
    let mut ctx = Ctx { prop: &prop, errflow: true, file: String::new(), sites: std::cell::RefCell::new(Vec::new()) };
    let mut infos = Vec::new();
    for (file, place, sig, body) in &col.fns {
        // a function that is not itself an error-flow function must not make propagating calls that it
        // could swallow ... it cannot return the error, so any such call is reported as a function of its own
        let ef = is_errflow_sig(sig);
        let body = match body {
            Some(b) => b,
            None => continue,
        };
        // completeness self-check, independent of the AST walk: every `name(` token with a propagating name in
        // the body (nested fn items excluded, they are functions of their own) must have become a Call site
        let expect = census(quote::ToTokens::to_token_stream(body), &prop) - nested_fn_census(body, &prop);
        let checked = |sk: Sk| -> Sk {
            let (calls, others) = sk_sites(&sk);
            if others == 0 && calls != expect {
                seq(sk, Sk::Other(format!("token census: {} propagating call tokens in the body but {} call sites translated", expect, calls)))
            } else {
                sk
            }
        };
        ctx.errflow = ef;
        ctx.file = file.clone();
        if ef {
            let sk = checked(ctx.block(body, Use::Result));
            infos.push(FnInfo { name: sig.ident.to_string(), place: place.clone(), body: sk });
        } else {
            // non error-flow function: every propagating call in it necessarily loses the error
            let fake = Expr::Block(ExprBlock { attrs: vec![], label: None, block: body.clone() });
            if ctx.contains_prop_call_no_try(&fake) || expect != 0 || tokens_mention_prop(quote::ToTokens::to_token_stream(body), &prop).is_some() {
                let sk = checked(ctx.block(body, Use::Discard));
                infos.push(FnInfo { name: sig.ident.to_string(), place: format!("{} (does not return a target error)", place), body: sk });
            }
        }
        let _ = file;
    }
    for anchor in ANCHORS {
        if !root.join(anchor).exists() {
            die(&format!("anchored file {} is missing", anchor));
        }
        if !col.fns.iter().any(|f| f.0 == *anchor && is_errflow_sig(&f.2)) {
            die(&format!("anchored file {} no longer contains a function returning Result<_, X::Error>", anchor));
        }
    }
    // output
    let mut o = String::new();
    o.push_str("(* GENERATED by translate/errflow (run.sh) from the source tree; do not edit, not committed.\n");
    o.push_str("   One entry per function returning Result<_, X::Error>; language and semantics: Model/Errlang.v *)\n");
    o.push_str("From Coq Require Import String List.\nFrom EG Require Import Model.Errlang.\nImport ListNotations.\nOpen Scope string_scope.\n\n");
    write!(o, "Definition prop_names : list string :=\n  [{}].\n\n", prop.iter().map(|s| coq_str(s)).collect::<Vec<_>>().join("; ")).unwrap();
    o.push_str("Definition functions : list fndef := [\n");
    let mut calls = 0usize;
    let mut bad = Vec::new();
    for (i, f) in infos.iter().enumerate() {
        count(&f.body, &mut calls, &mut bad, f);
        writeln!(o, " {{| fname := {}; fwhere := {};\n    fbody :=", coq_str(&f.name), coq_str(&f.place)).unwrap();
        emit(&f.body, 6, &mut o);
        write!(o, " |}}{}\n", if i + 1 == infos.len() { "" } else { ";" }).unwrap();
    }
    o.push_str("].\n\n");
    // whole-tree census, independent of the per-function AST walk: `name(` tokens with a propagating name in every
    // non-test fn body / const / item-level macro of a file (cfg(test) items and `fn name(` definitions excluded)
    o.push_str("(* file, number of propagating call tokens in its non-test code *)\nDefinition site_census : list (string * nat) := [\n");
    let mut per_file: std::collections::BTreeMap<String, usize> = std::collections::BTreeMap::new();
    for (file, ts) in &col.item_tokens {
        *per_file.entry(file.clone()).or_insert(0) += census(ts.clone(), &prop);
    }
    let rows: Vec<String> = per_file.iter().filter(|(_, n)| **n > 0).map(|(f, n)| format!("  ({}, {})", coq_str(f), n)).collect();
    o.push_str(&rows.join(";\n"));
    o.push_str("\n].\n\n");
    o.push_str("(* every `impl DrawTarget for ..`: place, `type Error` as written, is it `P::Error` for a type parameter P: DrawTarget of the impl *)\n");
    o.push_str("Definition target_error_types : list (string * string * bool) := [\n");
    let rows: Vec<String> = col.error_types.iter().map(|(p, t, b)| format!("  ({}, {}, {})", coq_str(p), coq_str(t), b)).collect();
    o.push_str(&rows.join(";\n"));
    o.push_str("\n].\n");
    let old = std::fs::read_to_string(&a[2]).unwrap_or_default();
    if old != o {
        if let Some(d) = Path::new(&a[2]).parent() {
            std::fs::create_dir_all(d).ok();
        }
        std::fs::write(&a[2], &o).unwrap_or_else(|e| die(&format!("cannot write {}: {}", a[2], e)));
    }
    if a.len() == 5 {
        let mut t = String::new();
        for (f, n, u, l0, c0, l1, c1) in ctx.sites.borrow().iter() {
            writeln!(t, "{}\t{}\t{}\t{}\t{}\t{}\t{}", f, n, u, l0, c0, l1, c1).unwrap();
        }
        std::fs::write(&a[4], t).unwrap_or_else(|e| die(&format!("cannot write {}: {}", a[4], e)));
    }
    eprintln!("errflow: {} files, {} functions, {} call sites, {} names, {} not propagated / not understood", files.len(), infos.len(), calls, prop.len(), bad.len());
    for b in &bad {
        eprintln!("errflow: NOT-PROPAGATED {}", b);
    }
}

impl<'a> Ctx<'a> {
    /// like contains_prop_call but a bare `?` does not count (functions returning Option/other Results use it)
    fn contains_prop_call_no_try(&self, e: &Expr) -> bool {
        struct V<'b> {
            prop: &'b BTreeSet<String>,
            hit: bool,
        }
        impl<'ast, 'b> syn::visit::Visit<'ast> for V<'b> {
            fn visit_expr_method_call(&mut self, m: &'ast ExprMethodCall) {
                if self.prop.contains(&m.method.to_string()) {
                    self.hit = true;
                }
                syn::visit::visit_expr_method_call(self, m);
            }
            fn visit_expr_call(&mut self, c: &'ast ExprCall) {
                if let Some(n) = path_last(&c.func) {
                    if self.prop.contains(&n) {
                        self.hit = true;
                    }
                }
                syn::visit::visit_expr_call(self, c);
            }
            fn visit_macro(&mut self, m: &'ast Macro) {
                if tokens_call_prop(m.tokens.clone(), self.prop).is_some() {
                    self.hit = true;
                }
            }
        }
        let mut v = V { prop: self.prop, hit: false };
        syn::visit::visit_expr(&mut v, e);
        v.hit
    }
}
