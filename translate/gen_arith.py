#!/usr/bin/env python3
"""gen_arith.py - writes coq/Gen/ArithSites.v from the tree under test (EG_REPO, default /repo).

For every non-test function of the files listed in FILES the ordered, identifier-free skeleton of its
"panic sites": arithmetic operators (+ - * / % << >> and their compound assignments, unary minus),
arithmetic methods (pow abs unsigned_abs abs_diff saturating_* checked_* wrapping_* overflowing_*
div_euclid rem_euclid saturating_as ...), `as <type>` casts, integer / float literals, slice
indexing, unwrap / expect and the panicking macros.  Variable names, formatting and comments do not
appear in a skeleton; any added, removed or changed operation does.

Also asserts `#![no_std]` in both lib.rs and the absence of alloc/std paths outside test code
(supporting evidence for "no heap allocation"; C08 LEVEL_NOTE).

Fails closed: exits non-zero when a file is missing or its shape is not understood.
   gen_arith.py            regenerate coq/Gen/ArithSites.v (write-if-changed)
   gen_arith.py --dump     print `file:line  fn  skeleton` for every function with a non-empty skeleton
"""
import os, re, sys

REPO = os.environ.get('EG_REPO', '/repo')
HERE = os.path.dirname(os.path.abspath(__file__))
OUT = os.path.join(HERE, '..', 'coq', 'Gen', 'ArithSites.v')

FILES = [
    'core/src/geometry/point.rs',
    'core/src/geometry/size.rs',
    'core/src/primitives/rectangle/mod.rs',
    'core/src/primitives/rectangle/points.rs',
    'core/src/pixelcolor/raw/load_store.rs',
    'src/geometry/mod.rs',
    'src/geometry/angle.rs',
    'src/geometry/real.rs',
    'src/primitives/primitive_style.rs',
    'src/primitives/rectangle/mod.rs',
    'src/primitives/rectangle/styled.rs',
    'src/primitives/circle/mod.rs',
    'src/primitives/circle/points.rs',
    'src/primitives/circle/styled.rs',
    'src/primitives/ellipse/mod.rs',
    'src/primitives/ellipse/points.rs',
    'src/primitives/ellipse/styled.rs',
    'src/primitives/rounded_rectangle/mod.rs',
    'src/primitives/rounded_rectangle/points.rs',
    'src/primitives/rounded_rectangle/styled.rs',
    'src/primitives/rounded_rectangle/ellipse_quadrant.rs',
    'src/primitives/rounded_rectangle/corner_radii.rs',
    'src/primitives/arc/mod.rs',
    'src/primitives/arc/points.rs',
    'src/primitives/arc/styled.rs',
    'src/primitives/sector/mod.rs',
    'src/primitives/sector/points.rs',
    'src/primitives/sector/styled.rs',
    'src/primitives/line/mod.rs',
    'src/primitives/line/points.rs',
    'src/primitives/line/styled.rs',
    'src/primitives/line/bresenham.rs',
    'src/primitives/line/thick_points.rs',
    'src/primitives/line/intersection_params.rs',
    'src/primitives/polyline/mod.rs',
    'src/primitives/polyline/points.rs',
    'src/primitives/polyline/scanline_iterator.rs',
    'src/primitives/polyline/styled.rs',
    'src/primitives/common/mod.rs',
    'src/primitives/common/linear_equation.rs',
    'src/primitives/common/line_join.rs',
    'src/primitives/common/scanline.rs',
    'src/primitives/common/styled_scanline.rs',
    'src/primitives/common/distance_iterator.rs',
    'src/primitives/common/plane_sector.rs',
    'src/primitives/common/thick_segment.rs',
    'src/primitives/common/thick_segment_iter.rs',
    'src/primitives/common/closed_thick_segment_iter.rs',
    'src/primitives/triangle/mod.rs',
    'src/primitives/triangle/points.rs',
    'src/primitives/triangle/scanline_intersections.rs',
    'src/primitives/triangle/scanline_iterator.rs',
    'src/primitives/triangle/styled.rs',
    'src/primitives/styled.rs',
    'src/mono_font/mod.rs',
    'src/mono_font/mapping.rs',
    'src/mono_font/draw_target.rs',
    'src/mono_font/mono_text_style.rs',
    'src/text/mod.rs',
    'src/text/text.rs',
    'src/image/mod.rs',
    'src/image/sub_image.rs',
    'src/image/image_raw.rs',
    'src/iterator/contiguous.rs',
    'src/iterator/pixel.rs',
    'src/iterator/raw.rs',
    'src/iterator/mod.rs',
    'src/draw_target/mod.rs',
    'src/draw_target/clipped.rs',
    'src/draw_target/cropped.rs',
    'src/draw_target/translated.rs',
    'src/draw_target/color_converted.rs',
    'src/framebuffer.rs',
]

METHODS = {'pow', 'abs', 'unsigned_abs', 'abs_diff', 'div_euclid', 'rem_euclid', 'saturating_as', 'saturating_cast',
           'isqrt', 'neg', 'unwrap', 'expect', 'unwrap_unchecked', 'get_unchecked', 'get_unchecked_mut',
           'add', 'sub', 'mul', 'div', 'rem', 'shl', 'shr', 'sum', 'product', 'next_power_of_two',
           'wrapping_as', 'checked_as', 'try_into', 'try_from', 'split_at', 'split_at_mut', 'copy_from_slice',
           'step_by', 'chunks', 'chunks_exact', 'swap',
           # calls of the crate's own arithmetic helpers: a new call of one of them is a new site
           'length_squared', 'dot_product', 'determinant', 'rotate_90', 'component_mul', 'component_div', 'offset',
           'resized', 'resized_width', 'resized_height', 'to_absolute', 'sub_size', 'div_u32', 'nth', 'skip', 'take'}
PREFIXES = ('saturating_', 'checked_', 'wrapping_', 'overflowing_', 'unchecked_', 'strict_')
MACROS = {'panic', 'unreachable', 'unimplemented', 'todo', 'assert', 'assert_eq', 'assert_ne',
          'debug_assert', 'debug_assert_eq', 'debug_assert_ne'}
INTTYPES = {'i8', 'i16', 'i32', 'i64', 'i128', 'isize', 'u8', 'u16', 'u32', 'u64', 'u128', 'usize', 'f32', 'f64', 'Real'}
BINOPS = {'+': 'add', '-': 'sub', '*': 'mul', '/': 'div', '%': 'rem', '<<': 'shl', '>>': 'shr',
          '+=': 'add=', '-=': 'sub=', '*=': 'mul=', '/=': 'div=', '%=': 'rem=', '<<=': 'shl=', '>>=': 'shr='}
# after one of these a `-` / `*` is a prefix operator
PREFIX_CTX = {'(', '[', '{', ',', ';', '=', '==', '!=', '<', '>', '<=', '>=', '&&', '||', '!', '&', '|', '^',
              '+', '-', '*', '/', '%', '<<', '>>', '+=', '-=', '*=', '/=', '%=', '<<=', '>>=', '&=', '|=', '^=',
              '=>', '->', ':', '::', '..', '..=', '?', 'return', 'in', 'if', 'else', 'match', 'while', 'break',
              'let', 'mut', 'as', None}

TOKEN = re.compile(r'''
    (?P<ws>\s+)
  | (?P<lifetime>'[A-Za-z_][A-Za-z0-9_]*(?!'))
  | (?P<char>'(?:\\.[^']*|[^'\\])')
  | (?P<bstr>b?"(?:\\.|[^"\\])*")
  | (?P<rstr>b?r(?P<h>\#*)".*?"(?P=h))
  | (?P<float>\d[\d_]*\.\d[\d_]*(?:[eE][+-]?\d+)?(?:_?f32|_?f64)?|\d[\d_]*(?:[eE][+-]?\d+)(?:_?f32|_?f64)?|\d[\d_]*_?f(?:32|64))
  | (?P<int>0x[0-9a-fA-F_]+(?:[iu](?:8|16|32|64|128|size))?|0b[01_]+(?:[iu](?:8|16|32|64|128|size))?|0o[0-7_]+(?:[iu](?:8|16|32|64|128|size))?|\d[\d_]*(?:[iu](?:8|16|32|64|128|size))?)
  | (?P<ident>r\#[A-Za-z_][A-Za-z0-9_]*|\$?[A-Za-z_][A-Za-z0-9_]*)
  | (?P<op><<=|>>=|\.\.=|\.\.\.|::|->|=>|==|!=|<=|>=|&&|\|\||\+=|-=|\*=|/=|%=|\^=|&=|\|=|<<|>>|\.\.|[-+*/%^!&|=<>@.,;:\#$?~(){}\[\]])
''', re.X | re.S)


def die(msg):
    sys.stderr.write('gen_arith.py: ' + msg + '\n')
    sys.exit(1)


def strip_comments(src, path):
    """removes // and (nested) /* */ comments, keeps string / char literals intact"""
    out = []
    i, n = 0, len(src)
    while i < n:
        c = src[i]
        if src.startswith('//', i):
            j = src.find('\n', i)
            i = n if j < 0 else j
        elif src.startswith('/*', i):
            depth, i = 1, i + 2
            while depth and i < n:
                if src.startswith('/*', i):
                    depth += 1; i += 2
                elif src.startswith('*/', i):
                    depth -= 1; i += 2
                else:
                    if src[i] == '\n':
                        out.append('\n')
                    i += 1
            if depth:
                die('%s: unterminated block comment' % path)
        elif c == '"' or (c in 'br' and re.match(r'b?r?#*"', src[i:i + 8])):
            m = TOKEN.match(src, i)
            if not m or not (m.group('bstr') or m.group('rstr')):
                # an identifier starting with b / r
                out.append(c); i += 1
                continue
            out.append(m.group(0)); i = m.end()
        elif c == "'":
            m = TOKEN.match(src, i)
            if not m or not (m.group('char') or m.group('lifetime')):
                die('%s: cannot read quote at offset %d' % (path, i))
            out.append(m.group(0)); i = m.end()
        else:
            out.append(c); i += 1
    return ''.join(out)


def tokenize(src, path):
    toks = []  # (kind, text, line)
    i, n, line = 0, len(src), 1
    while i < n:
        m = TOKEN.match(src, i)
        if not m:
            die('%s:%d: cannot tokenise %r' % (path, line, src[i:i + 20]))
        kind = m.lastgroup
        if kind == 'h':
            kind = 'rstr'
        text = m.group(0)
        if kind != 'ws':
            toks.append((kind, text, line))
        line += text.count('\n')
        i = m.end()
    return toks


def match_close(toks, i):
    """toks[i] is an opening bracket; index of the matching closing one"""
    pairs = {'(': ')', '[': ']', '{': '}'}
    stack = []
    j = i
    while j < len(toks):
        t = toks[j][1]
        if toks[j][0] == 'op':
            if t in pairs:
                stack.append(pairs[t])
            elif t in (')', ']', '}'):
                if not stack or stack.pop() != t:
                    return -1
                if not stack:
                    return j
        j += 1
    return -1


def lit(text):
    t = text.replace('_', '')
    m = re.match(r'^(0x[0-9a-fA-F]+|0b[01]+|0o[0-7]+|\d+)((?:[iu](?:8|16|32|64|128|size))?)$', t)
    if not m:
        return 'lit?' + t
    return str(int(m.group(1), 0)) + m.group(2)


def skeleton(toks, path):
    """identifier-free skeleton of a token range (a function body)"""
    sk = []
    prev = None          # text of previous significant token
    prevkind = None
    n = len(toks)
    closers = set()      # indices of the `)` that close a widening conversion T::from( ... )
    for k in range(n):
        kind, t, line = toks[k]
        nxt = toks[k + 1][1] if k + 1 < n else None
        if k in closers:
            sk.append(')')
        if kind == 'int':
            sk.append(lit(t))
        elif kind == 'float':
            sk.append('f' + t.replace('_', ''))
        elif kind == 'op':
            if t in BINOPS:
                prefix = (prevkind == 'op' and prev in PREFIX_CTX and prev not in (')', ']', '}')) or prev is None \
                         or (prevkind == 'ident' and prev in PREFIX_CTX)
                if t == '-' and prefix:
                    sk.append('neg')
                elif t == '*' and prefix:
                    pass                      # dereference
                elif prefix and t not in ('-', '*'):
                    sk.append('prefix' + BINOPS[t])   # e.g. `+` of a trait bound after `>`: kept, never skipped
                else:
                    sk.append(BINOPS[t])
            elif t in ('<', '>', '<=', '>=', '==', '!=') and (prevkind == 'int' or (k + 1 < n and toks[k + 1][0] == 'int')):
                sk.append('cmp:' + t)
            elif t == '[' and ((prevkind == 'ident' and prev not in PREFIX_CTX) or prev in (')', ']', '?')):
                sk.append('index')
            elif t == '(' and not ((prevkind == 'ident' and prev not in PREFIX_CTX) or prev in (')', ']', '?', '>', '!')):
                # grouping parenthesis (or tuple): part of the expression shape
                e = match_close(toks, k)
                if e < 0:
                    die('%s:%d: unbalanced parenthesis' % (path, line))
                closers.add(e)
                sk.append('(')
        elif kind == 'ident':
            if t == 'as' and prev != 'use':
                # cast: target type = following path tokens up to a non-path token
                j = k + 1
                ty = []
                while j < n and (toks[j][0] == 'ident' or toks[j][1] in ('::', '*', '&')):
                    if toks[j][1] in ('*', '&') and ty and ty[-1] not in ('*', '&'):
                        break                                  # `x as u32 * y`: the `*` is a product
                    ty.append(toks[j][1]); j += 1
                if not ty:
                    die('%s:%d: `as` without a type' % (path, line))
                sk.append('as:' + ''.join(ty))
            elif t in INTTYPES and nxt == '::' and k + 2 < n and toks[k + 2][1] in ('from', 'try_from', 'MAX', 'MIN', 'BITS'):
                if k + 3 < n and toks[k + 3][1] == '(':
                    # the operand of a conversion is delimited, so that `i64::from(a).pow(2)` and
                    # `i64::from(a.pow(2))` have different skeletons
                    e = match_close(toks, k + 3)
                    if e < 0:
                        die('%s:%d: unbalanced conversion' % (path, line))
                    closers.add(e)
                    sk.append(t + '::' + toks[k + 2][1] + '(')
                else:
                    sk.append(t + '::' + toks[k + 2][1])
            elif prev == '.' and nxt in ('(', '::'):
                if t in METHODS or t.startswith(PREFIXES):
                    if nxt == '(':
                        e = match_close(toks, k + 1)
                        if e < 0:
                            die('%s:%d: unbalanced call' % (path, line))
                        if e == k + 2:
                            sk.append('.' + t)          # no arguments
                        else:
                            closers.add(e)
                            sk.append('.' + t + '(')
                    else:
                        sk.append('.' + t)
            elif nxt == '!' and t in MACROS:
                sk.append(t + '!')
            elif prev == '::' and nxt == '(' and (t.startswith(PREFIXES) or t in ('pow', 'abs', 'div_euclid', 'rem_euclid')):
                sk.append('.' + t)
        prev, prevkind = t, kind
    return sk


def strip_generics(tokens):
    """drops <...> groups from an impl header"""
    out, depth = [], 0
    for kind, t, _ in tokens:
        if t == '<':
            depth += 1
        elif t == '>':
            depth -= 1
        elif t == '>>':
            depth -= 2
        elif depth == 0:
            out.append(t)
    return out


def functions(path):
    """list of (qualified name, first line, skeleton) of every non-test fn / macro_rules of one file"""
    full = os.path.join(REPO, path)
    if not os.path.exists(full):
        die('covered file %s does not exist in %s' % (path, REPO))
    toks = tokenize(strip_comments(open(full).read(), path), path)
    res = []
    n = len(toks)

    def walk(lo, hi, scope):
        i = lo
        while i < hi:
            kind, t, line = toks[i]
            # attributes: #[cfg(test)] skips the next item
            if t == '#' and i + 1 < hi and toks[i + 1][1] in ('[', '!'):
                j = i + 1
                if toks[j][1] == '!':
                    j += 1
                e = match_close(toks, j)
                if e < 0:
                    die('%s:%d: unbalanced attribute' % (path, line))
                attr = ''.join(x[1] for x in toks[j:e + 1])
                i = e + 1
                if re.match(r'\[cfg\(test\)\]|\[test\]', attr):
                    # skip following attributes and the item (to its `;` or closing brace)
                    while i < hi and toks[i][1] == '#':
                        e = match_close(toks, i + 1)
                        i = e + 1
                    j = i
                    while j < hi and toks[j][1] not in ('{', ';'):
                        if toks[j][1] in ('(', '['):
                            j = match_close(toks, j)
                        j += 1
                    if j < hi and toks[j][1] == '{':
                        j = match_close(toks, j)
                    i = j + 1
                continue
            if kind == 'ident' and t == 'macro_rules' and toks[i + 1][1] == '!':
                name = toks[i + 2][1]
                b = i + 3
                e = match_close(toks, b)
                if e < 0:
                    die('%s:%d: unbalanced macro_rules' % (path, line))
                res.append(('macro ' + name, line, skeleton(toks[b + 1:e], path)))
                i = e + 1
                continue
            if kind == 'ident' and t in ('impl', 'trait', 'mod') and (i == lo or toks[i - 1][1] not in ('.', '::', '->', ':', '<', ',', '(', '&', '+', '=')):
                # header up to `{` (or `;` for `mod x;`)
                j = i + 1
                while j < hi and toks[j][1] not in ('{', ';'):
                    if toks[j][1] in ('(', '['):
                        j = match_close(toks, j)
                    j += 1
                if j >= hi:
                    die('%s:%d: %s without body' % (path, line, t))
                if toks[j][1] == ';':
                    i = j + 1
                    continue
                e = match_close(toks, j)
                if e < 0:
                    die('%s:%d: unbalanced %s body' % (path, line, t))
                hdr = strip_generics(toks[i + 1:j])
                if 'where' in hdr:
                    hdr = hdr[:hdr.index('where')]
                hdr = [x for x in hdr if x not in ('&', 'mut', 'unsafe', 'const', 'dyn')]
                name = ' '.join(hdr).replace(' :: ', '::')
                walk(j + 1, e, (scope + [name]) if t != 'mod' else scope + ['mod ' + name])
                i = e + 1
                continue
            if kind == 'ident' and t == 'fn' and i + 1 < hi and toks[i + 1][0] == 'ident':
                name = toks[i + 1][1]
                j = i + 2
                # generics, parameters, return type, where clause: up to `{` or `;` at bracket depth 0
                while j < hi and toks[j][1] not in ('{', ';'):
                    if toks[j][1] in ('(', '['):
                        j = match_close(toks, j)
                        if j < 0:
                            die('%s:%d: unbalanced signature of %s' % (path, line, name))
                    j += 1
                if j >= hi:
                    die('%s:%d: fn %s without body' % (path, line, name))
                if toks[j][1] == ';':
                    i = j + 1
                    continue
                e = match_close(toks, j)
                if e < 0:
                    die('%s:%d: unbalanced body of %s' % (path, line, name))
                q = '::'.join(scope + [name])
                res.append((q, line, skeleton(toks[j + 1:e], path)))
                i = e + 1
                continue
            if kind == 'ident' and t in ('const', 'static') and i + 2 < hi and toks[i + 1][0] == 'ident' \
                    and toks[i + 1][1] not in ('fn', 'unsafe', 'extern') and toks[i + 2][1] == ':':
                # constant item: its initialiser is a pseudo function `const NAME`
                j = i + 2
                while j < hi and toks[j][1] != ';':
                    if toks[j][1] in ('(', '[', '{'):
                        j = match_close(toks, j)
                        if j < 0:
                            die('%s:%d: unbalanced constant' % (path, line))
                    j += 1
                eq = next((x for x in range(i, j) if toks[x][1] == '='), None)
                if eq is not None:
                    res.append(('::'.join(scope + ['const ' + toks[i + 1][1]]), line, skeleton(toks[eq + 1:j], path)))
                i = j + 1
                continue
            if t == '{':
                # other braced items (struct / enum / const blocks ...): literals in consts are not sites of a fn
                e = match_close(toks, i)
                if e < 0:
                    die('%s:%d: unbalanced braces' % (path, line))
                i = e + 1
                continue
            i += 1

    walk(0, n, [])
    if not res:
        die('%s: no function found (shape not understood)' % path)
    # unique names: repeated (e.g. several `impl From<..> for Point`) get #2, #3 in source order
    seen = {}
    out = []
    for q, line, sk in res:
        seen[q] = seen.get(q, 0) + 1
        out.append((q if seen[q] == 1 else '%s#%d' % (q, seen[q]), line, sk))
    return out


def no_std_scan():
    """supporting evidence for allocation freedom: #![no_std] and no alloc / std paths outside tests"""
    attrs = []
    nfiles = 0
    for lib in ('src/lib.rs', 'core/src/lib.rs'):
        txt = strip_comments(open(os.path.join(REPO, lib)).read(), lib)
        attrs.append((lib, bool(re.search(r'#!\[no_std\]|#!\[cfg_attr\(not\(test\),\s*no_std\)\]', txt))))
    bad = []
    for root in ('src', 'core/src'):
        for d, _, fs in os.walk(os.path.join(REPO, root)):
            for f in fs:
                if not f.endswith('.rs'):
                    continue
                p = os.path.join(d, f)
                rel = os.path.relpath(p, REPO)
                if rel.startswith('src/mock_display'):
                    continue      # test helper (C20), documented to need no allocation but not part of rendering
                toks = tokenize(strip_comments(open(p).read(), rel), rel)
                nfiles += 1
                # drop #[cfg(test)] items
                i = 0
                depth_skip = None
                while i < len(toks):
                    t = toks[i][1]
                    if t == '#' and i + 1 < len(toks) and toks[i + 1][1] == '[':
                        e = match_close(toks, i + 1)
                        attr = ''.join(x[1] for x in toks[i + 1:e + 1])
                        i = e + 1
                        if attr.startswith('[cfg(test)]'):
                            j = i
                            while j < len(toks) and toks[j][1] not in ('{', ';'):
                                if toks[j][1] in ('(', '['):
                                    j = match_close(toks, j)
                                j += 1
                            if j < len(toks) and toks[j][1] == '{':
                                j = match_close(toks, j)
                            i = j + 1
                        continue
                    if toks[i][0] == 'ident' and t in ('alloc', 'std') and i + 1 < len(toks) and toks[i + 1][1] == '::' \
                            and (i == 0 or toks[i - 1][1] != '::' or (i >= 2 and toks[i - 2][1] in ('use', '{', ',', '(', '<', '='))):
                        bad.append('%s:%d %s::' % (rel, toks[i][2], t))
                    if toks[i][0] == 'ident' and t == 'extern' and toks[i + 1][1] == 'crate' and toks[i + 2][1] in ('alloc', 'std'):
                        bad.append('%s:%d extern crate %s' % (rel, toks[i][2], toks[i + 2][1]))
                    i += 1
    return attrs, nfiles, bad


def coq_str(s):
    return '"' + s.replace('"', '""') + '"'


def main():
    dump = '--dump' in sys.argv
    rows = []
    for f in FILES:
        for q, line, sk in functions(f):
            rows.append((f, q, line, sk))
    if dump:
        for f, q, line, sk in rows:
            if sk or '--all' in sys.argv:
                print('%s:%d\t%s\t%s' % (f, line, q, ' '.join(sk)))
        return
    attrs, nfiles, bad = no_std_scan()
    keys = set()
    for f, q, _, _ in rows:
        if (f, q) in keys:
            die('duplicate key %s %s' % (f, q))
        keys.add((f, q))
    lines = ['(* GENERATED by translate/gen_arith.py from the tree under test - do not edit.',
             '   One row per non-test function of the C08 files: (file, function, skeleton of its panic sites). *)',
             'From Coq Require Import String List.', 'Import ListNotations.', 'Open Scope string_scope.', '',
             'Definition arith_files : list string := [' + '; '.join(coq_str(f) for f in FILES) + '].', '',
             '(* facts of the scan for heap allocation (supporting evidence only): the #![no_std] attribute of both crates,',
             '   the number of .rs files of src/ and core/src/ scanned (src/mock_display excluded: test helper), and every',
             '   `alloc::` / `std::` path or `extern crate alloc|std` found outside #[cfg(test)] items *)',
             'Definition no_std_attr : list (string * bool) := [' + '; '.join('(%s, %s)' % (coq_str(f), 'true' if b else 'false') for f, b in attrs) + '].',
             'Definition scanned_files : nat := %d.' % nfiles,
             'Definition alloc_std_paths : list string := [' + '; '.join(coq_str(b) for b in bad) + '].', '',
             'Definition arith_sites : list (string * string * string) := [']
    body = []
    for f, q, _, sk in rows:
        body.append('  (%s, %s, %s)' % (coq_str(f), coq_str(q), coq_str(' '.join(sk))))
    lines.append(';\n'.join(body))
    lines.append('].')
    txt = '\n'.join(lines) + '\n'
    os.makedirs(os.path.dirname(OUT), exist_ok=True)
    if not os.path.exists(OUT) or open(OUT).read() != txt:
        open(OUT, 'w').write(txt)


if __name__ == '__main__':
    main()
