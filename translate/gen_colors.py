#!/usr/bin/env python3
"""gen_colors.py - regenerates coq/Gen/ColorTable.v and coq/Gen/ColorConsts.v from the colour sources
of the tree under test ($EG_REPO, default /repo):

  core/src/pixelcolor/rgb_color.rs     rgb_color!(...) rows, the Rgb/Bgr position arms of `macro_rules! rgb_color`,
                                       the shape of the impl_rgb_color! body that Model/Colormodel.v transcribes
  core/src/pixelcolor/gray_color.rs    gray_color!(...) rows, MAX_LUMA / GRAY_50 / BLACK / WHITE constants
  core/src/pixelcolor/binary_color.rs  Raw type, From<RawU1>, Into<RawU1> constants
  core/src/pixelcolor/raw/mod.rs       impl_raw_data!(...) rows (storage type, bits per pixel), MASK formula
  core/src/pixelcolor/raw/to_bytes.rs  impl_to_bytes!(...) rows and the hand-written RawU24 slices
  core/src/pixelcolor/mod.rs           IntoStorage::into_storage
  core/src/pixelcolor/web_colors.rs    the web_colors! invocation: implementing types and every (CSS_*, (r, g, b)) entry
  core/src/pixelcolor/conversion.rs    convert_channel constants, luma weights, binary threshold,
                                       every impl_*conversion!/impl_*binary! row (the provided From pairs)

Fails closed (exit 1 + message) whenever a pattern it relies on is not found exactly as expected.
Writes the .v files only when their content changed (keeps `make` incremental).
"""
import os, re, sys

REPO = os.environ.get('EG_REPO', '/repo')
HERE = os.path.dirname(os.path.abspath(__file__))
GEN = os.path.join(HERE, '..', 'coq', 'Gen')
PC = os.path.join(REPO, 'core', 'src', 'pixelcolor')


def die(msg):
    sys.stderr.write('gen_colors.py: ' + msg + '\n')
    print('gen_colors.py: ' + msg)
    # fail closed: never leave tables of an earlier tree behind (the theorems would be re-checked against stale rows)
    for f in ('ColorTable.v', 'ColorConsts.v'):
        try:
            os.remove(os.path.join(GEN, f))
        except OSError:
            pass
    sys.exit(1)


def read(rel):
    p = os.path.join(PC, rel)
    if not os.path.exists(p):
        die('missing source file ' + p)
    s = open(p).read()
    # drop the unit tests (everything from the first #[cfg(test)] on) and comments
    k = s.find('#[cfg(test)]')
    if k >= 0:
        s = s[:k]
    s = re.sub(r'//[^\n]*', '', s)
    return s


def norm(s):
    """whitespace-insensitive form used for shape checks"""
    return re.sub(r'\s+', '', s)


def need(src, pat, what, rel, flags=0):
    """regex `pat` (on whitespace-stripped text) must match exactly once; returns the match"""
    ms = list(re.finditer(pat, norm(src), flags))
    if len(ms) != 1:
        die('%s: expected exactly one occurrence of <%s> (%s), found %d' % (rel, what, pat, len(ms)))
    return ms[0]


def need_lit(src, lit, what, rel, count=1):
    n = norm(src).count(norm(lit))
    if n != count:
        die('%s: expected %d occurrence(s) of <%s> `%s`, found %d' % (rel, count, what, lit, n))


def num(s):
    s = s.replace('_', '')
    return int(s, 16) if s.lower().startswith('0x') else int(s, 2) if s.lower().startswith('0b') else int(s)


STORAGE_BITS = {'u8': 8, 'u16': 16, 'u32': 32}

# ------------------------------------------------------------------------------------------ raw/mod.rs
raw_src = read('raw/mod.rs')
raws = {}
raw_order = []
rows = re.findall(r'^impl_raw_data!\((.*)\);\s*$', raw_src, re.M)
for row in rows:
    m = re.fullmatch(r'\s*(\w+)\s*:\s*(\w+)\s*,\s*(\d+)\s*,\s*"[^"]*"\s*', row)
    if not m:
        die('raw/mod.rs: impl_raw_data! row not understood: ' + row)
    name, st, bpp = m.group(1), m.group(2), int(m.group(3))
    if st not in STORAGE_BITS:
        die('raw/mod.rs: unknown storage type %s in row %s' % (st, row))
    if bpp > STORAGE_BITS[st] or bpp < 1:
        die('raw/mod.rs: bits per pixel %d does not fit storage %s' % (bpp, st))
    raws[name] = {'storage': st, 'sbits': STORAGE_BITS[st], 'bpp': bpp}
    raw_order.append(name)
if len(rows) == 0 or len(re.findall(r'^\s*impl_raw_data!\(', raw_src, re.M)) - 1 != len(rows):
    # one further occurrence is the recursive call inside the macro definition
    die('raw/mod.rs: number of impl_raw_data! invocations changed (parsed %d rows)' % len(rows))
need_lit(raw_src, 'pub const fn new(value: $storage_type) -> Self { $type(value & <Self as RawData>::MASK) }', 'RawUx::new masks with MASK', 'raw/mod.rs')
need_lit(raw_src, 'const BITS_PER_PIXEL: usize = $bpp;', 'BITS_PER_PIXEL', 'raw/mod.rs')
need_lit(raw_src, 'const MASK: Self::Storage = Self::Storage::MAX >> (Self::Storage::BITS - $bpp);', 'MASK formula', 'raw/mod.rs')
need_lit(raw_src, 'fn into_inner(self) -> Self::Storage { self.0 }', 'into_inner', 'raw/mod.rs')
need_lit(raw_src, 'impl From<$storage_type> for $type { #[inline] fn from(value: $storage_type) -> Self { Self::new(value) } }', 'From<storage>', 'raw/mod.rs')

# ------------------------------------------------------------------------------------------ raw/to_bytes.rs
tb_src = read('raw/to_bytes.rs')
need_lit(tb_src, 'fn to_be_bytes(self) -> Self::Bytes { self.0.to_be_bytes() }', 'macro to_be_bytes', 'raw/to_bytes.rs')
need_lit(tb_src, 'fn to_le_bytes(self) -> Self::Bytes { self.0.to_le_bytes() }', 'macro to_le_bytes', 'raw/to_bytes.rs')
tb_rows = re.findall(r'^impl_to_bytes!\((.*)\);\s*$', tb_src, re.M)
for row in tb_rows:
    m = re.fullmatch(r'\s*(\w+)\s*,\s*\[u8;\s*(\d+)\]\s*', row)
    if not m or m.group(1) not in raws:
        die('raw/to_bytes.rs: impl_to_bytes! row not understood: ' + row)
    r = raws[m.group(1)]
    n = int(m.group(2))
    if n * 8 != r['sbits']:
        die('raw/to_bytes.rs: %s: byte array length %d does not match storage %s' % (m.group(1), n, r['storage']))
    r.update(nbytes=n, be=(0, n), le=(0, n))
# hand written impls: `impl ToBytes for RawUxx { type Bytes = [u8; N]; ... [a..b] ... [c..d] }`
for m in re.finditer(r'implToBytesfor(RawU\w+)\{typeBytes=\[u8;(\d+)\];'
                     r'fnto_be_bytes\(self\)->Self::Bytes\{letmutret=\[0;(\d+)\];ret\.copy_from_slice\(&self\.0\.to_be_bytes\(\)\[(\d+)\.\.(\d+)\]\);ret\}'
                     r'fnto_le_bytes\(self\)->Self::Bytes\{letmutret=\[0;(\d+)\];ret\.copy_from_slice\(&self\.0\.to_le_bytes\(\)\[(\d+)\.\.(\d+)\]\);ret\}',
                     norm(tb_src)):
    name = m.group(1)
    if name not in raws or 'nbytes' in raws[name]:
        die('raw/to_bytes.rs: unexpected hand-written ToBytes impl for ' + name)
    n, n1, a, b, n2, c, d = [int(x) for x in m.groups()[1:]]
    if not (n == n1 == n2 == b - a == d - c):
        die('raw/to_bytes.rs: %s: inconsistent slice lengths' % name)
    raws[name].update(nbytes=n, be=(a, b), le=(c, d))
for name in raw_order:
    if 'nbytes' not in raws[name]:
        die('raw/to_bytes.rs: no ToBytes impl understood for ' + name)
need_lit(tb_src, 'impl<C: PixelColor> ToBytes for C { type Bytes = <<C as PixelColor>::Raw as ToBytes>::Bytes; '
         'fn to_le_bytes(self) -> Self::Bytes { self.into().to_le_bytes() } fn to_be_bytes(self) -> Self::Bytes { self.into().to_be_bytes() }',
         'blanket ToBytes for colours', 'raw/to_bytes.rs')

# ------------------------------------------------------------------------------------------ mod.rs
mod_src = read('mod.rs')
need_lit(mod_src, 'fn into_storage(self) -> Self::Storage { self.into().into_inner() }', 'IntoStorage', 'mod.rs')

# ------------------------------------------------------------------------------------------ rgb_color.rs
rgb_src = read('rgb_color.rs')
colors = []      # dicts: name kind raw [order rb gb bb]
rows = re.findall(r'^rgb_color!\((.*)\);\s*$', rgb_src, re.M)
for row in rows:
    m = re.fullmatch(r'\s*(\w+)\s*,\s*(\w+)\s*,\s*(\w+)\s*,\s*(Rgb|Bgr)\s*=\s*\(\s*(\d+)\s*,\s*(\d+)\s*,\s*(\d+)\s*\)\s*', row)
    if not m:
        die('rgb_color.rs: rgb_color! row not understood: ' + row)
    name, raw, st, order = m.group(1), m.group(2), m.group(3), m.group(4)
    rb, gb, bb = int(m.group(5)), int(m.group(6)), int(m.group(7))
    if raw not in raws:
        die('rgb_color.rs: %s uses unknown raw type %s' % (name, raw))
    if raws[raw]['storage'] != st:
        die('rgb_color.rs: %s: storage type %s differs from the storage of %s' % (name, st, raw))
    colors.append({'name': name, 'kind': 'rgb', 'raw': raw, 'order': order, 'rb': rb, 'gb': gb, 'bb': bb})
if len(rows) == 0 or len(re.findall(r'^\s*rgb_color!\(', rgb_src, re.M)) != len(rows):
    die('rgb_color.rs: number of rgb_color! invocations changed (parsed %d rows)' % len(rows))


def pos_expr(e):
    """position expression of a macro arm: sums of $r_bits/$g_bits/$b_bits and literals -> Coq"""
    terms = e.split('+')
    out = []
    for t in terms:
        if t in ('$r_bits', '$g_bits', '$b_bits'):
            out.append(t[1] + 'b')
        elif re.fullmatch(r'\d+', t):
            out.append(t)
        else:
            die('rgb_color.rs: position expression not understood: ' + e)
    return ' + '.join(out)


pos = {}
for order in ('Rgb', 'Bgr'):
    m = need(rgb_src, r'\(\$type:ident,\$data_type:ty,\$storage_type:ty,' + order +
             r'=\(\$r_bits:expr,\$g_bits:expr,\$b_bits:expr\)\)=>\{impl_rgb_color!\(\$type,\$data_type,\$storage_type,'
             r'\(\$r_bits,\$g_bits,\$b_bits\),\(([^,()]+),([^,()]+),([^,()]+)\)\);\};',
             'rgb_color! arm for ' + order, 'rgb_color.rs')
    pos[order] = [pos_expr(m.group(i)) for i in (1, 2, 3)]

# shape of the impl_rgb_color! body transcribed by Model/Colormodel.v
for ch, CH in (('r', 'R'), ('g', 'G'), ('b', 'B')):
    need_lit(rgb_src, 'const %s_MASK: $storage_type = ($type::MAX_%s as $storage_type) << $%s_pos;' % (CH, CH, ch), CH + '_MASK', 'rgb_color.rs')
    need_lit(rgb_src, 'let %s_shifted = (%s & Self::MAX_%s) as $storage_type << $%s_pos;' % (ch, ch, CH, ch), ch + '_shifted', 'rgb_color.rs')
    need_lit(rgb_src, 'fn %s(&self) -> u8 { #![allow(trivial_numeric_casts)] (self.0 >> $%s_pos) as u8 & Self::MAX_%s }' % (ch, ch, CH), ch + '()', 'rgb_color.rs')
    need_lit(rgb_src, 'const MAX_%s: u8 = ((1usize << $%s_bits) - 1) as u8;' % (CH, ch), 'MAX_' + CH, 'rgb_color.rs')
need_lit(rgb_src, 'const RGB_MASK: $storage_type = Self::R_MASK | Self::B_MASK | Self::G_MASK;', 'RGB_MASK', 'rgb_color.rs')
need_lit(rgb_src, 'pub const fn new(r: u8, g: u8, b: u8) -> Self {', 'new signature', 'rgb_color.rs')
need_lit(rgb_src, 'Self(r_shifted | g_shifted | b_shifted)', 'new result', 'rgb_color.rs')
need_lit(rgb_src, 'impl From<$data_type> for $type { fn from(data: $data_type) -> Self { let data = data.into_inner(); Self(data & Self::RGB_MASK) } }', 'From<Raw>', 'rgb_color.rs')
need_lit(rgb_src, 'impl From<$type> for $data_type { fn from(color: $type) -> Self { Self::new(color.0) } }', 'Into<Raw>', 'rgb_color.rs')
need_lit(rgb_src, 'const BLACK: Self = Self::new(0, 0, 0);', 'BLACK', 'rgb_color.rs')
need_lit(rgb_src, 'const WHITE: Self = Self::new(Self::MAX_R, Self::MAX_G, Self::MAX_B);', 'WHITE', 'rgb_color.rs')
need_lit(rgb_src, 'const RED: Self = Self::new(Self::MAX_R, 0, 0);', 'RED', 'rgb_color.rs')
need_lit(rgb_src, 'const GREEN: Self = Self::new(0, Self::MAX_G, 0);', 'GREEN', 'rgb_color.rs')
need_lit(rgb_src, 'const BLUE: Self = Self::new(0, 0, Self::MAX_B);', 'BLUE', 'rgb_color.rs')
need_lit(rgb_src, 'const YELLOW: Self = Self::new(Self::MAX_R, Self::MAX_G, 0);', 'YELLOW', 'rgb_color.rs')
need_lit(rgb_src, 'const MAGENTA: Self = Self::new(Self::MAX_R, 0, Self::MAX_B);', 'MAGENTA', 'rgb_color.rs')
need_lit(rgb_src, 'const CYAN: Self = Self::new(0, Self::MAX_G, Self::MAX_B);', 'CYAN', 'rgb_color.rs')
need_lit(rgb_src, 'pub struct $type($storage_type);', 'struct', 'rgb_color.rs')
need_lit(rgb_src, 'impl PixelColor for $type { type Raw = $data_type; }', 'PixelColor::Raw', 'rgb_color.rs')

# ------------------------------------------------------------------------------------------ gray_color.rs
gray_src = read('gray_color.rs')
rows = re.findall(r'^gray_color!\((.*)\);\s*$', gray_src, re.M)
grays = []
for row in rows:
    m = re.fullmatch(r'\s*(\w+)\s*,\s*(\w+)\s*,\s*"[^"]*"\s*', row)
    if not m or m.group(2) not in raws:
        die('gray_color.rs: gray_color! row not understood: ' + row)
    if raws[m.group(2)]['sbits'] != 8:
        die('gray_color.rs: %s: luma() returns the raw storage, expected u8 storage' % m.group(1))
    grays.append({'name': m.group(1), 'kind': 'gray', 'raw': m.group(2)})
if len(rows) == 0 or len(re.findall(r'^\s*gray_color!\(', gray_src, re.M)) != len(rows):
    die('gray_color.rs: number of gray_color! invocations changed (parsed %d rows)' % len(rows))
m = need(gray_src, r'pub\(crate\)constMAX_LUMA:u8=(\w+)>>\((\d+)-\$raw_type::BITS_PER_PIXEL\);', 'MAX_LUMA', 'gray_color.rs')
gray_max_base, gray_max_bits = num(m.group(1)), int(m.group(2))
m = need(gray_src, r'pub\(crate\)constGRAY_50:Self=Self::new\((\w+)>>\((\d+)-\$raw_type::BITS_PER_PIXEL\)\);', 'GRAY_50', 'gray_color.rs')
gray_50_base, gray_50_bits = num(m.group(1)), int(m.group(2))
need_lit(gray_src, 'pub const fn new(luma: u8) -> Self { Self($raw_type::new(luma)) }', 'Gray::new', 'gray_color.rs')
need_lit(gray_src, 'fn luma(&self) -> u8 { self.0.into_inner() }', 'luma()', 'gray_color.rs')
m = need(gray_src, r'constBLACK:Self=Self::new\((\w+)\);', 'gray BLACK', 'gray_color.rs')
gray_black_arg = num(m.group(1))
m = need(gray_src, r'constWHITE:Self=Self::new\((\w+)\);', 'gray WHITE', 'gray_color.rs')
gray_white_arg = num(m.group(1))
need_lit(gray_src, 'impl From<$raw_type> for $type { fn from(data: $raw_type) -> Self { Self(data) } }', 'From<Raw>', 'gray_color.rs')
need_lit(gray_src, 'impl From<$type> for $raw_type { fn from(color: $type) -> Self { color.0 } }', 'Into<Raw>', 'gray_color.rs')
need_lit(gray_src, 'impl PixelColor for $type { type Raw = $raw_type; }', 'PixelColor::Raw', 'gray_color.rs')

# ------------------------------------------------------------------------------------------ binary_color.rs
bin_src = read('binary_color.rs')
m = need(bin_src, r'implPixelColorforBinaryColor\{typeRaw=(\w+);\}', 'BinaryColor Raw', 'binary_color.rs')
bin_raw = m.group(1)
if bin_raw not in raws:
    die('binary_color.rs: unknown raw type ' + bin_raw)
m = need(bin_src, r'implFrom<' + bin_raw + r'>forBinaryColor\{fnfrom\(data:' + bin_raw +
         r'\)->Self\{ifdata\.into_inner\(\)!=(\w+)\{BinaryColor::On\}else\{BinaryColor::Off\}\}\}', 'From<RawU1>', 'binary_color.rs')
bin_from_zero = num(m.group(1))
m = need(bin_src, r'implFrom<BinaryColor>for' + bin_raw + r'\{fnfrom\(color:BinaryColor\)->Self\{' + bin_raw +
         r'::new\(color\.map_color\((\w+),(\w+)\)\)\}\}', 'Into<RawU1>', 'binary_color.rs')
bin_raw_off, bin_raw_on = num(m.group(1)), num(m.group(2))
need_lit(bin_src, 'fn map_color<T>(self, value_off: T, value_on: T) -> T { match self { BinaryColor::On => value_on, BinaryColor::Off => value_off, } }', 'map_color', 'binary_color.rs')
need_lit(bin_src, 'impl From<bool> for BinaryColor { fn from(value: bool) -> Self { if value { BinaryColor::On } else { BinaryColor::Off } } }', 'From<bool>', 'binary_color.rs')

colors = [{'name': 'BinaryColor', 'kind': 'binary', 'raw': bin_raw}] + grays + colors
byname = {c['name']: c for c in colors}
if len(byname) != len(colors):
    die('duplicate colour type names')

# ------------------------------------------------------------------------------------------ conversion.rs
cv_src = read('conversion.rs')
m = need(cv_src, r'constfnconvert_channel<constFROM_MAX:u8,constTO_MAX:u8>\(value:u8\)->u8\{ifTO_MAX!=FROM_MAX\{'
         r'constSHIFT:usize=(\d+);constCONST_0_5:u32=(\d+)<<\(SHIFT-(\d+)\);'
         r'letresult=valueasu32\*\(\(\(TO_MAXasu32\)<<SHIFT\)/FROM_MAXasu32\);'
         r'\(\(result\+CONST_0_5\)>>SHIFT\)asu8\}else\{value\}\}', 'convert_channel', 'conversion.rs')
cc_shift, cc_half_base, cc_half_sub = int(m.group(1)), int(m.group(2)), int(m.group(3))
m = need(cv_src, r'fnluma\(color:(\w+)\)->u8\{letr=u16::from\(color\.r\(\)\);letg=u16::from\(color\.g\(\)\);letb=u16::from\(color\.b\(\)\);'
         r'\(\(r\*(\d+)\+g\*(\d+)\+b\*(\d+)\+(\d+)\)/(\d+)\)asu8\}', 'luma', 'conversion.rs')
luma_type = m.group(1)
luma_wr, luma_wg, luma_wb, luma_round, luma_div = [int(m.group(i)) for i in range(2, 7)]
if luma_type not in byname or byname[luma_type]['kind'] != 'rgb':
    die('conversion.rs: luma() argument type %s is not an RGB colour type' % luma_type)

# macro bodies (shape) -------------------------------------------------------------------------
need_lit(cv_src, '''$(impl From<$from_type> for $to_type { fn from(other: $from_type) -> Self { Self::new(
    convert_channel::<{$from_type::MAX_R}, {$to_type::MAX_R}>(other.r()),
    convert_channel::<{$from_type::MAX_G}, {$to_type::MAX_G}>(other.g()),
    convert_channel::<{$from_type::MAX_B}, {$to_type::MAX_B}>(other.b()), ) } })*''', 'impl_rgb_conversion body', 'conversion.rs')
need_lit(cv_src, '''$(impl From<$from_type> for $to_type { fn from(other: $from_type) -> Self {
    Self::new(convert_channel::<{$from_type::MAX_LUMA}, {$to_type::MAX_LUMA}>(other.luma())) } })*''', 'impl_gray_conversion body', 'conversion.rs')
need_lit(cv_src, '''$(impl From<$gray_type> for $rgb_type { fn from(other: $gray_type) -> Self { Self::new(
    convert_channel::<{$gray_type::MAX_LUMA}, {$rgb_type::MAX_R}>(other.luma()),
    convert_channel::<{$gray_type::MAX_LUMA}, {$rgb_type::MAX_G}>(other.luma()),
    convert_channel::<{$gray_type::MAX_LUMA}, {$rgb_type::MAX_B}>(other.luma()), ) } })+''', 'gray -> rgb body', 'conversion.rs')
m = need(cv_src, r'\$\(implFrom<\$rgb_type>for\$gray_type\{fnfrom\(other:\$rgb_type\)->Self\{letintensity=luma\((\w+)::from\(other\)\);'
         r'(\w+)::new\(intensity\)\.into\(\)\}\}\)\+', 'rgb -> gray body', 'conversion.rs')
via_rgb, via_gray = m.group(1), m.group(2)
if via_rgb != luma_type:
    die('conversion.rs: rgb -> gray goes through %s but luma() takes %s' % (via_rgb, luma_type))
if via_gray not in byname or byname[via_gray]['kind'] != 'gray':
    die('conversion.rs: rgb -> gray goes through unknown gray type ' + via_gray)
need_lit(cv_src, '$(impl From<BinaryColor> for $type { fn from(color: BinaryColor) -> Self { color.map_color(Self::BLACK, Self::WHITE) } })*', 'impl_from_binary body', 'conversion.rs')
need_lit(cv_src, '$(impl From<$type> for BinaryColor { fn from(color: $type) -> Self { (color.luma() >= $type::GRAY_50.luma()).into() } })*', 'impl_gray_to_binary body', 'conversion.rs')
m = need(cv_src, r'\$\(implFrom<\$type>forBinaryColor\{fnfrom\(color:\$type\)->Self\{\(luma\((\w+)::from\(color\)\)>=(\d+)\)\.into\(\)\}\}\)\*', 'impl_rgb_to_binary body', 'conversion.rs')
if m.group(1) != luma_type:
    die('conversion.rs: rgb -> binary goes through %s but luma() takes %s' % (m.group(1), luma_type))
rgb_bin_threshold = int(m.group(2))
# the recursive arm of impl_rgb_to_and_from_gray
need_lit(cv_src, '''($($gray_type:ident),+ => $rgb_type:ident, $($rest:ident),+) => {
    impl_rgb_to_and_from_gray!($($gray_type),+ => $rgb_type); impl_rgb_to_and_from_gray!($($gray_type),+ => $($rest),*); }''',
         'impl_rgb_to_and_from_gray recursion', 'conversion.rs')
n_from = len(re.findall(r'implFrom<', norm(cv_src)))
if n_from != 7:
    die('conversion.rs: expected 7 `impl From<` templates (one per conversion family), found %d' % n_from)

pairs = []      # (family, from, to)


def names(s, what):
    xs = [x.strip() for x in s.replace('\n', ' ').split(',') if x.strip()]
    for x in xs:
        if x not in byname:
            die('conversion.rs: %s names unknown colour type %s' % (what, x))
    return xs


def kind_is(n, k, what):
    if byname[n]['kind'] != k:
        die('conversion.rs: %s: %s is not a %s type' % (what, n, k))


def invocations(macro):
    # top-level invocations only (column 0); the recursive ones inside macro bodies are indented
    found = re.findall(r'^' + macro + r'!\(([^;]*)\);', cv_src, re.M)
    total = len(re.findall(r'^' + macro + r'!\(', cv_src, re.M))
    if not found or total != len(found):
        die('conversion.rs: invocations of %s! not understood' % macro)
    return found


for inv in invocations('impl_rgb_conversion'):
    m = re.fullmatch(r'\s*(\w+)\s*=>\s*([\w\s,]+)', inv)
    if not m:
        die('conversion.rs: impl_rgb_conversion! row not understood: ' + inv)
    f = names(m.group(1), 'impl_rgb_conversion')[0]
    kind_is(f, 'rgb', 'impl_rgb_conversion')
    for t in names(m.group(2), 'impl_rgb_conversion'):
        kind_is(t, 'rgb', 'impl_rgb_conversion')
        pairs.append(('FRgbRgb', f, t))
for inv in invocations('impl_gray_conversion'):
    m = re.fullmatch(r'\s*(\w+)\s*=>\s*([\w\s,]+)', inv)
    if not m:
        die('conversion.rs: impl_gray_conversion! row not understood: ' + inv)
    f = names(m.group(1), 'impl_gray_conversion')[0]
    kind_is(f, 'gray', 'impl_gray_conversion')
    for t in names(m.group(2), 'impl_gray_conversion'):
        kind_is(t, 'gray', 'impl_gray_conversion')
        pairs.append(('FGrayGray', f, t))
for inv in invocations('impl_rgb_to_and_from_gray'):
    m = re.fullmatch(r'\s*([\w\s,]+)=>\s*([\w\s,]+)', inv)
    if not m:
        die('conversion.rs: impl_rgb_to_and_from_gray! row not understood: ' + inv)
    gs, rs = names(m.group(1), 'impl_rgb_to_and_from_gray'), names(m.group(2), 'impl_rgb_to_and_from_gray')
    for g in gs:
        kind_is(g, 'gray', 'impl_rgb_to_and_from_gray')
    for r in rs:
        kind_is(r, 'rgb', 'impl_rgb_to_and_from_gray')
    for r in rs:
        for g in gs:
            pairs.append(('FGrayRgb', g, r))
        for g in gs:
            pairs.append(('FRgbGray', r, g))
for inv in invocations('impl_from_binary'):
    for t in names(inv, 'impl_from_binary'):
        if byname[t]['kind'] not in ('rgb', 'gray'):
            die('conversion.rs: impl_from_binary!: %s is neither RGB nor gray' % t)
        pairs.append(('FBinAny', 'BinaryColor', t))
for inv in invocations('impl_gray_to_binary'):
    for t in names(inv, 'impl_gray_to_binary'):
        kind_is(t, 'gray', 'impl_gray_to_binary')
        pairs.append(('FGrayBin', t, 'BinaryColor'))
for inv in invocations('impl_rgb_to_binary'):
    for t in names(inv, 'impl_rgb_to_binary'):
        kind_is(t, 'rgb', 'impl_rgb_to_binary')
        pairs.append(('FRgbBin', t, 'BinaryColor'))
seen = set()
for fam, a, b in pairs:
    if a == b:
        die('conversion.rs: conversion from %s to itself (conflicts with the reflexive From impl)' % a)
    if (a, b) in seen:
        die('conversion.rs: conversion %s -> %s provided twice' % (a, b))
    seen.add((a, b))
# rgb -> gray / binary need the conversions they go through
for c in colors:
    if c['kind'] == 'rgb' and c['name'] != via_rgb and (c['name'], via_rgb) not in seen:
        die('conversion.rs: %s -> %s (used by the gray/binary conversions) is not provided' % (c['name'], via_rgb))

# ------------------------------------------------------------------------------------------ web_colors.rs
m = need(cv_src, r'pub\(crate\)constfnwith_rgb888\(r:u8,g:u8,b:u8\)->Self\{Self::new\('
         r'convert_channel::<\{(\w+)::MAX_R\},\{\$from_type::MAX_R\}>\(r\),'
         r'convert_channel::<\{(\w+)::MAX_G\},\{\$from_type::MAX_G\}>\(g\),'
         r'convert_channel::<\{(\w+)::MAX_B\},\{\$from_type::MAX_B\}>\(b\),\)\}', 'with_rgb888', 'conversion.rs')
if not (m.group(1) == m.group(2) == m.group(3)) or m.group(1) not in byname or byname[m.group(1)]['kind'] != 'rgb':
    die('conversion.rs: with_rgb888 source type not understood')
web_src_type = m.group(1)
web_src = read('web_colors.rs')
need_lit(web_src, 'const $ident: Self = Self::with_rgb888($r, $g, $b);', 'impl_web_colors body', 'web_colors.rs')
need_lit(web_src, 'web_colors_trait!($colors); $( impl_web_colors!($type, $colors); )*', 'web_colors! body', 'web_colors.rs')
ms = list(re.finditer(r'^web_colors!\(\s*\(([^)]*)\),\s*\[(.*?)\]\s*\);', web_src, re.M | re.S))
if len(ms) != 1 or len(re.findall(r'^\s*web_colors!\(', web_src, re.M)) != 1:
    die('web_colors.rs: expected exactly one top-level web_colors! invocation')
web_types = names(ms[0].group(1), 'web_colors!')
for t in web_types:
    kind_is(t, 'rgb', 'web_colors!')
if len(set(web_types)) != len(web_types):
    die('web_colors.rs: duplicate type in web_colors!')
body = ms[0].group(2)
web = re.findall(r'\(\s*(CSS_\w+)\s*,\s*"[^"]*"\s*,\s*\(\s*(\d+)\s*,\s*(\d+)\s*,\s*(\d+)\s*\)\s*\)\s*,', body)
if not web or len(web) != body.count('CSS_') or len(web) != body.count('"') // 2:
    die('web_colors.rs: colour list not understood (%d entries parsed)' % len(web))
if len(set(w[0] for w in web)) != len(web):
    die('web_colors.rs: duplicate colour name')

# ------------------------------------------------------------------------------------------ output


def zlist(s):
    return '[' + '; '.join(str(ord(ch)) for ch in s) + ']'


def write_if_changed(path, text):
    os.makedirs(os.path.dirname(path), exist_ok=True)
    if not os.path.exists(path) or open(path).read() != text:
        open(path, 'w').write(text)


HDR = '(* GENERATED by translate/gen_colors.py from core/src/pixelcolor/*.rs of the tree under test - DO NOT EDIT *)\n'
consts = HDR + '''From Coq Require Import ZArith.
Open Scope Z_scope.

(* conversion.rs: convert_channel  SHIFT, CONST_0_5 = %d << (SHIFT - %d) *)
Definition cc_shift : Z := %d.
Definition cc_half_base : Z := %d.
Definition cc_half_sub : Z := %d.
(* conversion.rs: luma  ((r * wr + g * wg + b * wb + round) / div) as u8 *)
Definition luma_wr : Z := %d.
Definition luma_wg : Z := %d.
Definition luma_wb : Z := %d.
Definition luma_round : Z := %d.
Definition luma_div : Z := %d.
(* conversion.rs: impl_rgb_to_binary  luma(..) >= threshold *)
Definition rgb_bin_threshold : Z := %d.
(* gray_color.rs: MAX_LUMA = base >> (bits - BITS_PER_PIXEL), GRAY_50 = new(base >> (bits - BITS_PER_PIXEL)), BLACK/WHITE = new(arg) *)
Definition gray_max_base : Z := %d.
Definition gray_max_bits : Z := %d.
Definition gray_50_base : Z := %d.
Definition gray_50_bits : Z := %d.
Definition gray_black_arg : Z := %d.
Definition gray_white_arg : Z := %d.
(* binary_color.rs: From<RawU1>: `!= zero` is On; Into<RawU1>: map_color(off, on) *)
Definition bin_from_zero : Z := %d.
Definition bin_raw_off : Z := %d.
Definition bin_raw_on : Z := %d.
(* rgb_color.rs: the two arms of macro_rules! rgb_color: channel bit positions (r_pos, g_pos, b_pos) *)
Definition pos_rgb (rb gb bb : Z) : Z * Z * Z := (%s, %s, %s).
Definition pos_bgr (rb gb bb : Z) : Z * Z * Z := (%s, %s, %s).
''' % (cc_half_base, cc_half_sub, cc_shift, cc_half_base, cc_half_sub, luma_wr, luma_wg, luma_wb, luma_round, luma_div,
       rgb_bin_threshold, gray_max_base, gray_max_bits, gray_50_base, gray_50_bits, gray_black_arg, gray_white_arg,
       bin_from_zero, bin_raw_off, bin_raw_on, *pos['Rgb'], *pos['Bgr'])

tbl = HDR + '''From Coq Require Import ZArith List.
Import ListNotations.
Open Scope Z_scope.

(* a RawUxx type: name (code points), storage bits, BITS_PER_PIXEL, length of ToBytes::Bytes and the
   slices [lo, hi) of the storage's to_be_bytes() / to_le_bytes() that it keeps *)
Record rawrow := { raw_name : list Z; raw_sbits : Z; raw_bpp : Z; raw_nbytes : Z;
                   raw_be_lo : Z; raw_be_hi : Z; raw_le_lo : Z; raw_le_hi : Z }.
Inductive corder := ORgb | OBgr.
Inductive ckind := KBinary | KGray | KRgb (o : corder) (rb gb bb : Z).
Record crow := { c_id : Z; c_name : list Z; c_kind : ckind; c_raw : rawrow }.
(* conversion families = the macros of conversion.rs *)
Inductive family := FRgbRgb | FGrayGray | FGrayRgb | FRgbGray | FBinAny | FGrayBin | FRgbBin.

'''
for name in raw_order:
    r = raws[name]
    tbl += ('Definition raw_%s : rawrow := {| raw_name := %s; raw_sbits := %d; raw_bpp := %d; raw_nbytes := %d;\n'
            '  raw_be_lo := %d; raw_be_hi := %d; raw_le_lo := %d; raw_le_hi := %d |}.\n'
            % (name, zlist(name), r['sbits'], r['bpp'], r['nbytes'], r['be'][0], r['be'][1], r['le'][0], r['le'][1]))
tbl += 'Definition raw_table : list rawrow := [' + '; '.join('raw_' + n for n in raw_order) + '].\n\n'
for i, c in enumerate(colors):
    if c['kind'] == 'rgb':
        k = 'KRgb %s %d %d %d' % ('ORgb' if c['order'] == 'Rgb' else 'OBgr', c['rb'], c['gb'], c['bb'])
    else:
        k = 'KBinary' if c['kind'] == 'binary' else 'KGray'
    tbl += 'Definition row_%s : crow := {| c_id := %d; c_name := %s; c_kind := %s; c_raw := raw_%s |}.\n' % (
        c['name'], i, zlist(c['name']), k, c['raw'])
tbl += '\nDefinition color_table : list crow :=\n  [' + ';\n   '.join('row_' + c['name'] for c in colors) + '].\n\n'
tbl += '(* conversion.rs: the RGB type luma() takes and the gray type the rgb -> gray conversions go through *)\n'
tbl += 'Definition via_rgb : crow := row_%s.\nDefinition via_gray : crow := row_%s.\n\n' % (via_rgb, via_gray)
tbl += '(* every From<A> for B provided by conversion.rs: (family, A, B); %d pairs *)\n' % len(pairs)
tbl += 'Definition conv_pairs : list (family * crow * crow) :=\n  [' + ';\n   '.join(
    '(%s, row_%s, row_%s)' % p for p in pairs) + '].\n'

tbl += '\n(* conversion.rs with_rgb888: the type whose maxima the 8 bit arguments are scaled from *)\n'
tbl += 'Definition web_src : crow := row_%s.\n' % web_src_type
tbl += '(* web_colors.rs: the types that implement WebColors and every CSS colour (ident, (r, g, b)); %d colours *)\n' % len(web)
tbl += 'Definition web_types : list crow := [' + '; '.join('row_' + t for t in web_types) + '].\n'
tbl += 'Definition web_colors : list (list Z * (Z * Z * Z)) :=\n  [' + ';\n   '.join(
    '(%s, (%s, %s, %s))' % (zlist(n), r, g, b) for n, r, g, b in web) + '].\n'
write_if_changed(os.path.join(GEN, 'ColorConsts.v'), consts)
write_if_changed(os.path.join(GEN, 'ColorTable.v'), tbl)
print('gen_colors.py: %d raw types, %d colour types, %d conversion pairs, %d web colours x %d types' % (
    len(raw_order), len(colors), len(pairs), len(web), len(web_types)))
