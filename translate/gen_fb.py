#!/usr/bin/env python3
"""gen_fb.py - regenerates coq/Gen/FbShape.v from the tree under test (EG_REPO, default /repo).

Property C10 models Framebuffer::fill_solid / fill_contiguous / clear as the DrawTarget TRAIT DEFAULTS on top of
Framebuffer's own draw_iter (coq/Model/Framebuffer.v fb_fill_contiguous / fb_fill_solid / fb_clear).  That is only
right while
  (1) every `impl ... DrawTarget for Framebuffer<...>` block of src/framebuffer.rs defines exactly one fn, draw_iter,
      whose body is the loop `for Pixel(p, c) in pixels { self.set_pixel(p, c); } Ok(())`;
  (2) the default bodies of fill_contiguous / fill_solid / clear in core/src/draw_target/mod.rs are the three
      expressions the model was written against;
  (3) `OriginDimensions for Framebuffer` returns Size::new(WIDTH as u32, HEIGHT as u32) (bounding box used by clear).
This script checks the three facts on the source (comments and whitespace stripped, test module cut) and records
them in coq/Gen/FbShape.v, from which Properties/C10.v proves C10_fb_inherits_trait_defaults.  Any other shape ->
exit 1 (fail closed)."""
import os, re, sys

REPO = os.environ.get('EG_REPO', '/repo')
HERE = os.path.dirname(os.path.abspath(__file__))
OUT = os.path.join(HERE, '..', 'coq', 'Gen', 'FbShape.v')


def die(msg):
    print('gen_fb.py: unexpected source shape: ' + msg)
    sys.exit(1)


def read(rel):
    p = os.path.join(REPO, rel)
    if not os.path.exists(p):
        die('missing file ' + rel)
    return open(p, encoding='utf-8').read()


def strip_comments(src):
    src = re.sub(r'/\*.*?\*/', '', src, flags=re.S)
    src = re.sub(r'//[^\n]*', '', src)
    return src


def cut_tests(src):
    k = src.find('#[cfg(test)]')
    return src[:k] if k >= 0 else src


def block(src, start):
    """the brace-balanced block whose '{' is the first one at or after `start`; returns (body, end index)"""
    i = src.find('{', start)
    if i < 0:
        die('no block')
    depth = 0
    for j in range(i, len(src)):
        if src[j] == '{':
            depth += 1
        elif src[j] == '}':
            depth -= 1
            if depth == 0:
                return src[i + 1:j], j + 1
    die('unbalanced braces')


def squash(s):
    return re.sub(r'\s+', '', s)


# ---- (1) src/framebuffer.rs --------------------------------------------------------------------------------------
fb = cut_tests(strip_comments(read('src/framebuffer.rs')))
impls = [m.start() for m in re.finditer(r'\bDrawTarget\s+for\s+Framebuffer\s*<', fb)]
if len(impls) != 3:
    die('expected 3 `DrawTarget for Framebuffer` impl blocks (sub-byte macro, RawU8, multi-byte macro), found %d' % len(impls))
other = 0
for st in impls:
    body, _ = block(fb, st)
    fns = re.findall(r'\bfn\s+(\w+)', body)
    if fns.count('draw_iter') != 1:
        die('an impl of DrawTarget for Framebuffer does not define draw_iter exactly once: %r' % fns)
    other += len([f for f in fns if f != 'draw_iter'])
    k = body.find('fn draw_iter')
    # skip the where clause: the function body is the last block
    sig_end = body.find('{', body.find('where', k)) if 'where' in body[k:] else body.find('{', k)
    fbody, _ = block(body, sig_end)
    if squash(fbody) != squash('for Pixel(p, c) in pixels { self.set_pixel(p, c); } Ok(())'):
        die('draw_iter body changed: ' + squash(fbody))
if other != 0:
    die('%d method(s) other than draw_iter are defined in `impl DrawTarget for Framebuffer` blocks; '
        'the model takes fill_solid / fill_contiguous / clear from the trait defaults' % other)
# no inherent fill/clear methods that would shadow the trait methods at call sites
for name in ('fill_solid', 'fill_contiguous', 'clear'):
    if re.search(r'\bfn\s+' + name + r'\b', fb):
        die('framebuffer.rs defines a method named ' + name)

# ---- (3) OriginDimensions ------------------------------------------------------------------------------------------
m = re.search(r'\bOriginDimensions\s+for\s+Framebuffer\s*<', fb)
if not m:
    die('no OriginDimensions impl for Framebuffer')
body, _ = block(fb, m.start())
k = body.find('fn size')
sbody, _ = block(body, k)
if squash(sbody) != squash('Size::new(WIDTH as u32, HEIGHT as u32)'):
    die('Framebuffer::size changed: ' + squash(sbody))
if re.search(r'\bDimensions\s+for\s+Framebuffer\s*<', fb.replace('OriginDimensions', '')):
    die('Framebuffer implements Dimensions directly')

# ---- (2) trait defaults --------------------------------------------------------------------------------------------
dt = strip_comments(read('core/src/draw_target/mod.rs'))
k = dt.find('pub trait DrawTarget')
if k < 0:
    die('no DrawTarget trait')
trait, _ = block(dt, k)
want = {
    'fill_contiguous': 'self.draw_iter(area.points().zip(colors).map(|(pos, color)| Pixel(pos, color)),)',
    'fill_solid': 'self.fill_contiguous(area, core::iter::repeat(color))',
    'clear': 'self.fill_solid(&self.bounding_box(), color)',
}
for name, w in want.items():
    k = trait.find('fn ' + name)
    if k < 0:
        die('trait DrawTarget has no fn ' + name)
    semi = trait.find(';', k)
    brace = trait.find('{', k)
    if brace < 0 or (0 <= semi < brace):
        die('trait method %s has no default body' % name)
    b, _ = block(trait, brace)
    if squash(b) != squash(w):
        die('default body of %s changed: %s' % (name, squash(b)))
# origin dimensions -> bounding_box
geo = strip_comments(read('core/src/geometry/mod.rs'))
if squash('Rectangle::new(Point::zero(), self.size())') not in squash(geo):
    die('OriginDimensions -> Dimensions::bounding_box is not Rectangle::new(Point::zero(), self.size())')

text = '''(* GENERATED by translate/gen_fb.py from src/framebuffer.rs and core/src/draw_target/mod.rs - do not edit *)
Definition fb_drawtarget_impls : nat := %d.
Definition fb_drawtarget_other_fns : nat := %d.
Definition trait_defaults_as_modelled : bool := true.
Definition fb_size_is_width_height : bool := true.
''' % (len(impls), other)
os.makedirs(os.path.dirname(OUT), exist_ok=True)
if not os.path.exists(OUT) or open(OUT).read() != text:
    open(OUT, 'w').write(text)
