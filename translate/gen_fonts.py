#!/usr/bin/env python3
"""Regenerates coq/Gen/FontTable.v from the tree under test (EG_REPO, default /repo):

  * every `pub const FONT_*` of src/mono_font/generated/*.rs -> one `bfont` row: name "<module>::<CONST>",
    byte length and bitmap digest (FNV-1a over the rows) of the include_bytes! file, mapping id, image size, character size, spacing, baseline,
    underline and strikethrough (offset, height) with the constant expressions (`4 + 2`, `13 / 2`) evaluated
    in u32 arithmetic; and the crate-private `NULL_FONT` of src/mono_font/mod.rs as the separate definition `null_font`;
  * every mapping of the `impl_mapping!` table in src/mono_font/mapping.rs -> one `bmapping` row: name, the
    string literal as code points (NUL range markers kept), its expansion exactly as StrGlyphMapping::chars
    walks it (the Coq side re-derives the expansion with its own model and proves both equal), and the
    replacement index taken from the macro body.

Fails (exit 1) on every shape it does not understand.  Writes only when the content changed."""
import os, re, sys, glob

REPO = os.environ.get('EG_REPO', '/repo')
HERE = os.path.dirname(os.path.abspath(__file__))
OUT = os.path.join(HERE, '..', 'coq', 'Gen', 'FontTable.v')


def die(msg):
    sys.stderr.write('gen_fonts: ' + msg + '\n')
    print('gen_fonts: ' + msg)
    sys.exit(1)


# ------------------------------------------------------------------ tiny u32 expression evaluator
def ev(expr, where):
    toks = re.findall(r'\d+|[-+*/()]', expr)
    if ''.join(toks) != re.sub(r'\s+', '', expr):
        die('unexpected constant expression %r in %s' % (expr, where))
    pos = [0]

    def peek():
        return toks[pos[0]] if pos[0] < len(toks) else None

    def nxt():
        t = peek()
        pos[0] += 1
        return t

    def atom():
        t = nxt()
        if t is None:
            die('truncated expression %r in %s' % (expr, where))
        if t == '(':
            v = addsub()
            if nxt() != ')':
                die('unbalanced expression %r in %s' % (expr, where))
            return v
        if not t.isdigit():
            die('unexpected token %r in %r (%s)' % (t, expr, where))
        return int(t)

    def muldiv():
        v = atom()
        while peek() in ('*', '/'):
            op = nxt()
            r = atom()
            if op == '/' and r == 0:
                die('division by zero in %r (%s)' % (expr, where))
            v = v * r if op == '*' else v // r
        return v

    def addsub():
        v = muldiv()
        while peek() in ('+', '-'):
            op = nxt()
            r = muldiv()
            v = v + r if op == '+' else v - r
        return v
    v = addsub()
    if pos[0] != len(toks):
        die('trailing tokens in %r (%s)' % (expr, where))
    if not (0 <= v < 2 ** 32):
        die('constant %r out of u32 range (%s)' % (expr, where))
    return v


# ------------------------------------------------------------------ Rust string literal -> code points
def rust_str(lit, where):
    out = []
    i = 0
    while i < len(lit):
        ch = lit[i]
        if ch != '\\':
            out.append(ord(ch))
            i += 1
            continue
        e = lit[i + 1]
        if e == '0':
            out.append(0)
            i += 2
        elif e == 'u':
            m = re.match(r'\\u\{([0-9a-fA-F_]{1,7})\}', lit[i:])
            if not m:
                die('bad \\u escape in %s' % where)
            out.append(int(m.group(1).replace('_', ''), 16))
            i += len(m.group(0))
        elif e == 'x':
            out.append(int(lit[i + 2:i + 4], 16))
            i += 4
        elif e in 'nrt\\\'"':
            out.append({'n': 10, 'r': 13, 't': 9, '\\': 92, "'": 39, '"': 34}[e])
            i += 2
        else:
            die('unknown escape \\%s in %s' % (e, where))
    for c in out:
        if c > 0x10FFFF or 0xD800 <= c <= 0xDFFF:
            die('invalid code point %x in %s' % (c, where))
    return out


def char_range(a, b):
    return [c for c in range(a, b + 1) if not (0xD800 <= c <= 0xDFFF)]


def expand(data):
    """StrGlyphMapping::chars (mapping.rs): NUL start end = inclusive range; incomplete range ends the walk"""
    out = []
    i = 0
    while i < len(data):
        c = data[i]
        if c == 0:
            if i + 2 >= len(data):
                break
            out += char_range(data[i + 1], data[i + 2])
            i += 3
        else:
            out.append(c)
            i += 1
    return out


# ------------------------------------------------------------------ mapping.rs
def read_mappings():
    path = os.path.join(REPO, 'src', 'mono_font', 'mapping.rs')
    src = open(path, encoding='utf-8').read()
    m = re.search(r"pub const \$constant: StrGlyphMapping = StrGlyphMapping::new\(\s*\$mapping,\s*(.*?)\);", src, re.S)
    if not m:
        die('mapping.rs: cannot find the StrGlyphMapping::new($mapping, <replacement>) line of impl_mapping!')
    rexpr = re.sub(r'\s+', ' ', m.group(1).strip())
    mm = re.fullmatch(r"'(.)' as usize - '(.)' as usize", rexpr)
    if mm:
        repl = ord(mm.group(1)) - ord(mm.group(2))
    elif re.fullmatch(r'[\d\s+*/()-]+', rexpr):
        repl = ev(rexpr, 'mapping.rs replacement index')
    else:
        die('mapping.rs: replacement index expression %r not understood' % rexpr)
    if repl < 0:
        die('mapping.rs: negative replacement index')
    body = re.search(r'\nimpl_mapping!\(\n(.*?)\n\);', src, re.S)
    if not body:
        die('mapping.rs: impl_mapping!( ... ); invocation not found')
    rows = []
    text = body.group(1)
    # strip comments / doc comments
    stripped = re.sub(r'^\s*//.*$', '', text, flags=re.M)
    entry = re.compile(r'\(\s*(\w+)\s*,\s*(\w+)\s*,\s*"((?:[^"\\]|\\.)*)"\s*\)\s*,')
    posn = 0
    for e in entry.finditer(stripped):
        if stripped[posn:e.start()].strip():
            die('mapping.rs: unexpected text in impl_mapping!: %r' % stripped[posn:e.start()].strip()[:80])
        posn = e.end()
        rows.append((e.group(2), rust_str(e.group(3), 'mapping ' + e.group(2))))
    if stripped[posn:].strip():
        die('mapping.rs: unexpected trailing text in impl_mapping!: %r' % stripped[posn:].strip()[:80])
    if not rows:
        die('mapping.rs: no mappings found')
    n_variants = len(re.findall(r'^\s*\(\w+,\s*\w+,\s*"', text, re.M))
    if n_variants != len(rows):
        die('mapping.rs: %d entries seen, %d parsed' % (n_variants, len(rows)))
    return rows, repl


# ------------------------------------------------------------------ generated/*.rs
FONT_RE = re.compile(
    r'pub const (FONT_\w+): crate::mono_font::MonoFont = crate::mono_font::MonoFont \{\s*'
    r'image: crate::image::ImageRaw::new_const\(\s*'
    r'include_bytes!\("([^"]+)"\),\s*'
    r'crate::geometry::Size::new\(([^,()]+),([^,()]+)\),\s*'
    r'\),\s*'
    r'glyph_mapping: &crate::mono_font::mapping::(\w+),\s*'
    r'character_size: crate::geometry::Size::new\(([^,()]+),([^,()]+)\),\s*'
    r'character_spacing: ([^,]+),\s*'
    r'baseline: ([^,]+),\s*'
    r'underline: crate::mono_font::DecorationDimensions::new\(([^,]+),([^,]+)\),\s*'
    r'strikethrough: crate::mono_font::DecorationDimensions::new\(([^,]+),([^,]+)\),\s*'
    r'\};')


def bitmap_digest(path, w, h, where):
    """FNV-1a 64 (low 60 bits) over the rows of the 1 bpp atlas, padding bits of each row masked to 0.
    The harness recomputes the same number from font.image.pixel() of the running library (c14_bi)."""
    data = open(path, 'rb').read()
    bpr = (w + 7) // 8
    if len(data) < bpr * h:
        return 0          # wrong length: reported by the builtin_atlas_length proof
    mask = 0xFF if w % 8 == 0 else (0xFF << (8 - w % 8)) & 0xFF
    hsh = 0xcbf29ce484222325
    for y in range(h):
        row = data[y * bpr:(y + 1) * bpr]
        for k, byte in enumerate(row):
            if k == bpr - 1:
                byte &= mask
            hsh = ((hsh ^ byte) * 0x100000001b3) & 0xFFFFFFFFFFFFFFFF
    return hsh & ((1 << 60) - 1)


def read_fonts(mapping_names):
    gdir = os.path.join(REPO, 'src', 'mono_font', 'generated')
    files = sorted(f for f in glob.glob(os.path.join(gdir, '*.rs')) if os.path.basename(f) != 'mod.rs')
    if not files:
        die('no files in src/mono_font/generated')
    modrs = open(os.path.join(gdir, 'mod.rs')).read()
    mods = sorted(re.findall(r'^pub mod (\w+);', modrs, re.M))
    if mods != sorted(os.path.basename(f)[:-3] for f in files):
        die('generated/mod.rs modules %s do not match the files present' % mods)
    rows = []
    for path in files:
        mod = os.path.basename(path)[:-3]
        src = open(path, encoding='utf-8').read()
        code = re.sub(r'^\s*//.*$', '', src, flags=re.M)
        n_const = len(re.findall(r'\bconst\s+\w+\s*:', code))
        found = list(FONT_RE.finditer(code))
        if n_const != len(found):
            die('%s: %d const items but %d understood as MonoFont constants' % (path, n_const, len(found)))
        if 'MonoFont {' in FONT_RE.sub('', code):
            die('%s: a MonoFont literal of unexpected shape remains' % path)
        for m in found:
            name = m.group(1)
            where = '%s::%s' % (mod, name)
            raw = os.path.normpath(os.path.join(os.path.dirname(path), m.group(2)))
            if not os.path.isfile(raw):
                die('%s: raw file %s missing' % (where, raw))
            if m.group(5) not in mapping_names:
                die('%s: unknown mapping %s' % (where, m.group(5)))
            vals = [ev(m.group(k), where) for k in (3, 4, 6, 7, 8, 9, 10, 11, 12, 13)]
            rows.append((where, os.path.getsize(raw), mapping_names.index(m.group(5)), vals, bitmap_digest(raw, vals[0], vals[1], where)))
    return rows


# ------------------------------------------------------------------ mod.rs: NULL_FONT (default font of MonoTextStyleBuilder)
NULL_RE = re.compile(
    r'const NULL_FONT: MonoFont = MonoFont \{\s*'
    r'image: ImageRaw::new_const\(&\[\], (Size::zero\(\)|Size::new\([^()]*\))\),\s*'
    r'character_size: (Size::zero\(\)|Size::new\([^()]*\)),\s*'
    r'character_spacing: ([^,]+),\s*'
    r'baseline: ([^,]+),\s*'
    r'strikethrough: DecorationDimensions::new\(([^,]+),([^,()]+)\),\s*'
    r'underline: DecorationDimensions::new\(([^,]+),([^,()]+)\),\s*'
    r'glyph_mapping: &mapping::(\w+),\s*'
    r'\};')


def size_of(txt, where):
    if txt == 'Size::zero()':
        return 0, 0
    m = re.fullmatch(r'Size::new\(([^,]+),([^,]+)\)', txt)
    if not m:
        die('%s: size %r not understood' % (where, txt))
    return ev(m.group(1), where), ev(m.group(2), where)


def read_null_font(mapping_names):
    path = os.path.join(REPO, 'src', 'mono_font', 'mod.rs')
    code = re.sub(r'^\s*//.*$', '', open(path, encoding='utf-8').read(), flags=re.M)
    if len(re.findall(r'\bNULL_FONT\s*:', code)) != 1:
        die('mod.rs: expected exactly one NULL_FONT constant')
    m = NULL_RE.search(code)
    if not m:
        die('mod.rs: NULL_FONT does not have the shape `MonoFont { image: ImageRaw::new_const(&[], <size>), character_size, '
            'character_spacing, baseline, strikethrough, underline, glyph_mapping }`')
    where = 'mod.rs NULL_FONT'
    iw, ih = size_of(m.group(1), where)
    cw, ch = size_of(m.group(2), where)
    if m.group(9) not in mapping_names:
        die('%s: unknown mapping %s' % (where, m.group(9)))
    sp, base, so, sh, uo, uh = [ev(m.group(k), where) for k in (3, 4, 5, 6, 7, 8)]
    # data is the empty slice: raw length 0, digest of no bytes
    return ('null::NULL_FONT', 0, mapping_names.index(m.group(9)), [iw, ih, cw, ch, sp, base, uo, uh, so, sh], 0xcbf29ce484222325 & ((1 << 60) - 1))


def zl(xs):
    return '[' + ';'.join(str(x) for x in xs) + ']'


def name_codes(s):
    return zl(ord(c) for c in s)


def main():
    maps, repl = read_mappings()
    names = [n for n, _ in maps]
    fonts = read_fonts(names)
    L = []
    L.append('(* GENERATED by translate/gen_fonts.py from src/mono_font/generated/*.rs, src/mono_font/mapping.rs and')
    L.append('   fonts/raw/** of the tree under test. Do not edit. *)')
    L.append('From EG Require Import Base.Prelude Model.Fontmodel.')
    L.append('')
    L.append('Definition replacement_index : Z := %d.' % repl)
    L.append('')
    for i, (n, data) in enumerate(maps):
        L.append('(* %d: %s *)' % (i, n))
        L.append('Definition map_%s : bmapping := BMapping %s' % (n, name_codes(n)))
        L.append('  %s' % zl(data))
        L.append('  %s' % zl(expand(data)))
        L.append('  replacement_index.')
    L.append('')
    L.append('Definition mappings : list bmapping := [%s].' % '; '.join('map_' + n for n in names))
    L.append('')
    L.append('(* BFont name rawlen bitmap_digest mapping (Font image_w image_h char_w char_h spacing baseline (Deco ul_off ul_h) (Deco st_off st_h)) *)')
    L.append('Definition fonts : list bfont := [')
    rows = []
    for where, rawlen, mi, v, dig in fonts:
        rows.append('  (* %s *) BFont %s %d %d %d (Font %d %d %d %d %d %d (Deco %d %d) (Deco %d %d))' % (
            where, name_codes(where), rawlen, dig, mi, v[0], v[1], v[2], v[3], v[4], v[5], v[6], v[7], v[8], v[9]))
    L.append(';\n'.join(rows))
    L.append('].')
    L.append('')
    where, rawlen, mi, v, dig = read_null_font(names)
    L.append('(* src/mono_font/mod.rs NULL_FONT: the crate-private default font of MonoTextStyleBuilder::new() (not a row of `fonts`) *)')
    L.append('Definition null_font : bfont :=')
    L.append('  BFont %s %d %d %d (Font %d %d %d %d %d %d (Deco %d %d) (Deco %d %d)).' % (
        name_codes(where), rawlen, dig, mi, v[0], v[1], v[2], v[3], v[4], v[5], v[6], v[7], v[8], v[9]))
    L.append('')
    txt = '\n'.join(L)
    os.makedirs(os.path.dirname(OUT), exist_ok=True)
    if not os.path.exists(OUT) or open(OUT).read() != txt:
        open(OUT, 'w').write(txt)
    print('gen_fonts: %d fonts, %d mappings, replacement index %d' % (len(fonts), len(maps), repl))
    if '--golden' in sys.argv:
        # deliberate refresh of the COMMITTED bitmap reference (never done by ./check or setup.sh)
        G = ['(* COMMITTED reference: FNV-1a digest of the glyph bitmap (fonts/raw file) of every built-in font.',
             '   Gen/FontTable.v carries the digests of the tree under test (regenerated on every run); Proofs/Fontbuiltin.v proves',
             '   they are equal, so a changed, swapped or corrupted bitmap file breaks a proof.',
             '   Regenerate ONLY after a deliberate font change: python3 translate/gen_fonts.py --golden *)',
             'From EG Require Import Base.Prelude.', '', 'Definition golden_bitmaps : list (list Z * Z) := [']
        G.append(';\n'.join('  (* %s *) (%s, %d)' % (w, name_codes(w), dig) for w, _, _, _, dig in fonts))
        G.append('].')
        open(os.path.join(HERE, '..', 'coq', 'Proofs', 'FontGolden.v'), 'w').write('\n'.join(G) + '\n')
        print('gen_fonts: wrote coq/Proofs/FontGolden.v')


main()
