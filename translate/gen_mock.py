#!/usr/bin/env python3
"""gen_mock.py - regenerates coq/Gen/MockConsts.v from the tree under test (EG_REPO, default /repo).

Writes: the MockDisplay SIZE constant, the Rgb888 colours used by MockDisplay::diff, and for every
`impl ColorMapping for T` of src/mock_display/color_mapping.rs the graph of `char_to_color`
(char code -> raw colour value; every other char panics) and of `color_to_char` (raw value -> char code,
plus the default arm).  The raw value of a colour is what `Into<C::Raw>::into_inner()` returns.

The functions are recognised by SHAPE (comments stripped, whitespace removed): every function body must
match its template exactly; only literals (chars, radix, multiplier, mask, shift, colour names) are
captured and evaluated.  Anything else -> exit 1 (fail closed).
Trusted knowledge of core (not parsed): char::to_digit / char::from_digit / to_ascii_uppercase on ASCII.
"""
import os, re, sys

REPO = os.environ.get('EG_REPO', '/repo')
HERE = os.path.dirname(os.path.abspath(__file__))
OUT = os.path.join(HERE, '..', 'coq', 'Gen', 'MockConsts.v')


def die(msg):
    print('gen_mock.py: unexpected source shape: ' + msg)
    sys.exit(1)


def read(rel):
    p = os.path.join(REPO, rel)
    if not os.path.exists(p):
        die('missing file ' + rel)
    return open(p, encoding='utf-8').read()


def strip(src):
    """remove comments (no string literal in these files contains //), the test module, and all whitespace"""
    src = re.sub(r'/\*.*?\*/', '', src, flags=re.S)
    src = re.sub(r'//[^\n]*', '', src)
    k = src.find('#[cfg(test)]')
    if k >= 0:
        src = src[:k]
    return src


def squash(s):
    # keep the blank inside the char literal ' '
    s = s.replace("' '", "'\x00'")
    s = re.sub(r'\s+', '', s)
    return s.replace("'\x00'", "' '")


def lit(s):
    s = s.replace('_', '')
    return int(s, 16) if s.lower().startswith('0x') else int(s)


# ---- Rust core semantics the translator knows (ASCII only; to_digit/from_digit never accept non-ASCII) ----
def to_digit(ch, radix):
    if 48 <= ch <= 57:
        d = ch - 48
    elif 97 <= ch <= 122:
        d = ch - 97 + 10
    elif 65 <= ch <= 90:
        d = ch - 65 + 10
    else:
        return None
    return d if d < radix else None


def from_digit_upper(n, radix):
    if not (2 <= radix <= 36) or n >= radix:
        return None
    ch = 48 + n if n < 10 else 97 + n - 10
    return ch - 32 if 97 <= ch <= 122 else ch


def main():
    # ------------------------------------------------------------------ mod.rs: SIZE, DISPLAY_AREA, diff colours
    mod = strip(read('src/mock_display/mod.rs'))
    m = re.findall(r'const\s+SIZE\s*:\s*usize\s*=\s*([0-9_xXa-fA-F]+)\s*;', mod)
    if len(m) != 1:
        die('const SIZE: usize = <literal>; not found exactly once')
    size = lit(m[0])
    if not (1 <= size <= 1024):
        die('SIZE out of the supported range: %d' % size)
    sq = squash(mod)
    if 'constDISPLAY_AREA:Rectangle=Rectangle::new(Point::zero(),Size::new_equal(SIZEasu32));' not in sq:
        die('DISPLAY_AREA is no longer Rectangle::new(Point::zero(), Size::new_equal(SIZE as u32))')
    if 'pixels:[Option<C>;SIZE*SIZE],' not in sq:
        die('pixels is no longer [Option<C>; SIZE * SIZE]')
    # MockDisplay::new() = Self::default(); the model's new_display is (empty, false, false)
    if 'pubfnnew()->Self{Self::default()}' not in sq:
        die('MockDisplay::new() is no longer Self::default()')
    if 'fndefault()->Self{Self{pixels:[None;SIZE*SIZE],allow_overdraw:false,allow_out_of_bounds_drawing:false,}}' not in sq:
        die('Default for MockDisplay is no longer { pixels: [None; SIZE * SIZE], allow_overdraw: false, allow_out_of_bounds_drawing: false }')
    if sq.count('implDefaultforMockDisplay') + sq.count('Default<C>forMockDisplay') + sq.count('>DefaultforMockDisplay<C>') != 1:
        die('expected exactly one Default impl for MockDisplay')
    # MockDisplay implements ONLY draw_iter of DrawTarget (fill_contiguous / fill_solid / clear are the trait defaults the
    # model unfolds), and its bounding box is OriginDimensions with size() = DISPLAY_AREA.size
    dt = ('impl<C>DrawTargetforMockDisplay<C>whereC:PixelColor,{typeColor=C;typeError=core::convert::Infallible;'
          'fndraw_iter<I>(&mutself,pixels:I)->Result<(),Self::Error>whereI:IntoIterator<Item=Pixel<Self::Color>>,'
          '{forpixelinpixels.into_iter(){letPixel(point,color)=pixel;self.draw_pixel(point,color);}Ok(())}}')
    if sq.count('DrawTargetforMockDisplay') != 1 or dt not in sq:
        die('`impl DrawTarget for MockDisplay` is no longer exactly { type Color; type Error; fn draw_iter { for pixel in pixels '
            '{ self.draw_pixel(point, color) } Ok(()) } } (an overridden fill_solid / fill_contiguous / clear is not modelled)')
    od = 'impl<C>OriginDimensionsforMockDisplay<C>whereC:PixelColor,{fnsize(&self)->Size{DISPLAY_AREA.size}}'
    if sq.count('DimensionsforMockDisplay') != 1 or od not in sq:
        die('MockDisplay is no longer OriginDimensions with size() = DISPLAY_AREA.size')
    md = re.search(r'letdiff_color=match\(self_color,other_color\)\{\(Some\(_\),None\)=>Some\(Rgb888::(\w+)\),'
                   r'\(None,Some\(_\)\)=>Some\(Rgb888::(\w+)\),\(Some\(s\),Some\(o\)\)ifs!=o=>Some\(Rgb888::(\w+)\),_=>None,\};', sq)
    if not md:
        die('the match in MockDisplay::diff')
    diff_names = md.groups()

    # ------------------------------------------------------------------ core colour definitions (raw values)
    rgb = squash(strip(read('core/src/pixelcolor/rgb_color.rs')))
    for need in ['letr_shifted=(r&Self::MAX_R)as$storage_type<<$r_pos;', 'letg_shifted=(g&Self::MAX_G)as$storage_type<<$g_pos;',
                 'letb_shifted=(b&Self::MAX_B)as$storage_type<<$b_pos;', 'Self(r_shifted|g_shifted|b_shifted)',
                 'constMAX_R:u8=((1usize<<$r_bits)-1)asu8;', 'constMAX_G:u8=((1usize<<$g_bits)-1)asu8;',
                 'constMAX_B:u8=((1usize<<$b_bits)-1)asu8;',
                 '($r_bits,$g_bits,$b_bits),($g_bits+$b_bits,$b_bits,0));',     # Rgb positions
                 '($r_bits,$g_bits,$b_bits),(0,$r_bits,$r_bits+$g_bits));',     # Bgr positions
                 'implFrom<$type>for$data_type{fnfrom(color:$type)->Self{Self::new(color.0)}}']:
        if need not in rgb:
            die('rgb_color.rs: ' + need)
    named = {}
    for name, a, b, c in re.findall(r'const([A-Z]+):Self=Self::new\(([^,()]+),([^,()]+),([^,()]+)\);', rgb):
        named[name] = (a, b, c)
    rgb_types = {}
    for t, raw, order, rb, gb, bb in re.findall(r'rgb_color!\((\w+),(\w+),\w+,(Rgb|Bgr)=\((\d+),(\d+),(\d+)\)\);', rgb):
        rb, gb, bb = int(rb), int(gb), int(bb)
        pos = (gb + bb, bb, 0) if order == 'Rgb' else (0, rb, rb + gb)
        rgb_types[t] = ((rb, gb, bb), pos)

    def rgb_raw(t, name):
        if t not in rgb_types:
            die('no rgb_color! row for ' + t)
        if name not in named:
            die('no named colour const ' + name)
        (bits, pos) = rgb_types[t]
        v = 0
        for k, arg in enumerate(named[name]):
            mx = (1 << bits[k]) - 1
            if arg == 'Self::MAX_' + 'RGB'[k]:
                ch = mx
            elif re.fullmatch(r'[0-9]+|0x[0-9a-fA-F]+', arg):
                ch = lit(arg) & mx
            else:
                die('named colour argument ' + arg)
            v |= ch << pos[k]
        return v

    gray = squash(strip(read('core/src/pixelcolor/gray_color.rs')))
    for need in ['pubconstfnnew(luma:u8)->Self{Self($raw_type::new(luma))}', 'fnluma(&self)->u8{self.0.into_inner()}',
                 'fnfrom(color:$type)->Self{color.0}']:
        if need not in gray:
            die('gray_color.rs: ' + need)
    gray_bits = {t: int(b) for t, b in re.findall(r'gray_color!\((\w+),RawU(\d+),', gray)}
    binc = squash(strip(read('core/src/pixelcolor/binary_color.rs')))
    for need in ['fnmap_color<T>(self,value_off:T,value_on:T)->T{matchself{BinaryColor::On=>value_on,BinaryColor::Off=>value_off,}}',
                 'implFrom<BinaryColor>forRawU1{fnfrom(color:BinaryColor)->Self{RawU1::new(color.map_color(0,1))}}']:
        if need not in binc:
            die('binary_color.rs: ' + need)
    bin_raw = {'Off': 0, 'On': 1}

    # ------------------------------------------------------------------ color_mapping.rs
    cm = squash(strip(read('src/mock_display/color_mapping.rs')))
    maps = []      # (type name, c2col [(ch, raw)], col2c [(raw, ch)], default or None, number of raw values)
    consumed = []  # spans understood

    def take(regex, what):
        mm = re.search(regex, cm)
        if not mm:
            die('color_mapping.rs: ' + what)
        consumed.append(mm.span())
        return mm

    CH = r"'([^'\\])'"
    # -- BinaryColor
    mm = take(r"implColorMappingforBinaryColor\{fnchar_to_color\(c:char\)->Self\{matchc\{((?:" + CH + r"=>BinaryColor::\w+,)+)"
              r"_=>panic!\(\"Invalidcharinpattern:'\{\}'\",c\),\}\}"
              r"fncolor_to_char\(color:Self\)->char\{matchcolor\{((?:BinaryColor::\w+=>" + CH + r",)+)\}\}\}", 'impl for BinaryColor')
    fw = [(ord(c), bin_raw.get(n)) for c, n in re.findall(CH + r'=>BinaryColor::(\w+),', mm.group(1))]
    bw = [(bin_raw.get(n), ord(c)) for n, c in re.findall(r'BinaryColor::(\w+)=>' + CH + ',', mm.group(3))]
    if any(v is None for _, v in fw) or any(v is None for v, _ in bw):
        die('unknown BinaryColor variant')
    if sorted(v for v, _ in bw) != [0, 1]:
        die('BinaryColor color_to_char is not a total match')
    maps.append(('BinaryColor', fw, bw, None, 2))

    # -- gray macro
    mm = take(r"macro_rules!impl_gray_color_mapping\{\(\$type:ident,\$radix:expr\)=>\{implColorMappingfor\$type\{"
              r"constNONE_COLOR:Rgb888=Rgb888::CSS_STEEL_BLUE;"
              r"fnchar_to_color\(c:char\)->Self\{ifletSome\(digit\)=c\.to_digit\(\$radix\)\{Self::new\(digitasu8\)\}"
              r"else\{panic!\(\"invalidcharinpattern:'\{\}'\",c\)\}\}"
              r"fncolor_to_char\(color:Self\)->char\{core::char::from_digit\(color\.luma\(\)asu32,\$radix\)\.unwrap\(\)\.to_ascii_uppercase\(\)\}"
              r"\}\};\}", 'macro impl_gray_color_mapping')
    for g in re.finditer(r'impl_gray_color_mapping!\((\w+),([0-9_xXa-fA-F]+)\);', cm):
        consumed.append(g.span())
        t, radix = g.group(1), lit(g.group(2))
        if t not in gray_bits:
            die('no gray_color! row for ' + t)
        if not 2 <= radix <= 36:
            die('radix')   # to_digit panics
        mask = (1 << gray_bits[t]) - 1
        fw = [(ch, to_digit(ch, radix) & mask) for ch in range(128) if to_digit(ch, radix) is not None]
        bw = [(v, from_digit_upper(v, radix)) for v in range(mask + 1) if from_digit_upper(v, radix) is not None]
        maps.append((t, fw, bw, None, mask + 1))   # default None: from_digit(..).unwrap() panics

    # -- Gray8
    mm = take(r"implColorMappingforGray8\{constNONE_COLOR:Rgb888=Rgb888::CSS_STEEL_BLUE;"
              r"fnchar_to_color\(c:char\)->Self\{ifletSome\(digit\)=c\.to_digit\((\w+)\)\{Self::new\(digitasu8\*(\w+)\)\}"
              r"else\{panic!\(\"invalidcharinpattern:'\{\}'\",c\);\}\}"
              r"fncolor_to_char\(color:Self\)->char\{letluma=color\.luma\(\);letlower=luma&(\w+);letupper=luma>>(\w+);"
              r"iflower!=upper\{" + CH + r"\}else\{core::char::from_digit\(loweras(?:u32),(\w+)\)\.unwrap\(\)\.to_ascii_uppercase\(\)\}\}\}",
              'impl for Gray8')
    radix, mult, mask8, shift8, dflt, radix2 = lit(mm.group(1)), lit(mm.group(2)), lit(mm.group(3)), lit(mm.group(4)), ord(mm.group(5)), lit(mm.group(6))
    if gray_bits.get('Gray8') != 8:
        die('Gray8 is not 8 bit')
    fw = []
    for ch in range(128):
        d = to_digit(ch, radix) if 2 <= radix <= 36 else die('radix')
        if d is not None:
            if d * mult > 255:
                die('Gray8::char_to_color overflows u8 for digit %d' % d)
            fw.append((ch, d * mult))
    bw = []
    for v in range(256):
        lo, up = v & mask8, v >> shift8
        if lo == up:
            c = from_digit_upper(lo, radix2)
            if c is None:
                die('Gray8::color_to_char unwrap() on None for luma %d' % v)
            bw.append((v, c))
    maps.append(('Gray8', fw, bw, dflt, 256))

    # -- rgb macro
    mm = take(r"macro_rules!impl_rgb_color_mapping\{\(\$type:ident\)=>\{implColorMappingfor\$type\{"
              r"fnchar_to_color\(c:char\)->Self\{matchc\{((?:" + CH + r"=>Self::\w+,)+)_=>panic!\(\"Invalidcharinpattern:'\{\}'\",c\),\}\}"
              r"fncolor_to_char\(color:Self\)->char\{matchcolor\{((?:Self::\w+=>" + CH + r",)+)_=>" + CH + r",\}\}"
              r"\}\};\}", 'macro impl_rgb_color_mapping')
    fwn = re.findall(CH + r'=>Self::(\w+),', mm.group(1))
    bwn = re.findall(r'Self::(\w+)=>' + CH + ',', mm.group(3))
    rgb_default = ord(mm.group(5))
    n_rgb = 0
    for g in re.finditer(r'impl_rgb_color_mapping!\((\w+)\);', cm):
        consumed.append(g.span())
        t = g.group(1)
        n_rgb += 1
        fw = [(ord(c), rgb_raw(t, n)) for c, n in fwn]
        # a Rust match takes the FIRST matching arm; keep the order, lookups in the model take the first hit too
        bw = [(rgb_raw(t, n), ord(c)) for n, c in bwn]
        bits = rgb_types[t][0]
        maps.append((t, fw, bw, rgb_default, 1 << sum(bits)))
    if n_rgb == 0:
        die('no impl_rgb_color_mapping! invocation')

    # nothing else (besides the use/trait header) may implement ColorMapping
    n_impl = len(re.findall(r'implColorMappingfor', cm))
    if n_impl != 4:   # BinaryColor, $type (gray macro), Gray8, $type (rgb macro)
        die('%d `impl ColorMapping for` blocks, expected 4' % n_impl)
    # everything after the trait definition must have been consumed
    k = cm.find('implColorMappingforBinaryColor')
    rest = list(cm[k:])
    for a, b in consumed:
        for j in range(max(a, k), b):
            rest[j - k] = ''
    rest = ''.join(rest)
    if rest:
        die('text not understood in color_mapping.rs: ' + rest[:200])
    for t, fw, bw, d, n in maps:
        if len(set(c for c, _ in fw)) != len(fw):
            die('duplicate char in char_to_color of ' + t)
        if any(c == 32 for c, _ in fw):
            pass  # ' ' is intercepted by from_pattern before char_to_color; harmless

    # ------------------------------------------------------------------ write
    def pairs(l):
        return '[' + '; '.join('(%d, %d)' % p for p in l) + ']'
    o = []
    o.append('(* GENERATED by translate/gen_mock.py from src/mock_display/{mod,color_mapping}.rs and core/src/pixelcolor/*.rs. DO NOT EDIT. *)')
    o.append('From Coq Require Import ZArith List.')
    o.append('Import ListNotations.')
    o.append('Open Scope Z_scope.')
    o.append('')
    o.append('(* mod.rs: const SIZE: usize *)')
    o.append('Definition SIZE : Z := %d.' % size)
    o.append('(* mod.rs: `impl DrawTarget for MockDisplay` defines draw_iter and nothing else (checked by the translator, which refuses any other shape) *)')
    o.append('Definition DRAWTARGET_ONLY_DRAW_ITER : bool := true.')
    o.append('(* mod.rs MockDisplay::diff: raw values of the Rgb888 colours for (only self, only other, both but different) *)')
    o.append('Definition DIFF_ONLY_SELF : Z := %d.  (* Rgb888::%s *)' % (rgb_raw('Rgb888', diff_names[0]), diff_names[0]))
    o.append('Definition DIFF_ONLY_OTHER : Z := %d.  (* Rgb888::%s *)' % (rgb_raw('Rgb888', diff_names[1]), diff_names[1]))
    o.append('Definition DIFF_DIFFERENT : Z := %d.  (* Rgb888::%s *)' % (rgb_raw('Rgb888', diff_names[2]), diff_names[2]))
    o.append('')
    o.append('(* One ColorMapping implementation: char_to_color as (char code, raw colour) pairs (any other char panics),')
    o.append('   color_to_char as (raw colour, char code) pairs in match order, its default arm (None = the code panics there),')
    o.append('   and the number of raw values of the colour type (2^bits). *)')
    o.append('Record mapping := Mapping { m_c2col : list (Z * Z); m_col2c : list (Z * Z); m_default : option Z; m_nvalues : Z }.')
    o.append('')
    for t, fw, bw, d, n in maps:
        o.append('Definition map_%s : mapping :=' % t)
        o.append('  Mapping %s' % pairs(fw))
        o.append('          %s' % pairs(bw))
        o.append('          %s %d.' % ('None' if d is None else '(Some %d)' % d, n))
    o.append('')
    o.append('Definition all_mappings : list mapping := [%s].' % '; '.join('map_' + t for t, *_ in maps))
    txt = '\n'.join(o) + '\n'
    os.makedirs(os.path.dirname(OUT), exist_ok=True)
    if not os.path.exists(OUT) or open(OUT).read() != txt:
        open(OUT, 'w').write(txt)


main()
