#!/usr/bin/env python3
"""gen_r2c.py - hook for `check` / `setup.sh` (which run every translate/gen_*.py): runs translate/r2c/run.sh,
the expression-level Rust -> Gallina translator (coq/Gen/Src*.v), against the tree under test (EG_REPO).
Exit status and messages are those of the translator (non-zero = fail closed, see translate/r2c/README.md)."""
import os, subprocess, sys
here = os.path.dirname(os.path.abspath(__file__))
p = subprocess.run(['sh', os.path.join(here, 'r2c', 'run.sh')], stdout=subprocess.PIPE, stderr=subprocess.STDOUT, text=True)
sys.stdout.write(p.stdout)
sys.exit(p.returncode)
