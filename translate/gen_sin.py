#!/usr/bin/env python3
"""gen_sin.py - regenerates coq/Gen/SinTable.v from the tree under test (EG_REPO, default /repo).

Writes, for the `fixed_point` feature set of the trigonometry behind PlaneSector::new:
  * the 91 I16F16 bit patterns of the table `SIN` in src/geometry/angle.rs (fixed_point impl of Trigonometry),
  * the bit patterns of FRAC_PI_2 / PI / TAU of the fixed_point `real_impl` in src/geometry/real.rs,
  * NORMAL_VECTOR_SCALE of src/primitives/common/linear_equation.rs,
  * the I16F16 bit pattern of `Angle::from_degrees(180.0)` (special case of OriginLinearEquation::with_angle),
    computed by emulating the f32 arithmetic `180.0 * PI / 180.0` and `I16F16::from_num` (round to nearest).
The bodies of `sin`, `cos` (fixed_point) and of `with_angle` are compared, comments and the table literals stripped
and whitespace removed, against the shape the Coq model coq/Model/Trigfixed.v was written from; any difference
-> exit 1 (fail closed), the model must then be re-read against the source.
"""
import os, re, struct, sys

REPO = os.environ.get('EG_REPO', '/repo')
HERE = os.path.dirname(os.path.abspath(__file__))
OUT = os.path.join(HERE, '..', 'coq', 'Gen', 'SinTable.v')


def die(msg):
    print('gen_sin.py: unexpected source shape: ' + msg)
    sys.exit(1)


def read(rel):
    p = os.path.join(REPO, rel)
    if not os.path.exists(p):
        die('missing file ' + rel)
    return open(p, encoding='utf-8').read()


def nocomment(src):
    src = re.sub(r'/\*.*?\*/', '', src, flags=re.S)
    return re.sub(r'//[^\n]*', '', src)


def squash(s):
    s = re.sub(r'\s+', '', s)
    return s.replace(',)', ')').replace(',}', '}')


def f32(x):
    return struct.unpack('<f', struct.pack('<f', x))[0]


angle = nocomment(read('src/geometry/angle.rs'))
k = angle.find('#[cfg(feature = "fixed_point")]\nimpl Trigonometry for Angle')
if k < 0:
    die('fixed_point impl of Trigonometry not found in angle.rs')
e = angle.find('\nimpl Add for Angle', k)
if e < 0:
    die('end of the fixed_point Trigonometry impl not found')
body = angle[k:e]
m = re.search(r'const SIN: \[I16F16; (\d+)\] = \[(.*?)\];', body, re.S)
if not m or m.group(1) != '91':
    die('table SIN: [I16F16; 91] not found')
entries = re.findall(r'I16F16::from_bits\((-?\d+)\)', m.group(2))
if squash(re.sub(r'I16F16::from_bits\(-?\d+\),?', '', m.group(2))) != '' or len(entries) != 91:
    die('table SIN has %d recognisable entries / foreign tokens' % len(entries))
table = [int(x) for x in entries]
shape = squash(body[:m.start()] + 'TABLE' + body[m.end():])
WANT = squash('''#[cfg(feature = "fixed_point")]
impl Trigonometry for Angle {
    fn sin(self) -> Real {
        use fixed::types::I16F16;
        TABLE
        let degree: i32 = (Real::from(180) * self.0 / real::PI).round().into();
        let degree = degree.rem_euclid(360) as usize;
        let sin = if degree <= 90 { SIN[degree] } else if degree <= 180 { SIN[180 - degree] }
                  else if degree <= 270 { -SIN[degree - 180] } else { -SIN[360 - degree] };
        sin.into()
    }
    fn cos(self) -> Real { (self + angle_consts::ANGLE_90DEG).sin() }
    fn tan(self) -> Option<Real> {
        let cos = self.cos();
        if cos != Real::zero() { Some(self.sin() / cos) } else { None }
    }
}''')
if shape != WANT:
    die('fixed_point sin/cos body differs from the modelled shape')
if squash('pub(crate) const ANGLE_90DEG: Angle = Angle(real::FRAC_PI_2); pub(crate) const ANGLE_180DEG: Angle = Angle(real::PI); '
          'pub(crate) const ANGLE_360DEG: Angle = Angle(real::TAU);') not in squash(angle):
    die('angle_consts')
if squash('pub fn from_degrees(angle: f32) -> Self { Angle((angle * PI / 180.0).into()) }') not in squash(angle):
    die('Angle::from_degrees')

real = nocomment(read('src/geometry/real.rs'))
k = real.find('#[cfg(feature = "fixed_point")]\nmod real_impl')
if k < 0:
    die('fixed_point real_impl not found')
consts = {}
for name in ('FRAC_PI_2', 'PI', 'TAU'):
    mm = re.search(r'pub\(crate\) const %s: Real = Real\(I16F16::from_bits\((\d+)\)\);' % name, real[k:])
    if not mm:
        die('constant ' + name)
    consts[name] = int(mm.group(1))
for frag in ('impl From<i32> for Real { fn from(src: i32) -> Self { Self(I16F16::from_num(src)) } }',
             'impl From<Real> for i32 { fn from(src: Real) -> Self { src.0.round_to_zero().to_num::<i32>() } }',
             'impl From<f32> for Real { fn from(src: f32) -> Self { Self(I16F16::from_num(src)) } }',
             'pub(crate) fn round(self) -> Self { Self(self.0.round()) }',
             'pub(crate) fn abs(self) -> Self { Self(self.0.abs()) }',
             'fn mul(self, other: Real) -> Real { Self(self.0 * other.0) }',
             'fn div(self, other: Real) -> Real { Self(self.0 / other.0) }',
             'fn add(self, other: Real) -> Real { Self(self.0 + other.0) }'):
    if squash(frag) not in squash(real):
        die('real.rs: ' + frag)

le = nocomment(read('src/primitives/common/linear_equation.rs'))
mm = re.search(r'pub const NORMAL_VECTOR_SCALE: i32 = 1 << (\d+);', le)
if not mm:
    die('NORMAL_VECTOR_SCALE')
scale = 1 << int(mm.group(1))
if squash('''pub fn with_angle(angle: Angle) -> Self {
        let normal_vector = if angle == Angle::from_degrees(180.0) { Point::new(0, -NORMAL_VECTOR_SCALE) } else {
            Point::new(i32::from(angle.cos() * Real::from(NORMAL_VECTOR_SCALE)), i32::from(angle.sin() * Real::from(NORMAL_VECTOR_SCALE))).rotate_90() };
        Self { normal_vector } }''') not in squash(le):
    die('OriginLinearEquation::with_angle')

ps = nocomment(read('src/primitives/common/plane_sector.rs'))
if squash('''pub fn new(mut angle_start: Angle, angle_sweep: Angle) -> Self {
        let angle_sweep_abs = angle_sweep.abs();
        let operation = if angle_sweep_abs >= ANGLE_360DEG {
            return Self { half_plane_left: OriginLinearEquation::new_horizontal(), half_plane_right: OriginLinearEquation::new_horizontal(), operation: Operation::EntirePlane, };
        } else if angle_sweep_abs >= ANGLE_180DEG { Operation::Union } else { Operation::Intersection };
        let mut angle_end = angle_start + angle_sweep;
        if angle_sweep < Angle::zero() { core::mem::swap(&mut angle_start, &mut angle_end) }
        Self { half_plane_right: OriginLinearEquation::with_angle(angle_start), half_plane_left: OriginLinearEquation::with_angle(angle_end), operation, } }''') not in squash(ps):
    die('PlaneSector::new')

# Angle::from_degrees(180.0) in the fixed_point build: f32 arithmetic, then I16F16::from_num (round to nearest)
pi32 = f32(3.14159265358979323846)
v = f32(f32(f32(180.0) * pi32) / f32(180.0))
x = v * 65536.0
a180 = int(x // 1)
if x - a180 > 0.5 or (x - a180 == 0.5 and a180 % 2 == 1):
    a180 += 1
if abs((x - int(x // 1)) - 0.5) < 1e-3:
    die('from_degrees(180.0) too close to a rounding tie to emulate')

txt = '(* GENERATED by translate/gen_sin.py from %s - do not edit *)\n' % 'src/geometry/{angle,real}.rs, src/primitives/common/linear_equation.rs'
txt += 'From Coq Require Import ZArith List.\nImport ListNotations.\nOpen Scope Z_scope.\n\n'
txt += '(* angle.rs, fixed_point Trigonometry::sin: SIN[d] = I16F16 bits of sin(d degrees), d = 0..90 *)\n'
txt += 'Definition sin_table : list Z :=\n  [' + ';\n   '.join('; '.join(str(t) for t in table[i:i + 10]) for i in range(0, 91, 10)) + '].\n\n'
txt += '(* real.rs, fixed_point real_impl *)\n'
txt += 'Definition frac_pi_2_bits : Z := %d.\nDefinition pi_bits : Z := %d.\nDefinition tau_bits : Z := %d.\n\n' % (consts['FRAC_PI_2'], consts['PI'], consts['TAU'])
txt += '(* linear_equation.rs *)\nDefinition normal_vector_scale : Z := %d.\n\n' % scale
txt += '(* I16F16 bits of Angle::from_degrees(180.0) (f32: 180.0 * PI / 180.0, then from_num) *)\nDefinition angle_180deg_bits : Z := %d.\n' % a180
os.makedirs(os.path.dirname(OUT), exist_ok=True)
if not os.path.exists(OUT) or open(OUT).read() != txt:
    open(OUT, 'w').write(txt)
