#!/usr/bin/env python3
"""coverage.py - every generated definition must be tied by a theorem (run by translate/r2c/run.sh after the translator).

A generated `src_*` definition (coq/Gen/Src*.v) is COVERED when its name occurs in a Theorem / Lemma / Corollary (statement or
proof, not in an Example and not in a comment) of some coq/Properties/*_src*.v, or when it is used in the body of a covered
definition (another generated definition, or a Definition / Fixpoint of coq/Proofs/Src*.v such as an iterator driver).  A
definition that is not covered can change with the source without any theorem noticing (audit3: E1, E5).  Uncovered definitions
must be listed, with a reason, in translate/r2c/unreferenced_allow.txt (`name<spaces>reason`); the run FAILS (exit 4) when
  - an uncovered definition is not in the allow-list, or
  - the allow-list names a definition that is covered or does not exist any more (stale entries hide nothing, but rot).
Also: every configuration line of functions.txt with semantic weight (mtype / extern / tyvar / assoc / fuel / tymap lines, fn lines
with inst= / needs=) must be listed verbatim ("functions.txt glue: <line>") under TRUSTED in some props/*_src.py, and every such
entry must still be a line of functions.txt.
usage: coverage.py [<verif root>]      prints one summary line; `--list` prints the uncovered names."""
import glob, os, re, sys
HERE = os.path.dirname(os.path.abspath(__file__))
args = [a for a in sys.argv[1:] if not a.startswith('--')]
V = os.path.abspath(args[0]) if args else os.path.abspath(os.path.join(HERE, '..', '..'))

def strip_comments(s):
    out, depth, i = [], 0, 0
    while i < len(s):
        if s.startswith('(*', i):
            depth += 1; i += 2
        elif s.startswith('*)', i) and depth:
            depth -= 1; i += 2
        else:
            if not depth:
                out.append(s[i])
            i += 1
    return ''.join(out)

WORD = re.compile(r"[A-Za-z_][A-Za-z0-9_']*")
HEAD = re.compile(r'^(Definition|Fixpoint|Theorem|Lemma|Corollary|Example|Record|Inductive|Instance|Ltac|Section|End|From|Set|#\[)', re.M)

def blocks(text):
    """(kind, name, body) of the top-level sentences that start a definition-like block"""
    ms = list(HEAD.finditer(text))
    for i, m in enumerate(ms):
        end = ms[i + 1].start() if i + 1 < len(ms) else len(text)
        body = text[m.start():end]
        nm = re.match(r'\S+\s+([A-Za-z_][A-Za-z0-9_\']*)', body)
        yield m.group(1), (nm.group(1) if nm else ''), body

modules = re.findall(r'^module[ \t]+([A-Za-z0-9_]+)', open(os.path.join(HERE, 'functions.txt')).read(), re.M)
gen, uses = {}, {}
for m in modules:
    p = os.path.join(V, 'coq', 'Gen', m + '.v')
    if not os.path.exists(p):
        continue
    for kind, name, body in blocks(strip_comments(open(p).read())):
        if kind in ('Definition', 'Fixpoint') and name.startswith('src_'):
            gen[name] = m
            uses[name] = set(WORD.findall(body)) - {name}
            # mutual / nested `with` fixpoints
            for extra in re.findall(r'\nwith\s+(src_[A-Za-z0-9_\']*)', body):
                gen[extra] = m; uses[extra] = uses[name]
for p in sorted(glob.glob(os.path.join(V, 'coq', 'Proofs', 'Src*.v'))):
    for kind, name, body in blocks(strip_comments(open(p).read())):
        if kind in ('Definition', 'Fixpoint') and name and name not in gen:
            uses.setdefault(name, set()).update(set(WORD.findall(body)) - {name})
roots = set()
for p in sorted(glob.glob(os.path.join(V, 'coq', 'Properties', '*_src*.v'))):
    for kind, name, body in blocks(strip_comments(open(p).read())):
        if kind in ('Theorem', 'Lemma', 'Corollary'):
            roots.update(WORD.findall(body))
covered, todo = set(), [r for r in roots if r in uses]
while todo:
    n = todo.pop()
    if n in covered:
        continue
    covered.add(n)
    todo.extend(u for u in uses.get(n, ()) if u in uses and u not in covered)
uncovered = sorted(n for n in gen if n not in covered)
allow = {}
ap = os.path.join(HERE, 'unreferenced_allow.txt')
if os.path.exists(ap):
    for l in open(ap):
        l = l.strip()
        if l and not l.startswith('#'):
            k = l.split(None, 1)
            allow[k[0]] = k[1] if len(k) > 1 else ''
if '--list' in sys.argv:
    for n in uncovered:
        print('%-60s %s' % (n, gen[n]))
bad = [n for n in uncovered if n not in allow]
noreason = [n for n in allow if not allow[n]]
stale = [n for n in allow if n not in gen or n in covered]
print('r2c coverage: %d generated definitions, %d tied by a theorem of Properties/*_src*.v, %d allow-listed, %d UNREFERENCED, %d stale allow-list entries'
      % (len(gen), len(gen) - len(uncovered), len([n for n in uncovered if n in allow]), len(bad), len(stale)))
for n in bad:
    print('r2c coverage: %s (%s) is referenced by no theorem and is not in translate/r2c/unreferenced_allow.txt' % (n, gen[n]))
for n in stale:
    print('r2c coverage: allow-list entry %s is stale (%s)' % (n, 'covered by a theorem' if n in gen else 'no such definition'))
for n in noreason:
    print('r2c coverage: allow-list entry %s has no reason' % n)
# ---- trusted glue: every configuration line with semantic weight must be listed verbatim under TRUSTED in some props/*_src.py
def is_glue(l):
    return bool(re.match(r'^(mtype|extern|tyvar|assoc|fuel|tymap)\b', l)) or (l.startswith('fn ') and (' inst=' in l or ' needs=' in l))
cfg_lines = [l.rstrip('\n') for l in open(os.path.join(HERE, 'functions.txt'))]
glue = [l for l in cfg_lines if is_glue(l)]
listed = set()
for p in sorted(glob.glob(os.path.join(V, 'props', '*_src.py'))):
    ns = {}
    try:
        exec(compile(open(p).read(), p, 'exec'), ns)
    except Exception as e:
        print('r2c coverage: %s does not load: %s' % (p, e)); sys.exit(4)
    for t in ns.get('TRUSTED', []):
        if t.startswith('functions.txt glue: '):
            listed.add((os.path.basename(p), t[len('functions.txt glue: '):]))
unlisted = [l for l in glue if not any(g == l for _, g in listed)]
gone = [(f, g) for f, g in sorted(listed) if g not in cfg_lines]
print('r2c coverage: %d glue lines in functions.txt, %d not listed under TRUSTED in any props/*_src.py, %d stale TRUSTED entries' % (len(glue), len(unlisted), len(gone)))
for l in unlisted:
    print('r2c coverage: glue line not listed under TRUSTED in any props/*_src.py: %s' % l)
for f, g in gone:
    print('r2c coverage: props/%s lists a glue line that is not in functions.txt any more: %s' % (f, g))
sys.exit(4 if bad or stale or noreason or unlisted or gone else 0)
