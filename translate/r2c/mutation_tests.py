#!/usr/bin/env python3
"""Mutation tests of the translator tie (translate/r2c).  For every entry: a scratch worktree of /repo is created,
one arithmetic detail of one translated function is changed, the translator is re-run against it, the equivalence
proofs are re-made (to name the first lemma that no longer compiles) and `./check <property>` is run with EG_REPO
pointing at the scratch tree.  Results go to stdout as a markdown table (copied into README.md).
usage: python3 translate/r2c/mutation_tests.py [ids...]"""
import os, re, subprocess, sys, time
V = os.path.dirname(os.path.dirname(os.path.dirname(os.path.abspath(__file__))))
S = '/tmp/scratch-r2c'
MUTS = [
 # id, property, file, old, new, kind, what
 ('M1', 'C16', 'core/src/primitives/rectangle/mod.rs', 'Some(self.top_left + self.size - Point::new(1, 1))', 'Some(self.top_left + self.size - Point::new(1, 0))', 'break', 'bottom_right: off-by-one in y'),
 ('M2', 'C16', 'core/src/primitives/rectangle/mod.rs', '.is_some_and(|bottom_right| point.x <= bottom_right.x && point.y <= bottom_right.y)', '.is_some_and(|bottom_right| point.x < bottom_right.x && point.y <= bottom_right.y)', 'break', 'contains: `<=` -> `<`'),
 ('M3', 'C16', 'core/src/geometry/size.rs', 'width: self.width.saturating_sub(other.width),', 'width: self.width - other.width,', 'break', 'Size::saturating_sub: dropped saturating_'),
 ('M4', 'C13', 'core/src/pixelcolor/conversion.rs', 'g * 150', 'g * 151', 'break', 'luma: literal 150 -> 151'),
 ('M5', 'C05', 'src/primitives/circle/mod.rs', 'if diameter <= 4 {', 'if diameter <= 2 {', 'break', 'diameter_to_threshold: literal 4 -> 2'),
 ('M6', 'C07', 'src/primitives/common/linear_equation.rs', '        point.dot_product(self.normal_vector) - self.origin_distance\n    }\n\n    /// Checks if a point is on the given side of the line.\n    ///\n    /// Always returns `true` if the point is on the line.\n    pub fn check_side(&self, point: Point, side: LineSide) -> bool {\n        let distance = self.distance(point);\n\n        match side {\n            LineSide::Left => distance <= 0,\n            LineSide::Right => distance >= 0,\n        }\n    }\n}\n\n/// Linear equation with zero distance to the origin.', None, 'break', 'LinearEquation::distance: swapped operands of `-`'),
 ('M7', 'C17', 'src/primitives/line/bresenham.rs', None, None, 'break', 'Bresenham::next: `>` -> `>=`'),
 ('M8', 'C09', 'src/image/image_raw.rs', '(width as usize * bits_per_pixel + 7) / 8', '(width as usize * bits_per_pixel + 8) / 8', 'break', 'bytes_per_row: literal 7 -> 8'),
 ('M9', 'C07', 'src/primitives/line/intersection_params.rs', '(numerator + denominator / 2)\n                .div_euclid(denominator)', '((numerator + denominator / 2)\n                / denominator)', 'break', 'round_div closure: div_euclid -> `/` (Z.div vs Z.quot: differs for negative numerators)'),
 ('M10', 'C19', 'src/primitives/triangle/mod.rs', 'if p1.y < p2.y || (p1.y == p2.y && p1.x < p2.x) {', 'if p1.y < p2.y || (p1.y == p2.y && p1.x <= p2.x) {', 'break', 'sort_two_yx: `<` -> `<=` (EQUIVALENT up to the order of two equal points)'),
 ('M11', 'C05', 'src/primitives/rounded_rectangle/corner_radii.rs', 'if radii > side\n', 'if radii >= side\n', 'break', 'CornerRadii::confine: `>` -> `>=` inside the unrolled loop'),
 ('M12', 'C07', 'src/primitives/common/scanline.rs', '} else if x >= self.x.end {\n            self.x.end = x + 1;', '} else if x >= self.x.end {\n            self.x.end = x;', 'break', 'Scanline::extend: off-by-one in the new end'),
 ('F1', 'C19', 'src/primitives/triangle/mod.rs', 'let (y1, y2) = sort_two_yx(p1, p2);\n        let (y1, y3) = sort_two_yx(p3, y1);', 'let (mut y1, y2) = sort_two_yx(p1, p2);\n        while y1.y > 1000 { y1.y -= 1; }\n        let (y1, y3) = sort_two_yx(p3, y1);', 'break', 'sorted_yx: a `while` loop is introduced (outside the subset: translator must fail closed)'),
 ('P1', 'C16', 'core/src/primitives/rectangle/mod.rs', 'let left = min(corner_1.x, corner_2.x);\n        let top = min(corner_1.y, corner_2.y);\n\n        Rectangle {\n            top_left: Point::new(left, top),', 'let top_edge = min(corner_1.y, corner_2.y);\n        let left_edge = min(corner_1.x, corner_2.x);\n\n        Rectangle {\n            top_left: Point::new(left_edge, top_edge),', 'preserve', 'with_corners: locals renamed and the two independent lets reordered'),
 ('P2', 'C05', 'src/primitives/ellipse/mod.rs', 'let a = (width as u64).pow(2);\n        let b = (height as u64).pow(2);', 'let b = (height as u64).pow(2);\n        let a = (width as u64).pow(2);', 'preserve', 'EllipseContains::new: independent lets reordered'),
 ('P3', 'C07', 'src/primitives/common/linear_equation.rs', 'let normal_vector = line.delta().rotate_90();\n        let origin_distance = line.start.dot_product(normal_vector);\n\n        Self {\n            normal_vector,\n            origin_distance,\n        }', 'let n = line.delta().rotate_90();\n        let d = line.start.dot_product(n);\n\n        Self {\n            normal_vector: n,\n            origin_distance: d,\n        }', 'preserve', 'LinearEquation::from_line: locals renamed'),
]


def sh(cmd, env=None, timeout=3600):
    p = subprocess.run(cmd, shell=True, cwd=V, env=dict(os.environ, **(env or {})), stdout=subprocess.PIPE, stderr=subprocess.STDOUT, text=True, timeout=timeout)
    return p.returncode, p.stdout


def special(mid, txt):
    if mid == 'M6':
        return txt.replace('point.dot_product(self.normal_vector) - self.origin_distance\n    }\n\n    /// Checks if a point is on the given side of the line.',
                           'self.origin_distance - point.dot_product(self.normal_vector)\n    }\n\n    /// Checks if a point is on the given side of the line.', 1)
    if mid == 'M7':
        i = txt.index('pub fn next(&mut self, parameters: &BresenhamParameters) -> Point {')
        j = txt.index('if self.error > parameters.error_threshold {', i)
        return txt[:j] + 'if self.error >= parameters.error_threshold {' + txt[j + len('if self.error > parameters.error_threshold {'):]
    return None


def first_failing_lemma(out):
    m = re.search(r'File "\./((?:Proofs|Properties|Gen)/[\w]+\.v)", line (\d+)', out)
    if not m:
        return None
    f, ln = m.group(1), int(m.group(2))
    name = None
    for i, l in enumerate(open(os.path.join(V, 'coq', f)), 1):
        if i > ln:
            break
        mm = re.match(r'\s*(?:Lemma|Theorem|Example|Definition)\s+(\w+)', l)
        if mm:
            name = mm.group(1)
    return '%s:%d %s' % (f, ln, name)


def main():
    want = sys.argv[1:]
    rows = []
    for mid, prop, f, old, new, kind, what in MUTS:
        if want and mid not in want:
            continue
        sh('git -C /repo worktree remove --force %s; git -C /repo worktree prune' % S)
        rc, o = sh('git -C /repo worktree add --detach %s HEAD' % S)
        assert rc == 0, o
        p = os.path.join(S, f)
        txt = open(p).read()
        t2 = special(mid, txt)
        if t2 is None:
            assert txt.count(old) == 1, (mid, txt.count(old))
            t2 = txt.replace(old, new)
        assert t2 != txt, mid
        open(p, 'w').write(t2)
        env = {'EG_REPO': S}
        rc, o = sh('sh translate/r2c/run.sh', env)
        changed = re.findall(r'Gen/(\w+)\.v written', o)
        trc = rc
        sh('sh tools/gen_coqproject.sh')
        rc, o = sh('timeout 1500 make -k -j4 -C coq $(cd coq && ls Properties/*_src*.v | sed s/\\.v$/.vo/)')
        lemma = first_failing_lemma(o) if rc != 0 else None
        t0 = time.time()
        rc, o = sh('timeout 3000 ./check %s' % prop, env)
        viol = [l for l in o.splitlines() if l.startswith('VIOLATION')]
        oks = [l for l in o.splitlines() if l.startswith('OK ')]
        with_input = [v for v in viol if 'no-failing-input-found' not in v]
        first = ''
        m = re.search(r'replay=(\S+)', with_input[0]) if with_input else None
        if m:
            import json
            try:
                first = json.load(open(os.path.join(V, m.group(1)))).get('input', '')
            except Exception:
                first = ''
        verdict = ('VIOLATION x%d (%s)' % (len(viol), 'failing input: `%s`' % first if with_input else 'no failing input found by p_* search')) if viol else (oks[0] if oks else 'rc=%d' % rc)
        rows.append((mid, prop, what, kind, 'translator rc=%d; changed: %s' % (trc, ','.join(changed) or 'none'), lemma or 'all equivalence proofs still compile', verdict, '%.0fs' % (time.time() - t0)))
        print('| ' + ' | '.join(rows[-1]) + ' |', flush=True)
        sh('git -C /repo worktree remove --force %s; git -C /repo worktree prune' % S)
    sh('sh translate/r2c/run.sh')   # back to /repo
    sh('timeout 1500 make -j4 -C coq $(cd coq && ls Properties/*_src*.v | sed s/\\.v$/.vo/)')


main()
