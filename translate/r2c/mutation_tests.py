#!/usr/bin/env python3
"""Mutation tests of the translator tie (translate/r2c).  For every entry: a scratch worktree of /repo is created,
one arithmetic detail of one translated function is changed, the translator is re-run against it, the equivalence
proofs are re-made (to name the first lemma that no longer compiles) and `./check <property>` is run with EG_REPO
pointing at the scratch tree.  Results go to stdout as a markdown table (copied into README.md).
usage: python3 translate/r2c/mutation_tests.py [ids...]"""
import os, re, subprocess, sys, time
V = os.path.dirname(os.path.dirname(os.path.dirname(os.path.abspath(__file__))))
S = '/tmp/scratch-r2c'
MUTS = [
 # id, property, file, old, new, kind, what
 ('M1', 'C16', 'core/src/primitives/rectangle/mod.rs', 'Some(self.top_left + self.size - Point::new(1, 1))', 'Some(self.top_left + self.size - Point::new(1, 0))', 'break', 'bottom_right: off-by-one in y'),
 ('M2', 'C16', 'core/src/primitives/rectangle/mod.rs', '.is_some_and(|bottom_right| point.x <= bottom_right.x && point.y <= bottom_right.y)', '.is_some_and(|bottom_right| point.x < bottom_right.x && point.y <= bottom_right.y)', 'break', 'contains: `<=` -> `<`'),
 ('M3', 'C16', 'core/src/geometry/size.rs', 'width: self.width.saturating_sub(other.width),', 'width: self.width - other.width,', 'break', 'Size::saturating_sub: dropped saturating_'),
 ('M4', 'C13', 'core/src/pixelcolor/conversion.rs', 'g * 150', 'g * 151', 'break', 'luma: literal 150 -> 151'),
 ('M5', 'C05', 'src/primitives/circle/mod.rs', 'if diameter <= 4 {', 'if diameter <= 2 {', 'break', 'diameter_to_threshold: literal 4 -> 2'),
 ('M6', 'C07', 'src/primitives/common/linear_equation.rs', '        point.dot_product(self.normal_vector) - self.origin_distance\n    }\n\n    /// Checks if a point is on the given side of the line.\n    ///\n    /// Always returns `true` if the point is on the line.\n    pub fn check_side(&self, point: Point, side: LineSide) -> bool {\n        let distance = self.distance(point);\n\n        match side {\n            LineSide::Left => distance <= 0,\n            LineSide::Right => distance >= 0,\n        }\n    }\n}\n\n/// Linear equation with zero distance to the origin.', None, 'break', 'LinearEquation::distance: swapped operands of `-`'),
 ('M7', 'C17', 'src/primitives/line/bresenham.rs', None, None, 'break', 'Bresenham::next: `>` -> `>=`'),
 ('M8', 'C09', 'src/image/image_raw.rs', '(width as usize * bits_per_pixel + 7) / 8', '(width as usize * bits_per_pixel + 8) / 8', 'break', 'bytes_per_row: literal 7 -> 8'),
 ('M9', 'C07', 'src/primitives/line/intersection_params.rs', '(numerator + denominator / 2)\n                .div_euclid(denominator)', '((numerator + denominator / 2)\n                / denominator)', 'break', 'round_div closure: div_euclid -> `/` (Z.div vs Z.quot: differs for negative numerators)'),
 ('M10', 'C19', 'src/primitives/triangle/mod.rs', 'if p1.y < p2.y || (p1.y == p2.y && p1.x < p2.x) {', 'if p1.y < p2.y || (p1.y == p2.y && p1.x <= p2.x) {', 'break', 'sort_two_yx: `<` -> `<=` (EQUIVALENT up to the order of two equal points)'),
 ('M11', 'C05', 'src/primitives/rounded_rectangle/corner_radii.rs', 'if radii > side\n', 'if radii >= side\n', 'break', 'CornerRadii::confine: `>` -> `>=` inside the unrolled loop'),
 ('M12', 'C07', 'src/primitives/common/scanline.rs', '} else if x >= self.x.end {\n            self.x.end = x + 1;', '} else if x >= self.x.end {\n            self.x.end = x;', 'break', 'Scanline::extend: off-by-one in the new end'),
 ('F1', 'C19', 'src/primitives/triangle/mod.rs', 'let (y1, y2) = sort_two_yx(p1, p2);\n        let (y1, y3) = sort_two_yx(p3, y1);', 'let (mut y1, y2) = sort_two_yx(p1, p2);\n        while y1.y > 1000 { y1.y -= 1; }\n        let (y1, y3) = sort_two_yx(p3, y1);', 'break', 'sorted_yx: a `while` loop is introduced (outside the subset: translator must fail closed)'),
 ('P1', 'C16', 'core/src/primitives/rectangle/mod.rs', 'let left = min(corner_1.x, corner_2.x);\n        let top = min(corner_1.y, corner_2.y);\n\n        Rectangle {\n            top_left: Point::new(left, top),', 'let top_edge = min(corner_1.y, corner_2.y);\n        let left_edge = min(corner_1.x, corner_2.x);\n\n        Rectangle {\n            top_left: Point::new(left_edge, top_edge),', 'preserve', 'with_corners: locals renamed and the two independent lets reordered'),
 ('P2', 'C05', 'src/primitives/ellipse/mod.rs', 'let a = (width as u64).pow(2);\n        let b = (height as u64).pow(2);', 'let b = (height as u64).pow(2);\n        let a = (width as u64).pow(2);', 'preserve', 'EllipseContains::new: independent lets reordered'),
 ('P3', 'C07', 'src/primitives/common/linear_equation.rs', 'let normal_vector = line.delta().rotate_90();\n        let origin_distance = line.start.dot_product(normal_vector);\n\n        Self {\n            normal_vector,\n            origin_distance,\n        }', 'let n = line.delta().rotate_90();\n        let d = line.start.dot_product(n);\n\n        Self {\n            normal_vector: n,\n            origin_distance: d,\n        }', 'preserve', 'LinearEquation::from_line: locals renamed'),
]


# round 2: (id, property, file, old, new, kind, what, occurrence (1-based; 0 = must be unique))
MUTS2 = [
 ('N1', 'C17', 'src/primitives/line/bresenham.rs', 'if *error > self.error_threshold {', 'if *error >= self.error_threshold {', 'break', 'increase_error (`&mut i32` parameter): `>` -> `>=`', 0),
 ('N2', 'C17', 'src/primitives/line/thick_points.rs', '(i64::from(thickness) * 2).pow(2) * length_squared', '(i64::from(thickness) * 3).pow(2) * length_squared', 'break', 'ParallelsIterator::new: literal 2 -> 3 in the thickness threshold', 0),
 ('N3', 'C17', 'src/primitives/line/thick_points.rs', 'self.thickness_accumulator += self.perpendicular_parameters.error_step.minor;', 'self.thickness_accumulator += self.perpendicular_parameters.error_step.major;', 'break', 'ParallelsIterator::next: error_step.minor -> .major for Normal parallels', 0),
 ('N4', 'C16', 'core/src/primitives/rectangle/points.rs', 'self.x.start = self.x_start;', 'self.x.start = self.x_start + 1;', 'break', 'rectangle::Points::next (while loop): row restart off by one', 0),
 ('N5', 'C18', 'src/primitives/common/distance_iterator.rs', 'let delta = point * 2 - self.center_2x;', 'let delta = point * 2 + self.center_2x;', 'break', 'DistanceIterator::next: `-` -> `+`', 0),
 ('N6', 'C12', 'core/src/pixelcolor/rgb_color.rs', 'let g_shifted = (g & Self::MAX_G) as $storage_type << $g_pos;', 'let g_shifted = (g & Self::MAX_R) as $storage_type << $g_pos;', 'break', 'impl_rgb_color! new (macro body): MAX_G -> MAX_R', 0),
 ('N7', 'C13', 'core/src/pixelcolor/conversion.rs', 'convert_channel::<{$from_type::MAX_G}, {$to_type::MAX_G}>(other.g()),', 'convert_channel::<{$from_type::MAX_G}, {$to_type::MAX_G}>(other.b()),', 'break', 'impl_rgb_conversion! (macro body): g() -> b()', 0),
 ('N8', 'C13', 'core/src/pixelcolor/conversion.rs', '(color.luma() >= $type::GRAY_50.luma()).into()', '(color.luma() > $type::GRAY_50.luma()).into()', 'break', 'impl_gray_to_binary! (macro body): `>=` -> `>`', 0),
 ('N9', 'C07', 'src/primitives/common/line_join.rs', 'if !params.nearly_colinear_has_error() {\n            (point, outer_side)', 'if params.nearly_colinear_has_error() {\n            (point, outer_side)', 'break', 'intersections: dropped `!`', 0),
 ('N10', 'C05', 'src/primitives/rounded_rectangle/ellipse_quadrant.rs', 'Quadrant::TopRight => top_left - radius.x_axis(),', 'Quadrant::TopRight => top_left - radius.y_axis(),', 'break', 'EllipseQuadrant::new: x_axis -> y_axis', 0),
 ('N11', 'C18', 'src/primitives/common/plane_sector.rs', 'distance_left <= -inside_threshold,', 'distance_left <= inside_threshold,', 'break', 'PlaneSector::point_type: dropped negation', 0),
 ('N12', 'C02', 'src/primitives/circle/styled.rs', 'let offset = style.outside_stroke_width().saturating_as();\n\n        self.bounding_box().offset(offset)', 'let offset = style.inside_stroke_width().saturating_as();\n\n        self.bounding_box().offset(offset)', 'break', 'Circle styled_bounding_box: outside -> inside stroke width', 0),
 ('N13', 'C11', 'core/src/pixelcolor/raw/load_store.rs', '(*byte & !(Self::MASK << bit_index)) | (self.into_inner() << bit_index);', '(*byte & (Self::MASK << bit_index)) | (self.into_inner() << bit_index);', 'break', 'impl_load_store_bits! store (macro body, slice idiom): dropped `!`', 0),
 ('Q1', 'C17', 'src/primitives/line/thick_points.rs', None, None, 'preserve', 'next_parallel: local error_before_decrease renamed', 0),
 ('Q2', 'C05', 'src/primitives/rounded_rectangle/mod.rs', 'let rows = rounded_rectangle.rectangle.rows();\n        let columns = rounded_rectangle.rectangle.columns();', 'let columns = rounded_rectangle.rectangle.columns();\n        let rows = rounded_rectangle.rectangle.rows();', 'preserve', 'RoundedRectangleContains::new: independent lets reordered', 0),
]


# round 3 (and the audit fixes)
MUTS3 = [
 ('R1', 'C07', 'src/primitives/line/mod.rs', 'ParallelLineType::Extra => reduce,\n                },\n        );\n\n        let right_line', 'ParallelLineType::Extra => Point::zero(),\n                },\n        );\n\n        let right_line', 'break', 'Line::extents (loop + `last()` drivers): the left line of an Extra parallel is no longer shortened', 0),
 ('R2', 'C07', 'src/primitives/common/line_join.rs', 'left: l.start,\n            right: r.start,', 'left: l.start,\n            right: l.start,', 'break', 'LineJoin::start: right corner taken from the left extent', 0),
 ('R3', 'C17', 'src/primitives/line/thick_points.rs', 'if line_type == ParallelLineType::Extra {\n                    self.parallel_points_remaining -= 1;', 'if line_type == ParallelLineType::Normal {\n                    self.parallel_points_remaining -= 1;', 'break', 'ThickPoints::next: Normal instead of Extra parallels are shortened', 0),
 ('R4', 'C11', 'core/src/pixelcolor/raw/load_store.rs', 'let value = if O::IS_ALTERNATE_ORDER {\n                    u16::from_be_bytes(bytes)', 'let value = if !O::IS_ALTERNATE_ORDER {\n                    u16::from_be_bytes(bytes)', 'break', 'RawU16 load (sub-slices, try_into, from_be_bytes): byte order flipped', 0),
 ('R5', 'C11', 'core/src/pixelcolor/raw/load_store.rs', 'let bytes = self.into_inner().to_be_bytes();\n            [bytes[1], bytes[2], bytes[3]]', 'let bytes = self.into_inner().to_be_bytes();\n            [bytes[0], bytes[1], bytes[2]]', 'break', 'RawU24 store (to_be_bytes, array indexing, copy_from_slice view): wrong three bytes', 0),
 ('R6', 'C11', 'core/src/pixelcolor/raw/load_store.rs', '.checked_mul(4)\n            .and_then(|start| buffer.get(start..))', '.checked_mul(3)\n            .and_then(|start| buffer.get(start..))', 'break', 'RawU32 load: checked_mul(4) -> checked_mul(3)', 0),
 ('R7', 'C11', 'src/iterator/raw.rs', 'self.index = self.index.saturating_add(n);', 'self.index = self.index.saturating_add(n + 1);', 'break', 'RawDataIterator::nth (generic `R::load::<O>` as a parameter): off by one', 0),
 ('R8', 'C09', 'src/image/image_raw.rs', 'if data.len() != expected_size {', 'if data.len() < expected_size {', 'break', 'ImageRaw::new: `!=` -> `<`', 0),
 ('R9', 'C06', 'src/primitives/primitive_style.rs', '-self.inside_stroke_width().saturating_as::<i32>()', '-self.outside_stroke_width().saturating_as::<i32>()', 'break', 'PrimitiveStyle::fill_area (monomorphic instances): inside -> outside stroke width', 0),
 ('R10', 'C10', 'src/framebuffer.rs', 'self.data[y * WIDTH + x] = c.into().into_inner();', 'self.data[y * HEIGHT + x] = c.into().into_inner();', 'break', 'Framebuffer<RawU8>::set_pixel (dynamic index assignment): WIDTH -> HEIGHT', 0),
 ('R11', 'C10', 'src/framebuffer.rs', '8 - (x % pixels_per_bit + 1) * C::Raw::BITS_PER_PIXEL', '7 - (x % pixels_per_bit + 1) * C::Raw::BITS_PER_PIXEL', 'break', 'impl_bit! set_pixel (macro body): literal 8 -> 7 in the bit index', 0),
 ('R12', 'C20', 'src/mock_display/mod.rs', 'self.pixels[x as usize + y as usize * SIZE]', 'self.pixels[y as usize + x as usize * SIZE]', 'break', 'MockDisplay::get_pixel: x and y swapped in the index', 0),
 ('R13', 'C14', 'src/mono_font/mod.rs', 'let row = glyph_index / glyphs_per_row;', 'let row = glyph_index % glyphs_per_row;', 'break', 'MonoFont::glyph (`&dyn GlyphMapping`, char): `/` -> `%`', 0),
 ('R14', 'C11', 'core/src/pixelcolor/raw/mod.rs', 'Self::Storage::MAX >> (Self::Storage::BITS - $bpp);', 'Self::Storage::MAX >> (Self::Storage::BITS - $bpp + 1);', 'break', 'impl_raw_data! MASK (macro body, 7 instances): shift off by one', 0),
 ('R15', 'C11', 'core/src/pixelcolor/raw/mod.rs', 'impl_raw_data!(RawU24: u32, 24, "24 bits");', 'impl_raw_data!(RawU24: u32, 23, "24 bits");', 'break', 'an INVOCATION of impl_raw_data! changed (23 bits): the configured instance no longer is an instance of the source', 0),
 ('R16', 'C09', 'src/image/image_raw.rs', '    (width as usize * bits_per_pixel + 7) / 8', '    #[cfg(feature = "x")]\n    let width = width + 1;\n    (width as usize * bits_per_pixel + 7) / 8', 'break', 'bytes_per_row: a `#[cfg]`-gated statement is added (audit F9: must fail closed)', 0),
 ('T1', 'C16', 'src/primitives/rectangle/mod.rs', '.is_some_and(|bottom_right| point.x <= bottom_right.x && point.y <= bottom_right.y)', '.is_some_and(|bottom_right| point.x <= bottom_right.x && point.y < bottom_right.y)', 'break', 'the TRAIT copy `impl ContainsPoint for Rectangle` (main crate): `<=` -> `<`', 0),
 ('T2', 'C16', 'src/primitives/rectangle/mod.rs', 'self.size.saturating_add(Size::new_equal(offset as u32 * 2))', 'self.size.saturating_add(Size::new_equal(offset as u32))', 'break', 'the TRAIT copy `impl OffsetOutline for Rectangle`: dropped `* 2`', 0),
 ('T3', 'C16', 'src/primitives/rectangle/mod.rs', 'self.top_left += by;', 'self.top_left -= by;', 'break', 'the TRAIT copy `impl Transform for Rectangle`: translate_mut `+=` -> `-=`', 0),
 ('T4', 'C07', 'src/primitives/line/mod.rs', 'self.start += by;\n        self.end += by;', 'self.start += by;\n        self.end -= by;', 'break', 'Line::translate_mut (`-> &mut Self`): `+=` -> `-=` on the end point', 0),
 ('S1', 'C11', 'core/src/pixelcolor/raw/load_store.rs', None, None, 'preserve', 'RawU16 store: local `bytes` renamed', 0),
 ('S2', 'C14', 'src/mono_font/mod.rs', None, None, 'preserve', 'MonoFont::glyph: the independent lets char_x / char_y reordered', 0),
]


# round 4
MUTS4 = [
 ('U1', 'C07', 'src/primitives/common/thick_segment_iter.rs', 'let start = *self.points.get(self.points.len() - 2)?;', 'let start = *self.points.get(self.points.len() - 1)?;', 'break', 'ThickSegmentIter::next (windows iterator, fuelled): the end join starts at the last instead of the last but one point', 0),
 ('U2', 'C07', 'src/primitives/common/closed_thick_segment_iter.rs', '} else if self.idx == self.points.len() {', '} else if self.idx + 1 == self.points.len() {', 'break', 'ClosedThickSegmentIter::next: the closing join one step early', 0),
 ('U3', 'C02', 'src/primitives/triangle/styled.rs', 'if style.stroke_width < 2 || style.stroke_alignment == StrokeAlignment::Inside {\n            return self.bounding_box();', 'if style.stroke_width < 3 || style.stroke_alignment == StrokeAlignment::Inside {\n            return self.bounding_box();', 'break', 'Triangle::styled_bounding_box (fold driver over the closed segment iterator): short cut for width < 3', 0),
 ('U4', 'C03', 'src/iterator/contiguous.rs', 'self.x = 1;\n            self.y += 1;', 'self.x = 0;\n            self.y += 1;', 'break', 'Cropped::next (`&mut` methods of the generic iterator as parameters): row restart off by one', 0),
 ('U5', 'C09', 'src/image/image_raw.rs', '.nth(p.x as usize + p.y as usize * self.data_width() as usize)', '.nth(p.y as usize + p.x as usize * self.data_width() as usize)', 'break', 'ImageRaw::pixel (`nth` on a temporary iterator): x and y swapped', 0),
 ('U6', 'C09', 'src/image/image_raw.rs', '|| area.top_left.x as u32 + area.size.width > self.size.width', '|| area.top_left.x as u32 + area.size.width >= self.size.width', 'break', 'ImageRaw::draw_sub_image: rejection test `>` -> `>=`', 0),
 ('U7', 'C03', 'src/draw_target/translated.rs', 'let area = area.translate(self.offset);\n        self.parent.fill_solid(&area, color)', 'let area = area.translate(-self.offset);\n        self.parent.fill_solid(&area, color)', 'break', 'Translated::fill_solid (parent target as a call log): offset negated', 0),
 ('U8', 'C10', 'src/framebuffer.rs', 'let index = (y * WIDTH + x) * BYTES_PER_PIXEL;', 'let index = (y * WIDTH + x + 1) * BYTES_PER_PIXEL;', 'break', 'impl_bytes! set_pixel (6 instances): index off by one pixel', 0),
 ('U9', 'C14', 'src/mono_font/mapping.rs', None, None, 'break', 'StrGlyphMapping::chars (from_fn generator): the range `start..=end` becomes `start..=start`', 0),
 ('U10', 'C15', 'src/mono_font/mono_text_style.rs', '            .saturating_sub(self.font.character_spacing);\n\n        let bb_height', '            ;\n\n        let bb_height', 'break', 'MonoTextStyle::measure_string: the trailing spacing is no longer subtracted', 0),
 ('U11', 'C15', 'src/text/text.rs', 'position.y += self.line_height();', 'position.y -= self.line_height();', 'break', 'Text::lines (stateful map over split lines): `+=` -> `-=`', 0),
 ('U12', 'C20', 'src/mock_display/mod.rs', 'tl.map(|tl| tl.component_min(point)).or(Some(point)),', 'tl.map(|tl| tl.component_max(point)).or(Some(point)),', 'break', 'MockDisplay::affected_area (zip / filter_map / fold over a collected iterator): min -> max', 0),
 ('U13', 'C20', 'src/mock_display/mod.rs', 'if !self.allow_overdraw && self.get_pixel(point).is_some() {', 'if self.allow_overdraw && self.get_pixel(point).is_some() {', 'break', 'MockDisplay::draw_pixel (panic paths): dropped `!`', 0),
 ('U14', 'C07', 'src/primitives/triangle/mod.rs', 'self.vertices.iter_mut().for_each(|v| *v += by);', 'self.vertices.iter_mut().for_each(|v| *v -= by);', 'break', 'Triangle::translate_mut (unrolled for_each): `+=` -> `-=`', 0),
 ('U15', 'C06', 'src/primitives/sector/mod.rs', 'let circle = self.to_circle().offset(offset);', 'let circle = self.to_circle().offset(-offset);', 'break', 'Sector::offset (opaque angles): offset negated', 0),
 ('U16', 'C19', 'src/primitives/triangle/scanline_intersections.rs', '} else if let Some(first) = self.lines.first.try_take() {\n            Some((first, PointType::Stroke))', '} else if let Some(first) = self.lines.first.try_take() {\n            Some((first, PointType::Fill))', 'break', 'triangle ScanlineIntersections::next: the first edge line reported as Fill', 0),
 ('W1', 'C14', 'src/mono_font/mapping.rs', None, None, 'preserve', 'StrGlyphMapping::chars: local `range` renamed', 0),
 ('W2', 'C15', 'src/text/text.rs', None, None, 'preserve', 'Text::lines: local `p` renamed', 0),
]


# round 5: the five mutations of the third audit that went unnoticed (E1-E5) and the round-5 additions
MUTS5 = [
 ('E1', 'C11', 'core/src/pixelcolor/raw/mod.rs', 'fn from(value: $storage_type) -> Self {\n                Self::new(value)', 'fn from(value: $storage_type) -> Self {\n                Self::new_unmasked(value)', 'break', 'audit3 E1: impl_raw_data! `From<storage>::from`: new -> new_unmasked (sub-byte loads return unmasked values)', 0),
 ('E2', 'C20', 'src/mock_display/mod.rs', 'panic!("tried to draw pixel twice (x: {}, y: {})", point.x, point.y);', 'return;', 'break', 'audit3 E2: MockDisplay::draw_pixel: the overdraw `panic!` replaced by `return;`', 0),
 ('E3', 'C20', 'src/mock_display/mod.rs', '        assert!(\n            point.x >= 0 && point.y >= 0 && point.x < SIZE as i32 && point.y < SIZE as i32,\n            "point must be inside display bounding box: {:?}",\n            point\n        );\n', '', 'break', 'audit3 E3: MockDisplay::set_pixel: the `assert!` deleted', 0),
 ('E4', 'C11', 'core/src/pixelcolor/raw/mod.rs', 'load_store::LoadStore::<O>::load(buffer, index)', 'None', 'break', 'audit3 E4: impl_raw_data! `RawData::load`: body replaced by `None`', 0),
 ('E5', 'C11', 'core/src/pixelcolor/raw/mod.rs', 'Self::new(value as $storage_type)', 'Self::new_unmasked(value as $storage_type)', 'break', 'audit3 E5: impl_raw_data! `from_u32`: new -> new_unmasked', 0),
 ('V1', 'C20', 'src/mock_display/mod.rs', 'if x < 0 || y < 0 || x >= SIZE as i32 || y >= SIZE as i32 {', 'if x < 0 || y < 0 || x > SIZE as i32 || y >= SIZE as i32 {', 'break', 'MockDisplay::get_pixel: `x >= SIZE` -> `x > SIZE` (x = 64 is now indexed; with y = 63 an index panic the model does not have)', 0),
 ('V2', 'C10', 'src/framebuffer.rs', None, None, 'break', 'Framebuffer<RawU8>::set_pixel: `x < WIDTH` -> `x <= WIDTH` (the write of column WIDTH: another pixel, or an index panic in the last row)', 0),
 ('V3', 'C16', 'core/src/geometry/size.rs', 'Self::new(self.width.min(other.width), self.height.min(other.height))', 'Self::new(self.width.min(other.width), self.height.max(other.height))', 'break', 'Size::component_min (was referenced by no theorem): min -> max in the height', 0),
 ('V4', 'C07', 'src/primitives/sector/mod.rs', 'let radius = self.diameter.saturating_sub(1);\n\n        self.top_left * 2 + Size::new(radius, radius)', 'let radius = self.diameter.saturating_sub(2);\n\n        self.top_left * 2 + Size::new(radius, radius)', 'break', 'Sector::center_2x (was referenced by no theorem): saturating_sub(1) -> (2)', 0),
 ('V5', 'C11', 'core/src/pixelcolor/raw/load_store.rs', '.checked_mul(2)\n            .and_then(|start| buffer.get(start..))\n            .and_then(|buffer| buffer.get(0..2))', '.checked_mul(2)\n            .and_then(|start| buffer.get(start + 1..))\n            .and_then(|buffer| buffer.get(0..2))', 'break', 'RawU16 load (now stated for every width of usize): window starts one byte late', 1),
 ('V6', 'C03', 'src/iterator/contiguous.rs', None, None, 'break', 'Cropped::new (theorem now without intersection hypotheses): the initial skip uses crop_area.top_left.x twice', 0),
 ('X1', 'C20', 'src/mock_display/mod.rs', 'let i = point.x + point.y * SIZE as i32;\n        self.pixels[i as usize] = color;\n    }\n\n    /// Changes the value of a pixel without bounds checking.\n    ///\n    /// # Panics\n    ///\n    /// This method will panic if `point` is outside the display bounding box.\n    fn set_pixel_unchecked', 'let idx = point.x + point.y * SIZE as i32;\n        self.pixels[idx as usize] = color;\n    }\n\n    /// Changes the value of a pixel without bounds checking.\n    ///\n    /// # Panics\n    ///\n    /// This method will panic if `point` is outside the display bounding box.\n    fn set_pixel_unchecked', 'preserve', 'MockDisplay::set_pixel (partial function: assert! + index): local `i` renamed', 0),
 ('X2', 'C11', 'core/src/pixelcolor/raw/mod.rs', 'fn from_u32(value: u32) -> Self {\n                #[allow(trivial_numeric_casts)]\n                Self::new(value as $storage_type)', 'fn from_u32(value: u32) -> Self {\n                #[allow(trivial_numeric_casts)]\n                let v = value as $storage_type;\n                Self::new(v)', 'preserve', 'impl_raw_data! from_u32: the cast bound to a local first', 0),
]


def sh(cmd, env=None, timeout=3600):
    p = subprocess.run(cmd, shell=True, cwd=V, env=dict(os.environ, **(env or {})), stdout=subprocess.PIPE, stderr=subprocess.STDOUT, text=True, timeout=timeout)
    return p.returncode, p.stdout


def special(mid, txt):
    if mid == 'M6':
        return txt.replace('point.dot_product(self.normal_vector) - self.origin_distance\n    }\n\n    /// Checks if a point is on the given side of the line.',
                           'self.origin_distance - point.dot_product(self.normal_vector)\n    }\n\n    /// Checks if a point is on the given side of the line.', 1)
    if mid == 'Q1':
        return txt.replace('error_before_decrease', 'before')
    if mid in ('U9', 'W1'):
        i = txt.index('pub fn chars(&self) -> impl Iterator<Item = char>')
        j = txt.index('pub fn contains(&self, c: char)')
        seg = txt[i:j]
        if mid == 'U9':
            assert seg.count('start..=end') == 1
            seg2 = seg.replace('start..=end', 'start..=start')
        else:
            seg2 = seg.replace('let range = match', 'let rg = match').replace('Some(range)', 'Some(rg)')
        assert seg2 != seg
        return txt[:i] + seg2 + txt[j:]
    if mid == 'W2':
        i = txt.index('fn lines(&self)')
        j = txt.index('impl<S: TextRenderer> Drawable for Text')
        seg = txt[i:j]
        seg2 = seg.replace('let p = match self.text_style.alignment', 'let pos = match self.text_style.alignment').replace('(line, p)', '(line, pos)')
        assert seg2 != seg
        return txt[:i] + seg2 + txt[j:]
    if mid == 'S1':
        i = txt.index('impl<O: DataOrder> LoadStore<O> for RawU16 {')
        j = txt.index('impl<O: DataOrder> LoadStore<O> for RawU24 {')
        k = txt.index('fn store(self', i)
        seg = txt[k:j].replace('let bytes =', 'let encoded =').replace('copy_from_slice(&bytes)', 'copy_from_slice(&encoded)')
        return txt[:k] + seg + txt[j:]
    if mid == 'S2':
        a = '        let char_x = (glyph_index - (row * glyphs_per_row)) * self.character_size.width;\n'
        b = '        let char_y = row * self.character_size.height;\n'
        assert a + b in txt
        return txt.replace(a + b, b + a)
    if mid == 'M7':
        i = txt.index('pub fn next(&mut self, parameters: &BresenhamParameters) -> Point {')
        j = txt.index('if self.error > parameters.error_threshold {', i)
        return txt[:j] + 'if self.error >= parameters.error_threshold {' + txt[j + len('if self.error > parameters.error_threshold {'):]
    if mid == 'V2':
        i = txt.index('pub fn set_pixel(&mut self, p: Point, c: C) {', txt.index('impl<C, BO, const WIDTH: usize, const HEIGHT: usize, const N: usize>\n    Framebuffer<C, RawU8, BO, WIDTH, HEIGHT, N>'))
        j = txt.index('if x < WIDTH && y < HEIGHT {', i)
        return txt[:j] + 'if x <= WIDTH && y < HEIGHT {' + txt[j + len('if x < WIDTH && y < HEIGHT {'):]
    if mid == 'V6':
        a = 'crop_area.top_left.y as usize * size.width as usize + crop_area.top_left.x as usize'
        if txt.count(a) != 1:
            return None
        return txt.replace(a, 'crop_area.top_left.x as usize * size.width as usize + crop_area.top_left.x as usize')
    return None


def first_failing_lemma(out):
    ms = list(re.finditer(r'File "\./((?:Proofs|Properties|Gen)/[\w]+\.v)", line (\d+)', out))
    if not ms:
        return None
    # the first failure inside the translator tie (Proofs/Src*.v, Properties/*_src*.v), else the first failure at all
    mine = [m for m in ms if m.group(1).startswith('Proofs/Src') or '_src' in m.group(1)]
    m = (mine or ms)[0]
    f, ln = m.group(1), int(m.group(2))
    name = None
    for i, l in enumerate(open(os.path.join(V, 'coq', f)), 1):
        if i > ln:
            break
        mm = re.match(r'\s*(?:Lemma|Theorem|Example|Definition)\s+(\w+)', l)
        if mm:
            name = mm.group(1)
    return '%s:%d %s' % (f, ln, name)


def main():
    want = sys.argv[1:]
    rows = []
    allm = [m + (0,) for m in MUTS] + MUTS2 + MUTS3 + MUTS4 + MUTS5
    for mid, prop, f, old, new, kind, what, occ in allm:
        if want and mid not in want:
            continue
        if not want and mid[0] in 'NQRSTUWEVX':
            continue
        sh('git -C /repo worktree remove --force %s; git -C /repo worktree prune' % S)
        rc, o = sh('git -C /repo worktree add --detach %s HEAD' % S)
        assert rc == 0, o
        p = os.path.join(S, f)
        txt = open(p).read()
        t2 = special(mid, txt)
        if t2 is None:
            assert txt.count(old) == 1, (mid, txt.count(old))
            t2 = txt.replace(old, new)
        assert t2 != txt, mid
        open(p, 'w').write(t2)
        env = {'EG_REPO': S}
        # the other table translators first (their tables feed some of the models), then r2c
        others = []
        for g in sorted(os.listdir(os.path.join(V, 'translate'))):
            if g.startswith('gen_') and g.endswith('.py') and g != 'gen_r2c.py':
                rc0, _ = sh('python3 translate/%s' % g, env)
                if rc0 != 0:
                    others.append(g)
        rc, o = sh('sh translate/r2c/run.sh', env)
        changed = re.findall(r'Gen/(\w+)\.v written', o)
        if others:
            changed.append('(also refused by: %s)' % ','.join(others))
        trc = rc
        sh('sh tools/gen_coqproject.sh')
        rc, o = sh('timeout 1500 make -k -j4 -C coq $(cd coq && ls Properties/*_src*.v | sed s/\\.v$/.vo/)')
        lemma = first_failing_lemma(o) if rc != 0 else None
        t0 = time.time()
        rc, o = sh('timeout 3000 ./check %s' % prop, env)
        viol = [l for l in o.splitlines() if l.startswith('VIOLATION')]
        oks = [l for l in o.splitlines() if l.startswith('OK ')]
        with_input = [v for v in viol if 'no-failing-input-found' not in v]
        first = ''
        m = re.search(r'replay=(\S+)', with_input[0]) if with_input else None
        if m:
            import json
            try:
                first = json.load(open(os.path.join(V, m.group(1)))).get('input', '')
            except Exception:
                first = ''
        verdict = ('VIOLATION x%d (%s)' % (len(viol), 'failing input: `%s`' % first if with_input else 'no failing input found by p_* search')) if viol else (oks[0] if oks else 'rc=%d' % rc)
        rows.append((mid, prop, what, kind, 'translator rc=%d; changed: %s' % (trc, ','.join(changed) or 'none'), lemma or 'all equivalence proofs still compile', verdict, '%.0fs' % (time.time() - t0)))
        print('| ' + ' | '.join(rows[-1]) + ' |', flush=True)
        sh('git -C /repo worktree remove --force %s; git -C /repo worktree prune' % S)
    for g in sorted(os.listdir(os.path.join(V, 'translate'))):
        if g.startswith('gen_') and g.endswith('.py'):
            sh('python3 translate/%s' % g)   # back to /repo
    sh('sh translate/r2c/run.sh')
    sh('timeout 1500 make -j4 -C coq $(cd coq && ls Properties/*_src*.v | sed s/\\.v$/.vo/)')


main()
