#!/bin/sh
# Builds translate/r2c (offline, into .build/r2c) and regenerates coq/Gen/Src*.v from the tree at $EG_REPO
# (default /repo).  Files are rewritten only when their content changes.  Non-zero exit = some configured
# function is outside the translated subset or is gone (fail closed): the Gen file of that module is then a stub
# that does not compile, so no equivalence proof can pass against definitions of an earlier tree.  Exit 4 = a generated
# definition is referenced by no theorem (coverage.py).
set -e
HERE=$(cd "$(dirname "$0")" && pwd)
V=$(cd "$HERE/../.." && pwd)
REPO=${EG_REPO:-/repo}
T=$V/.build/r2c
mkdir -p "$T" "$V/coq/Gen"
if ! ( cd "$HERE" && CARGO_NET_OFFLINE=true CARGO_TARGET_DIR="$T" timeout 900 cargo build --release --offline -j4 -q ); then
  echo "r2c: translator does not build"
  for m in $(sed -n 's/^module[ \t]*\([A-Za-z0-9_]*\).*/\1/p' "$HERE/functions.txt"); do
    printf '(* GENERATED stub: translate/r2c does not build. *)\nDefinition r2c_translation_failed : False := I.\n' > "$V/coq/Gen/$m.v"
  done
  exit 3
fi
timeout 300 "$T/release/r2c" "$REPO" "$HERE/functions.txt" "$V/coq/Gen"
# every generated definition must be referenced by a theorem of coq/Properties/*_src*.v (or be allow-listed with a reason):
# a definition that no theorem mentions can change with the source unnoticed (translate/r2c/coverage.py, exit 4)
exec timeout 120 python3 "$HERE/coverage.py" "$V"
