#!/bin/sh
# Regression suite of translate/r2c (adversarial inputs: every test is either refused or agrees value by value with a native
# Rust run).  Builds the translator if needed.  ~1-2 minutes.   usage: sh translate/r2c/selftest.sh [test names]
set -e
HERE=$(cd "$(dirname "$0")" && pwd)
V=$(cd "$HERE/../.." && pwd)
( cd "$HERE" && CARGO_NET_OFFLINE=true CARGO_TARGET_DIR="$V/.build/r2c" timeout 900 cargo build --release --offline -j4 -q )
[ -f "$V/coq/Base/Casts.vo" ] || { sh "$V/tools/gen_coqproject.sh"; timeout 900 make -C "$V/coq" Base/Casts.vo >/dev/null; }
exec python3 "$HERE/tests/selftest.py" "$@"
