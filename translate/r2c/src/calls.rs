//! Calls: configured functions, whitelisted integer / Option / range methods.
use crate::expr::{app, strip_parens};
use crate::tr::*;
use crate::types::*;
use syn::*;

/// `&array` where a slice is expected (`&[T; N]` -> `&[T]`): the list of the N components
pub fn coerce_array_to_slice(v: Val, want: &Ty) -> Val {
    if let (Ty::Slice(e), Ty::Tuple(ts)) = (want, &v.ty) {
        if ts.iter().all(|t| join(t, e).is_ok()) {
            let names: Vec<String> = (0..ts.len()).map(|i| format!("e{}_", i)).collect();
            return Val { s: format!("(let '({}) := {} in [{}])", names.join(", "), v.s, names.join("; ")), ty: want.clone() };
        }
    }
    v
}

impl<'a> Tr<'a> {
    /// translate the arguments of a call to a configured function and build the application
    pub fn apply_fn(&mut self, f: &FnInfo, cg: &[Val], recv: Option<&Val>, args: &[&Expr], env: &Env, at: &Expr) -> R<Val> {
        if f.self_kind == SelfKind::Mut {
            return Err(unsupported(at, &format!("call of the `&mut self` method `{}` in expression position (only as a statement or `let` initialiser on a local place)", f.key)));
        }
        let (s, ty) = self.apply_fn_raw(f, cg, recv, args, env, at)?;
        Ok(Val { s, ty })
    }

    /// a method of the same impl header as the function being translated: its abstracted `R::ITEM` parameters are the
    /// caller's own parameters of the same names
    /// `path::Trait::<A, ..>::f(..)` inside an impl for Self, where a configured `impl<X..> Trait<X..> for Self` has `f`: the callee
    /// and the values of its abstracted items (its `X::ITEM` is `A::ITEM` of the caller)
    pub fn trait_static_target(&self, p: &syn::Path, env: &Env, at: &Expr) -> R<Option<(FnInfo, Vec<String>)>> {
        if p.segments.len() < 2 || self.self_ty.is_none() {
            return Ok(None);
        }
        let tseg = &p.segments[p.segments.len() - 2];
        let tname = tseg.ident.to_string();
        let fname = p.segments.last().unwrap().ident.to_string();
        if tname == "Self" || self.generic_tys.contains(&tname) || IntTy::from_name(&tname).is_some() {
            return Ok(None);
        }
        let rn = self.resolve_type_name(&tname);
        if self.t.adts.contains_key(&rn) || self.t.externs.contains_key(&rn) {
            return Ok(None);
        }
        let targs: Vec<String> = match &tseg.arguments {
            PathArguments::AngleBracketed(a) => a.args.iter().filter_map(|g| if let GenericArgument::Type(Type::Path(tp)) = g { tp.path.get_ident().map(|i| i.to_string()) } else { None }).collect(),
            _ => vec![],
        };
        let fs: Vec<FnInfo> = self
            .t
            .fns
            .iter()
            .filter(|f| f.name == fname && f.self_ty == self.self_ty && f.trait_name.as_deref().map_or(false, |t| t == tname || t.starts_with(&format!("{}<", tname))))
            .cloned()
            .collect();
        if fs.len() != 1 {
            return Ok(None);
        }
        let f = fs[0].clone();
        let tn = f.trait_name.clone().unwrap();
        let cargs: Vec<String> = if tn.len() > tname.len() { tn[tname.len() + 1..tn.len() - 1].split(',').map(|x| x.trim().to_string()).collect() } else { vec![] };
        if cargs.len() != targs.len() {
            return Err(unsupported(at, &format!("call of `{}` through its trait: the trait's type arguments must be written (`{}::<..>::{}`)", f.key, tname, fname)));
        }
        // Self of the call is inferred by Rust from the argument / result types: accepted only when the callee mentions Self there
        let self_t = Ty::Adt(f.self_ty.clone().unwrap());
        let mentions = |t: &Ty| format!("{:?}", t).contains(&format!("{:?}", self_t));
        if !(f.self_kind != SelfKind::None || mentions(&f.ret) || f.params.iter().any(|p| mentions(&p.1))) {
            return Err(unsupported(at, &format!("call of `{}` through its trait: Self does not occur in its signature", f.key)));
        }
        let mut vals = vec![];
        for (k, t) in f.assoc_params.iter() {
            let mut parts: Vec<String> = k.split("::").map(|x| x.to_string()).collect();
            if let Some(gi) = cargs.iter().position(|g| *g == parts[0]) {
                parts[0] = targs[gi].clone();
            }
            let nk = parts.join("::");
            match env.get(&nk) {
                Some(v) if v.ty == *t => vals.push(v.coq.clone()),
                _ => return Err(unsupported(at, &format!("call of `{}` through its trait: its abstracted item `{}` (`{}` here) is not a parameter of this function", f.key, k, nk))),
            }
        }
        Ok(Some((f, vals)))
    }

    pub fn inherited_assoc(&self, f: &FnInfo, env: &Env) -> Option<Vec<String>> {
        if let Some((k, v)) = self.assoc_override.borrow_mut().take() {
            if k == f.key {
                return Some(v);
            }
        }
        if f.assoc_params.is_empty() || f.self_ty.is_none() {
            return None;
        }
        let me = self.t.fns.iter().find(|g| g.coq == self.fn_coq)?;
        if f.self_ty == self.self_ty && f.generic_names.is_empty() {
            if me.impl_args != f.impl_args {
                return None;
            }
        } else {
            // a method of another impl: its abstracted items are parameters of the caller under the same keys (add_fn
            // made sure of it, and that the caller has no generic parameter of such a name)
            for (k, _) in f.assoc_params.iter() {
                if !me.assoc_params.iter().any(|(k2, _)| k2 == k) {
                    return None;
                }
            }
        }
        let mut out = vec![];
        for (k, t) in f.assoc_params.iter() {
            match env.get(k) {
                Some(v) if v.ty == *t => out.push(v.coq.clone()),
                _ => return None,
            }
        }
        Some(out)
    }

    pub fn apply_fn_raw(&mut self, f: &FnInfo, cg: &[Val], recv: Option<&Val>, args: &[&Expr], env: &Env, at: &Expr) -> R<(String, Ty)> {
        if f.has_mut_params() || f.opt() {
            return Err(unsupported(at, &format!("call of `{}` (`&mut` parameters / fuel) in a position where its effects cannot be sequenced", f.key)));
        }
        if f.usize_w {
            self.usize_w.set(true);
        }
        let inherited = self.inherited_assoc(f, env);
        if self.turbofish_types.as_ref().map(|v| v.is_empty()).unwrap_or(false) {
            // no turbofish was written
            self.turbofish_types = None;
        }
        if !f.assoc_params.is_empty() && self.turbofish_types.is_none() && inherited.is_none() {
            return Err(unsupported(at, &format!("call of `{}`, whose generic parameters' associated constants are abstracted as parameters", f.key)));
        }
        if cg.len() != f.const_generics.len() {
            return Err(unsupported(at, &format!("call of `{}` needs {} const generic argument(s) written with a turbofish", f.key, f.const_generics.len())));
        }
        let mut a: Vec<String> = self.mvar_args(&f.mvars, env, at)?;
        if let (Some(inh), true) = (&inherited, self.turbofish_types.is_none()) {
            a.extend(inh.iter().cloned());
        } else if !f.assoc_params.is_empty() {
            // `callee::<A, B>(..)`: the callee's `R::CONST` parameters are `A::CONST` in the caller
            let targs = self.turbofish_types.take().unwrap();
            if targs.len() != f.generic_names.len() {
                return Err(unsupported(at, &format!("call of `{}` needs its {} type arguments in a turbofish", f.key, f.generic_names.len())));
            }
            for (k, t) in f.assoc_params.iter() {
                let mut parts: Vec<String> = k.split("::").map(|x| x.to_string()).collect();
                let gi = f.generic_names.iter().position(|g| *g == parts[0]).ok_or_else(|| unsupported(at, "associated constant of an unknown generic parameter"))?;
                parts[0] = targs[gi].clone();
                let pe: Expr = syn::parse_str(&parts.join("::")).map_err(|e| e.to_string())?;
                let v = self.pure(&pe, env, Some(t))?;
                join(&v.ty, t).map_err(|m| unsupported(at, &m))?;
                a.push(v.s);
            }
        }
        for (v, (_, t)) in cg.iter().zip(f.const_generics.iter()) {
            join(&v.ty, t).map_err(|m| unsupported(at, &m))?;
            a.push(v.s.clone());
        }
        match (f.self_kind, recv) {
            (SelfKind::None, None) => {}
            (SelfKind::None, Some(_)) => return Err(unsupported(at, &format!("`{}` has no self parameter", f.key))),
            (_, Some(r)) => a.push(r.s.clone()),
            (_, None) => {}
        }
        let expect = f.params.len() + if f.self_kind != SelfKind::None && recv.is_none() { 1 } else { 0 };
        if args.len() != expect {
            return Err(unsupported(at, &format!("call of `{}` with {} arguments, {} expected", f.key, args.len(), expect)));
        }
        let mut ptys: Vec<Ty> = vec![];
        if f.self_kind != SelfKind::None && recv.is_none() {
            ptys.push(Ty::Adt(f.self_ty.clone().unwrap()));
        }
        ptys.extend(f.params.iter().map(|p| p.1.clone()));
        for (x, pt) in args.iter().zip(ptys.iter()) {
            let v = self.pure(x, env, Some(pt))?;
            let v = coerce_array_to_slice(v, pt);
            join(&v.ty, pt).map_err(|m| unsupported(at, &format!("argument of `{}`: {}", f.key, m)))?;
            a.push(v.s);
        }
        let ret = if f.self_kind == SelfKind::Mut {
            let st = Ty::Adt(f.self_ty.clone().unwrap());
            if f.ret == Ty::Unit {
                st
            } else {
                Ty::Tuple(vec![st, f.ret.clone()])
            }
        } else {
            f.ret.clone()
        };
        Ok((app(&f.coq, &a), ret))
    }

    fn turbofish_consts(&mut self, seg: &PathSegment, env: &Env, f: Option<&FnInfo>) -> R<Vec<Val>> {
        let mut out = vec![];
        if let Some(f) = f {
            if !f.assoc_params.is_empty() {
                let mut ts = vec![];
                if let PathArguments::AngleBracketed(a) = &seg.arguments {
                    for g in a.args.iter() {
                        if let GenericArgument::Type(Type::Path(tp)) = g {
                            ts.push(tp.path.segments.iter().map(|s| s.ident.to_string()).collect::<Vec<_>>().join("::"));
                        }
                    }
                }
                self.turbofish_types = Some(ts);
                return Ok(out);
            }
        }
        if let PathArguments::AngleBracketed(a) = &seg.arguments {
            for (i, g) in a.args.iter().enumerate() {
                let hint = f.and_then(|f| f.const_generics.get(i)).map(|x| x.1.clone());
                match g {
                    GenericArgument::Const(e) => out.push(self.pure(e, env, hint.as_ref())?),
                    GenericArgument::Type(Type::Path(tp)) => {
                        // a bare identifier is parsed as a type
                        let e = Expr::Path(ExprPath { attrs: vec![], qself: None, path: tp.path.clone() });
                        out.push(self.pure(&e, env, hint.as_ref())?)
                    }
                    _ => return Err(unsupported(seg, "generic argument in turbofish")),
                }
            }
        }
        Ok(out)
    }

    /// `x.m()` resolved to a configured TRAIT method while the type has an inherent method `m` (which Rust prefers)
    pub fn check_not_shadowed(&self, f: &FnInfo, at: &Expr) -> R<()> {
        if f.trait_name.is_none() {
            return Ok(());
        }
        let base = f.self_ty.as_deref().unwrap_or("").rsplit('.').next().unwrap().split('<').next().unwrap().to_string();
        let inherent_configured = self.t.fns.iter().any(|g| g.self_ty == f.self_ty && g.name == f.name && g.trait_name.is_none());
        if inherent_configured {
            return Ok(());
        }
        for d in self.t.file_defs.values() {
            if d.inherent.contains(&(base.clone(), f.name.clone())) {
                return Err(unsupported(at, &format!("method `{}` resolves to the configured trait method `{}`, but `{}` also has an inherent method `{}` (which Rust prefers) that is not configured", f.name, f.key, base, f.name)));
            }
        }
        Ok(())
    }

    pub fn find_fns(&self, self_ty: Option<&str>, name: &str) -> Vec<FnInfo> {
        self.t.fns.iter().filter(|f| f.self_ty.as_deref() == self_ty && f.name == name).cloned().collect()
    }

    pub fn call(&mut self, c: &ExprCall, env: &Env, hint: Option<&Ty>) -> R<Val> {
        let at = &Expr::Call(c.clone());
        let p = match strip_parens(&c.func) {
            Expr::Path(p) if p.qself.is_none() => p,
            _ => return Err(unsupported(at, "call of something that is not a path")),
        };
        let segs: Vec<String> = p.path.segments.iter().map(|s| s.ident.to_string()).collect();
        let last = p.path.segments.last().unwrap();
        let args: Vec<&Expr> = c.args.iter().collect();
        if segs.len() >= 2 && self.generic_tys.contains(&segs[0]) {
            // an associated function of a generic type parameter: a function parameter of the translated definition
            let key = generic_item_key(&p.path);
            return match env.get(&key) {
                Some(v) => match &v.ty {
                    Ty::Fn(ptys, rty) if ptys.len() == args.len() => {
                        let mut a = vec![];
                        for (x, pt) in args.iter().zip(ptys.iter()) {
                            let av = self.pure(x, env, Some(pt))?;
                            join(&av.ty, pt).map_err(|m| unsupported(at, &m))?;
                            a.push(av.s);
                        }
                        Ok(Val { s: app(&v.coq, &a), ty: (**rty).clone() })
                    }
                    _ => Err(unsupported(at, &format!("call of `{}`, whose `assoc` type is not a function of {} arguments", key, args.len()))),
                },
                None => Err(unsupported(at, &format!("associated function `{}` of a generic parameter (give `assoc <name> fn(..)->..`)", key))),
            };
        }
        if segs.len() == 1 {
            let n = segs[0].as_str();
            if (n == "Ok" || n == "Err") && args.len() == 1 {
                let (th, eh) = match hint {
                    Some(Ty::Result(t, e)) => (Some((**t).clone()), Some((**e).clone())),
                    _ => (None, None),
                };
                let ih = if n == "Ok" { th.clone() } else { eh.clone() };
                let v = self.pure(args[0], env, ih.as_ref())?;
                let ty = if n == "Ok" { Ty::Result(Box::new(v.ty.clone()), Box::new(eh.unwrap_or(Ty::Infer))) } else { Ty::Result(Box::new(th.unwrap_or(Ty::Infer)), Box::new(v.ty.clone())) };
                return Ok(Val { s: format!("({} {})", if n == "Ok" { "inl" } else { "inr" }, v.s), ty });
            }
            if n == "Some" && args.len() == 1 {
                let ih = match hint {
                    Some(Ty::Option(t)) => Some((**t).clone()),
                    _ => None,
                };
                let v = self.pure(args[0], env, ih.as_ref())?;
                return Ok(Val { s: format!("(Some {})", v.s), ty: Ty::Option(Box::new(v.ty)) });
            }
            if let Some(v) = env.get(n) {
                if let Ty::Fn(ptys, rty) = &v.ty {
                    if ptys.len() != args.len() {
                        return Err(unsupported(at, "closure call arity"));
                    }
                    let mut a = vec![];
                    for (x, pt) in args.iter().zip(ptys.iter()) {
                        let av = self.pure(x, env, Some(pt))?;
                        join(&av.ty, pt).map_err(|m| unsupported(at, &m))?;
                        a.push(av.s);
                    }
                    return Ok(Val { s: app(&v.coq, &a), ty: (**rty).clone() });
                }
                return Err(unsupported(at, &format!("call of local `{}` which is not a closure", n)));
            }
            let local_def = self.t.file_defs.get(&self.cur_file).map(|d| d.fns.contains(n)).unwrap_or(false);
            let fs: Vec<FnInfo> = self.find_fns(None, n).into_iter().filter(|f| !local_def || f.file == self.cur_file).collect();
            if fs.len() == 1 {
                let cg = self.turbofish_consts(last, env, Some(&fs[0]))?;
                return self.apply_fn(&fs[0], &cg, None, &args, env, at);
            }
            if local_def {
                return Err(unsupported(at, &format!("call of `{}`: this file defines its own `{}`, which is not configured (a function of that name configured from another file is a different function)", n, n)));
            }
            if (n == "min" || n == "max") && args.len() == 2 {
                return self.minmax(n, args[0], args[1], env, hint, at);
            }
            let rn = self.resolve_type_name(n);
            if let Some(s) = self.t.struct_info(&rn) {
                // tuple struct constructor
                let s = s.clone();
                if s.fields.len() != args.len() {
                    return Err(unsupported(at, "tuple struct constructor arity"));
                }
                let mut a = vec![];
                for (x, f) in args.iter().zip(s.fields.iter()) {
                    a.push(self.pure(x, env, Some(&f.ty))?.s);
                }
                return Ok(Val { s: app(&s.ctor, &a), ty: Ty::Adt(s.name.clone()) });
            }
            return Err(unsupported(at, &format!("call of `{}`: not a configured function (add it to functions.txt before its caller)", n)));
        }
        if let Some((f, vals)) = self.trait_static_target(&p.path, env, at)? {
            *self.assoc_override.borrow_mut() = Some((f.key.clone(), vals));
            self.turbofish_types = None;
            return self.apply_fn(&f, &[], None, &args, env, at);
        }
        let fname = segs[segs.len() - 1].as_str();
        let mut tname_s = segs[segs.len() - 2].clone();
        if (fname == "min" || fname == "max") && tname_s == "cmp" && args.len() == 2 {
            return self.minmax(fname, args[0], args[1], env, hint, at);
        }
        if segs.len() == 3 {
            // `module::Type::f`: a module-qualified table key, or just the type
            let q = format!("{}.{}", segs[0], segs[1]);
            if self.t.adts.contains_key(&q) {
                tname_s = q;
            }
        } else if segs.len() != 2 {
            return Err(unsupported(at, &format!("call of `{}`", segs.join("::"))));
        }
        let tname = tname_s.as_str();
        if let Some(t) = IntTy::from_name(tname) {
            if fname == "from" && args.len() == 1 {
                let v = self.pure(args[0], env, None)?;
                return match v.ty {
                    Ty::Int(Some(f)) if f.widens_to(t) => Ok(Val { s: v.s, ty: Ty::int(t) }),
                    // a local initialised with an unsuffixed literal: its type is whatever makes `from` well typed
                    Ty::Int(None) => Ok(Val { s: v.s, ty: Ty::int(t) }),
                    Ty::Bool => Ok(Val { s: format!("(if {} then 1 else 0)", v.s), ty: Ty::int(t) }),
                    _ => Err(unsupported(at, &format!("`{}::from` on {}", tname, v.ty.show()))),
                };
            }
            if fname == "try_from" && args.len() == 1 {
                let v = self.pure(args[0], env, None)?;
                return match v.ty {
                    Ty::Int(Some(_)) if t == IntTy::Usize => {
                        // `usize::try_from(x)`: the bound is the width of usize
                        self.usize_w.set(true);
                        Ok(Val { s: format!("(Casts.try_from_usize {})", v.s), ty: Ty::Result(Box::new(Ty::int(t)), Box::new(Ty::Unit)) })
                    }
                    Ty::Int(Some(_)) => Ok(Val { s: format!("(Casts.try_from_range {} {} {})", lit(t.min_val()), lit(t.max_val()), v.s), ty: Ty::Result(Box::new(Ty::int(t)), Box::new(Ty::Unit)) }),
                    _ => Err(unsupported(at, &format!("`{}::try_from` on {}", tname, v.ty.show()))),
                };
            }
            if (fname == "from_le_bytes" || fname == "from_be_bytes") && args.len() == 1 && !t.signed() {
                let n = (t.bits() / 8) as usize;
                let want = Ty::Tuple(vec![Ty::int(IntTy::U8); n]);
                let v = self.pure(args[0], env, Some(&want))?;
                join(&v.ty, &want).map_err(|m| unsupported(at, &m))?;
                let names: Vec<String> = (0..n).map(|i| format!("b{}_", i)).collect();
                return Ok(Val { s: format!("(let '({}) := {} in Casts.{} [{}])", names.join(", "), v.s, fname, names.join("; ")), ty: Ty::int(t) });
            }
            return Err(unsupported(at, &format!("`{}::{}`", tname, fname)));
        }
        let tn = self.resolve_type_name(tname);
        if !self.t.adts.contains_key(&tn) && !self.t.externs.contains_key(&tn) && tname.chars().next().map(|c| c.is_lowercase()).unwrap_or(false) {
            // `module::function(..)`
            let fs = self.find_fns(None, fname);
            if fs.len() == 1 {
                let cg = self.turbofish_consts(last, env, Some(&fs[0]))?;
                return self.apply_fn(&fs[0], &cg, None, &args, env, at);
            }
        }
        if let Some(x) = self.t.externs.get(&tn).cloned() {
            let avs: Vec<Option<Val>> = args.iter().map(|a| self.pure(a, env, None).ok()).collect();
            let cand = x.statics.iter().find(|c| {
                c.0 == fname && c.1.len() == args.len() && c.1.iter().zip(avs.iter()).all(|(t, v)| v.as_ref().map(|v| join(&v.ty, t).is_ok()).unwrap_or(true))
            });
            if let Some((_, atys, rty, f)) = cand {
                let mut a = self.extern_row(&x, env, at)?;
                for (arg, t) in args.iter().zip(atys.iter()) {
                    let v = self.pure(arg, env, Some(t))?;
                    join(&v.ty, t).map_err(|m| unsupported(at, &m))?;
                    a.push(v.s);
                }
                let rty = if *rty == Ty::Extern("Self".into()) { Ty::Extern(tn.clone()) } else { rty.clone() };
                return Ok(Val { s: app(f, &a), ty: rty });
            }
        }
        // enum tuple variant constructor
        if let Some(e) = self.t.enum_info(&tn) {
            if let Some(v) = e.variants.iter().find(|v| v.name == fname) {
                let v = v.clone();
                if v.fields.len() != args.len() {
                    return Err(unsupported(at, "variant constructor arity"));
                }
                let mut a = vec![];
                for (x, (_, ft)) in args.iter().zip(v.fields.iter()) {
                    a.push(self.pure(x, env, Some(ft))?.s);
                }
                return Ok(Val { s: app(&v.ctor, &a), ty: Ty::Adt(tn) });
            }
        }
        let mut fs = self.find_fns(Some(&tn), fname);
        if fs.is_empty() && !self.t.adts.contains_key(&tn) {
            // `MajorMinor::new(..)`: the monomorphic instances `MajorMinor<..>` whose parameter types fit the arguments
            let prefix = format!("{}<", tn);
            let avs: Vec<Option<Val>> = args.iter().map(|a| self.pure(a, env, None).ok()).collect();
            fs = self
                .t
                .fns
                .iter()
                .filter(|f| f.name == fname && f.self_ty.as_deref().map(|s| s.starts_with(&prefix)).unwrap_or(false) && f.self_kind == SelfKind::None && f.params.len() == args.len())
                .filter(|f| f.params.iter().zip(avs.iter()).all(|(p, a)| a.as_ref().map(|v| join(&v.ty, &p.1).is_ok()).unwrap_or(true)))
                .cloned()
                .collect();
        }
        let fs: Vec<FnInfo> = if fs.len() > 1 {
            // several trait impls (e.g. From<A>, From<B>): choose by the first argument's type
            let a0 = if args.is_empty() { None } else { self.pure(args[0], env, None).ok() };
            fs.into_iter()
                .filter(|f| match (&a0, f.params.first()) {
                    (Some(v), Some(p)) if f.self_kind == SelfKind::None => join(&v.ty, &p.1).is_ok(),
                    _ => true,
                })
                .collect()
        } else {
            fs
        };
        if fs.len() == 1 {
            let cg = self.turbofish_consts(last, env, Some(&fs[0]))?;
            return self.apply_fn(&fs[0], &cg, None, &args, env, at);
        }
        Err(unsupported(at, &format!("call of `{}::{}`: {} (add it to functions.txt before its caller)", tn, fname, if fs.is_empty() { "not a configured function" } else { "ambiguous" })))
    }

    fn minmax(&mut self, n: &str, a: &Expr, b: &Expr, env: &Env, hint: Option<&Ty>, at: &Expr) -> R<Val> {
        let ih = hint.filter(|h| h.is_int());
        let mut l = self.pure(a, env, ih)?;
        let r = self.pure(b, env, Some(&l.ty))?;
        if matches!(l.ty, Ty::Int(None)) {
            l = self.pure(a, env, Some(&r.ty))?;
        }
        let t = join(&l.ty, &r.ty).map_err(|m| unsupported(at, &m))?;
        if !t.is_int() {
            return Err(unsupported(at, &format!("`{}` on {}", n, t.show())));
        }
        Ok(Val { s: format!("(Z.{} {} {})", n, l.s, r.s), ty: t })
    }

    fn closure1(&mut self, c: &Expr, arg_ty: &Ty, env: &Env, hint: Option<&Ty>) -> R<(String, Val)> {
        match c {
            Expr::Closure(cl) if cl.inputs.len() == 1 => {
                let mut env2 = env.clone();
                let p = self.bind_pat(&cl.inputs[0], arg_ty, &mut env2)?;
                let b = self.pure(&cl.body, &env2, hint)?;
                Ok((p, b))
            }
            _ => Err(unsupported(c, "argument that is not a one-parameter closure")),
        }
    }

    pub fn method_call(&mut self, m: &ExprMethodCall, env: &Env, hint: Option<&Ty>) -> R<Val> {
        let at = &Expr::MethodCall(m.clone());
        let name = m.method.to_string();
        let args: Vec<&Expr> = m.args.iter().collect();
        if name == "unwrap" && args.is_empty() {
            if let Expr::MethodCall(inner) = &*m.receiver {
                if inner.method == "try_into" && inner.args.is_empty() {
                    // `slice.try_into().unwrap()`: the array (N-tuple) of a slice; N must be known from the context
                    let sv = self.pure(&inner.receiver, env, None)?;
                    let elem = match &sv.ty {
                        Ty::Slice(t) if t.is_int() => (**t).clone(),
                        t => return Err(unsupported(at, &format!("`try_into().unwrap()` on {} (only slice of integers -> array)", t.show()))),
                    };
                    let n = match hint {
                        Some(Ty::Tuple(ts)) if (2..=4).contains(&ts.len()) && ts.iter().all(|t| join(t, &elem).is_ok()) => ts.len(),
                        _ => return Err(unsupported(at, "`slice.try_into().unwrap()` whose array length (2..4) is not known from an annotation or from its use")),
                    };
                    return Ok(Val { s: format!("(Casts.array{}_of_slice {})", n, sv.s), ty: Ty::Tuple(vec![elem; n]) });
                }
            }
        }
        let recv = self.pure(&m.receiver, env, None)?;
        if ((name == "unwrap" && args.is_empty()) || (name == "expect" && args.len() == 1)) && matches!(recv.ty, Ty::Option(_) | Ty::Result(_, _)) {
            // `unwrap()` / `expect(..)` panic on None / Err: translated at statement level of a partial function only
            if !self.partial {
                self.needs_partial = true;
                return Err(unsupported(at, "`unwrap()` / `expect()` (panics: retry as a partial function)"));
            }
            return Err(unsupported(at, "`unwrap()` / `expect()` in a position where the panic cannot be sequenced (inside a closure or a pure operand): bind it with `let` first"));
        }
        match recv.ty.clone() {
            Ty::Int(t) => self.int_method(&name, recv, t, m, &args, env, hint, at),
            Ty::Adt(n) => {
                let fs = self.find_fns(Some(&n), &name);
                // a value of an instantiated type parameter: only the methods of the parameter's trait bounds
                let fs: Vec<FnInfo> = match self.inst_traits.get(&n) {
                    // (the bounds' supertraits and blanket impls are not known here: any trait method, never an inherent one;
                    //  a method of a bound itself wins)
                    Some(bounds) => {
                        let traits: Vec<FnInfo> = fs.into_iter().filter(|f| f.trait_name.is_some()).collect();
                        let direct: Vec<FnInfo> = traits.iter().filter(|f| f.trait_name.as_deref().map(|t| bounds.contains(t.split('<').next().unwrap())).unwrap_or(false)).cloned().collect();
                        if direct.is_empty() { traits } else { direct }
                    }
                    None => fs,
                };
                let via_bound = self.inst_traits.contains_key(&n);
                // a concrete receiver: Rust prefers the inherent method over trait methods of the same name
                let fs: Vec<FnInfo> = if !via_bound && fs.len() > 1 && fs.iter().filter(|f| f.trait_name.is_none()).count() == 1 {
                    fs.into_iter().filter(|f| f.trait_name.is_none()).collect()
                } else {
                    fs
                };
                let fs: Vec<FnInfo> = if fs.len() > 1 {
                    let a0 = if args.is_empty() { None } else { self.pure(args[0], env, None).ok() };
                    fs.into_iter()
                        .filter(|f| match (&a0, f.params.first()) {
                            (Some(v), Some(p)) => join(&v.ty, &p.1).is_ok(),
                            _ => true,
                        })
                        .collect()
                } else {
                    fs
                };
                if fs.len() == 1 {
                    if fs[0].self_kind == SelfKind::None {
                        return Err(unsupported(at, "method call of an associated function without self"));
                    }
                    if !via_bound {
                        self.check_not_shadowed(&fs[0], at)?;
                    }
                    return self.apply_fn(&fs[0], &[], Some(&recv), &args, env, at);
                }
                if name == "clone" && args.is_empty() {
                    let ok = match self.t.adts.get(&n) {
                        Some(Adt::Struct(s)) => s.module.contains("clone:"),
                        Some(Adt::Enum(e)) => e.module.contains("clone:") || e.name == "Ordering",
                        None => false,
                    };
                    if !ok {
                        return Err(unsupported(at, &format!("`clone()` on `{}`, which does not derive Clone / Copy (a hand-written clone is not translated)", n)));
                    }
                    return Ok(recv);
                }
                if name == "into" && args.is_empty() {
                    // `x.into()` where an Option<X> is expected: `Some(x)`
                    if let Some(Ty::Option(t)) = hint {
                        if join(t, &recv.ty).is_ok() {
                            return Ok(Val { s: format!("(Some {})", recv.s), ty: Ty::Option(Box::new(recv.ty.clone())) });
                        }
                    }
                }
                Err(unsupported(at, &format!("method `{}::{}`: {} (add it to functions.txt before its caller)", n, name, if fs.is_empty() { "not a configured function" } else { "ambiguous" })))
            }
            Ty::Param(g) if self.generic_tys.contains(g.split("::").next().unwrap()) || env.get(&format!("{}::{}", g, name)).is_some() => {
                // a method of a generic type parameter's bound: a function parameter of the translated definition
                let key = format!("{}::{}", g, name);
                match env.get(&key) {
                    Some(v) => match &v.ty {
                        Ty::Fn(ptys, rty) if ptys.len() == args.len() + 1 => {
                            join(&recv.ty, &ptys[0]).map_err(|m| unsupported(at, &m))?;
                            let mut a = vec![recv.s.clone()];
                            for (x, pt) in args.iter().zip(ptys.iter().skip(1)) {
                                let av = self.pure(x, env, Some(pt))?;
                                join(&av.ty, pt).map_err(|m| unsupported(at, &m))?;
                                a.push(av.s);
                            }
                            Ok(Val { s: app(&v.coq, &a), ty: (**rty).clone() })
                        }
                        _ => Err(unsupported(at, &format!("method `{}` of the generic parameter `{}`: its `assoc` type is not a function of {} arguments", name, g, args.len() + 1))),
                    },
                    None => Err(unsupported(at, &format!("method `{}` on a value of the generic type `{}` (give `assoc {} fn({},..)->..`)", name, g, name, g))),
                }
            }
            Ty::Option(inner) => self.option_method(&name, recv, &inner, &args, env, hint, at),
            Ty::Slice(elem) => match (name.as_str(), args.len()) {
                ("get", 1) if matches!(strip_parens(args[0]), Expr::Range(_)) => {
                    let r = match strip_parens(args[0]) {
                        Expr::Range(r) => r,
                        _ => unreachable!(),
                    };
                    if !matches!(r.limits, RangeLimits::HalfOpen(_)) {
                        return Err(unsupported(at, "slice.get with an inclusive range"));
                    }
                    let us = Ty::int(IntTy::Usize);
                    let a = match &r.start {
                        Some(a) => {
                            let v = self.pure(a, env, Some(&us))?;
                            join(&v.ty, &us).map_err(|m| unsupported(at, &m))?;
                            v.s
                        }
                        None => "0".to_string(),
                    };
                    let s = match &r.end {
                        Some(b) => {
                            let v = self.pure(b, env, Some(&us))?;
                            join(&v.ty, &us).map_err(|m| unsupported(at, &m))?;
                            format!("(Casts.slice_range {} {} {})", recv.s, a, v.s)
                        }
                        None => format!("(Casts.slice_from {} {})", recv.s, a),
                    };
                    Ok(Val { s, ty: Ty::Option(Box::new(recv.ty.clone())) })
                }
                ("get", 1) => {
                    let i = self.pure(args[0], env, Some(&Ty::int(IntTy::Usize)))?;
                    if !i.ty.is_int() {
                        return Err(unsupported(at, "slice.get with a range (only an index is translated)"));
                    }
                    Ok(Val { s: format!("(Casts.slice_get {} {})", recv.s, i.s), ty: Ty::Option(elem.clone()) })
                }
                ("len", 0) => Ok(Val { s: format!("(Z.of_nat (length {}))", recv.s), ty: Ty::int(IntTy::Usize) }),
                ("last", 0) => Ok(Val { s: format!("(Casts.slice_last {})", recv.s), ty: Ty::Option(elem.clone()) }),
                // `str.chars()`: the iterator is the part of the string not yet passed
                ("chars", 0) if *elem == Ty::Int(Some(IntTy::U32)) => Ok(Val { s: recv.s.clone(), ty: Ty::Iter(elem.clone()) }),
                // consumers of a list of items (the value of an `impl Iterator` function, `slice.iter()`)
                ("iter", 0) | ("into_iter", 0) | ("copied", 0) | ("cloned", 0) => Ok(recv),
                ("any", 1) | ("all", 1) => {
                    let (p, b) = self.closure1(args[0], &elem, env, Some(&Ty::Bool))?;
                    if b.ty != Ty::Bool {
                        return Err(unsupported(at, "closure that does not return bool"));
                    }
                    Ok(Val { s: format!("({} (fun x_ : {} => let '{} := x_ in {}) {})", if name == "any" { "existsb" } else { "forallb" }, self.t.coq_ty(&elem)?, p, b.s, recv.s), ty: Ty::Bool })
                }
                ("enumerate", 0) => Ok(Val { s: format!("(Casts.enumerate {})", recv.s), ty: Ty::Slice(Box::new(Ty::Tuple(vec![Ty::int(IntTy::Usize), (*elem).clone()]))) }),
                ("find", 1) => {
                    let (p, b) = self.closure1(args[0], &elem, env, Some(&Ty::Bool))?;
                    if b.ty != Ty::Bool {
                        return Err(unsupported(at, "closure that does not return bool"));
                    }
                    Ok(Val { s: format!("(List.find (fun x_ : {} => let '{} := x_ in {}) {})", self.t.coq_ty(&elem)?, p, b.s, recv.s), ty: Ty::Option(elem.clone()) })
                }
                ("count", 0) => Ok(Val { s: format!("(Z.of_nat (length {}))", recv.s), ty: Ty::int(IntTy::Usize) }),
                ("filter_map", 1) => {
                    let (p, b) = self.closure1(args[0], &elem, env, None)?;
                    let bt = match &b.ty {
                        Ty::Option(t) => (**t).clone(),
                        t => return Err(unsupported(at, &format!("`filter_map` closure returning {} (not Option)", t.show()))),
                    };
                    Ok(Val { s: format!("(flat_map (fun x_ : {} => let '{} := x_ in match {} with Some y_ => [y_] | None => [] end) {})", self.t.coq_ty(&elem)?, p, b.s, recv.s), ty: Ty::Slice(Box::new(bt)) })
                }
                // `str::split(char)` / `strip_suffix(char)` on the list of chars
                ("split", 1) if *elem == Ty::Int(Some(IntTy::U32)) => {
                    let c = self.pure(args[0], env, Some(&elem))?;
                    join(&c.ty, &elem).map_err(|m| unsupported(at, &format!("`split` with a pattern that is not a char: {}", m)))?;
                    Ok(Val { s: format!("(Casts.split_char {} {})", c.s, recv.s), ty: Ty::Slice(Box::new(recv.ty.clone())) })
                }
                ("strip_suffix", 1) if *elem == Ty::Int(Some(IntTy::U32)) => {
                    let c = self.pure(args[0], env, Some(&elem))?;
                    join(&c.ty, &elem).map_err(|m| unsupported(at, &format!("`strip_suffix` with a pattern that is not a char: {}", m)))?;
                    Ok(Val { s: format!("(Casts.strip_suffix_char {} {})", c.s, recv.s), ty: Ty::Option(Box::new(recv.ty.clone())) })
                }
                ("first", 0) => Ok(Val { s: format!("(List.hd_error {})", recv.s), ty: Ty::Option(elem.clone()) }),
                ("windows", 1) if matches!(strip_parens(args[0]), Expr::Lit(ExprLit { lit: Lit::Int(i), .. }) if i.base10_digits() == "3") => {
                    // `s.windows(3)`: the iterator is the part of the slice not yet passed
                    Ok(Val { s: recv.s.clone(), ty: Ty::Windows(elem.clone()) })
                }
                ("is_empty", 0) => Ok(Val { s: format!("(Z.of_nat (length {}) =? 0)", recv.s), ty: Ty::Bool }),
                _ => Err(unsupported(at, &format!("slice method `{}` (only get(index), len, is_empty and the `get_mut(i).ok_or(e).map(|b| *b = v)` idiom are translated)", name))),
            },
            Ty::Iter(_) if name == "count" && args.is_empty() => Ok(Val { s: format!("(Z.of_nat (length {}))", recv.s), ty: Ty::int(IntTy::Usize) }),
            Ty::Extern(n) => {
                let e = self.t.externs.get(&n).cloned().ok_or_else(|| unsupported(at, "unknown extern type"))?;
                let ty_of = |t: &Ty| if *t == Ty::Extern("Self".into()) { Ty::Extern(n.clone()) } else { t.clone() };
                let want: Vec<Ty> = e.margs.get(&name).cloned().unwrap_or_default();
                match e.methods.iter().find(|m| m.0 == name) {
                    Some((_, ty, f)) if args.len() == want.len() => {
                        let ty = &ty_of(ty);
                        let mut a = self.extern_row(&e, env, at)?;
                        a.push(recv.s.clone());
                        for (x, t) in args.iter().zip(want.iter()) {
                            let v = self.pure(x, env, Some(t))?;
                            join(&v.ty, t).map_err(|m| unsupported(at, &m))?;
                            a.push(v.s);
                        }
                        Ok(Val { s: app(f, &a), ty: ty.clone() })
                    }
                    _ => Err(unsupported(at, &format!("method `{}` on extern type `{}` (not listed in its `extern` line)", name, n))),
                }
            }
            Ty::Range(t) | Ty::RangeIncl(t) => {
                let incl = matches!(recv.ty, Ty::RangeIncl(_));
                match (name.as_str(), args.len()) {
                    ("start", 0) => Ok(Val { s: format!("(fst {})", recv.s), ty: *t }),
                    ("end", 0) => Ok(Val { s: format!("(snd {})", recv.s), ty: *t }),
                    ("clone", 0) => Ok(recv),
                    ("contains", 1) => {
                        let x = self.pure(args[0], env, Some(&t))?;
                        join(&x.ty, &t).map_err(|e| unsupported(at, &e))?;
                        let hi = if incl { "<=?" } else { "<?" };
                        Ok(Val { s: format!("((fst {r} <=? {x}) && ({x} {hi} snd {r}))", r = recv.s, x = x.s, hi = hi), ty: Ty::Bool })
                    }
                    ("is_empty", 0) => {
                        let lt = if incl { "<=?" } else { "<?" };
                        Ok(Val { s: format!("(negb (fst {r} {lt} snd {r}))", r = recv.s, lt = lt), ty: Ty::Bool })
                    }
                    _ => Err(unsupported(at, &format!("range method `{}`", name))),
                }
            }
            Ty::Bool if name == "into" && args.is_empty() && matches!(hint, Some(Ty::Extern(_))) => {
                let xn = match hint {
                    Some(Ty::Extern(x)) => x.clone(),
                    _ => unreachable!(),
                };
                let x = self.t.externs.get(&xn).cloned().ok_or_else(|| unsupported(at, "unknown extern type"))?;
                match x.statics.iter().find(|c| c.0 == "from_bool") {
                    Some((_, _, _, f)) => {
                        let mut a = self.extern_row(&x, env, at)?;
                        a.push(recv.s.clone());
                        Ok(Val { s: app(f, &a), ty: Ty::Extern(xn) })
                    }
                    None => Err(unsupported(at, &format!("`bool.into()` to `{}` (no `fn:from_bool` member)", xn))),
                }
            }
            Ty::Bool if name == "then_some" && args.len() == 1 => {
                let v = self.pure(args[0], env, None)?;
                Ok(Val { s: format!("(if {} then Some {} else None)", recv.s, v.s), ty: Ty::Option(Box::new(v.ty)) })
            }
            t => {
                if name == "clone" && args.is_empty() {
                    return Ok(recv);
                }
                Err(unsupported(at, &format!("method `{}` on a value of type {}", name, t.show())))
            }
        }
    }

    #[allow(clippy::too_many_arguments)]
    fn int_method(&mut self, name: &str, recv: Val, t: Option<IntTy>, m: &ExprMethodCall, args: &[&Expr], env: &Env, hint: Option<&Ty>, at: &Expr) -> R<Val> {
        let need = |what: &str| -> R<IntTy> { t.ok_or_else(|| unsupported(at, &format!("cannot infer the integer type of the receiver of `{}`", what))) };
        let same = recv.ty.clone();
        let mut arg = |tr: &mut Tr, i: usize, h: &Ty| -> R<Val> {
            let v = tr.pure(args[i], env, Some(h))?;
            join(&v.ty, h).map_err(|e| unsupported(at, &e))?;
            Ok(v)
        };
        match (name, args.len()) {
            ("min", 1) | ("max", 1) => {
                let a = arg(self, 0, &same)?;
                let ty = join(&same, &a.ty).map_err(|e| unsupported(at, &e))?;
                Ok(Val { s: format!("(Z.{} {} {})", name, recv.s, a.s), ty })
            }
            ("to_le_bytes", 0) | ("to_be_bytes", 0) => {
                let t = need(name)?;
                if t.signed() || t.bits() < 16 || t.bits() > 32 {
                    return Err(unsupported(at, &format!("`{}` on {} (only u16 / u32)", name, t.name())));
                }
                let n = (t.bits() / 8) as usize;
                let idx: Vec<usize> = if name == "to_le_bytes" { (0..n).collect() } else { (0..n).rev().collect() };
                let bytes: Vec<String> = idx.iter().map(|k| format!("Casts.byte_of v_ {}", k)).collect();
                Ok(Val { s: format!("(let v_ := {} in ({}))", recv.s, bytes.join(", ")), ty: Ty::Tuple(vec![Ty::int(IntTy::U8); n]) })
            }
            ("abs", 0) => {
                if !need("abs")?.signed() {
                    return Err(unsupported(at, "abs on unsigned"));
                }
                Ok(Val { s: format!("(Z.abs {})", recv.s), ty: same })
            }
            ("unsigned_abs", 0) => Ok(Val { s: format!("(Z.abs {})", recv.s), ty: Ty::int(need("unsigned_abs")?.unsigned_counterpart()) }),
            ("abs_diff", 1) => {
                let a = arg(self, 0, &same)?;
                Ok(Val { s: format!("(Z.abs ({} - {}))", recv.s, a.s), ty: Ty::int(need("abs_diff")?.unsigned_counterpart()) })
            }
            ("cmp", 1) => {
                let a = arg(self, 0, &same)?;
                Ok(Val { s: format!("(Z.compare {} {})", recv.s, a.s), ty: Ty::Adt("Ordering".into()) })
            }
            ("signum", 0) => Ok(Val { s: format!("(Z.sgn {})", recv.s), ty: same }),
            ("is_positive", 0) => Ok(Val { s: format!("(0 <? {})", recv.s), ty: Ty::Bool }),
            ("is_negative", 0) => Ok(Val { s: format!("({} <? 0)", recv.s), ty: Ty::Bool }),
            ("pow", 1) => {
                let a = arg(self, 0, &Ty::int(IntTy::U32))?;
                Ok(Val { s: format!("(Z.pow {} {})", recv.s, a.s), ty: same })
            }
            ("saturating_add", 1) | ("saturating_sub", 1) | ("saturating_mul", 1) => {
                let ty = need(name)?;
                let a = arg(self, 0, &same)?;
                let op = &name["saturating_".len()..];
                let q = if matches!((op, ty), ("add", IntTy::U32) | ("sub", IntTy::U32) | ("add", IntTy::I32)) { "Prelude" } else { "Casts" };
                if ty == IntTy::Usize {
                    self.usize_w.set(true);
                }
                Ok(Val { s: format!("({}.sat_{}_{} {} {})", q, op, ty.name(), recv.s, a.s), ty: same })
            }
            ("wrapping_add", 1) | ("wrapping_sub", 1) | ("wrapping_mul", 1) => {
                let ty = need(name)?;
                let a = arg(self, 0, &same)?;
                let op = match &name["wrapping_".len()..] {
                    "add" => "+",
                    "sub" => "-",
                    _ => "*",
                };
                Ok(Val { s: format!("(Casts.wrap_{} ({} {} {}))", ty.name(), recv.s, op, a.s), ty: same })
            }
            ("checked_add", 1) | ("checked_sub", 1) | ("checked_mul", 1) => {
                let ty = need(name)?;
                let a = arg(self, 0, &same)?;
                let op = match &name["checked_".len()..] {
                    "add" => "+",
                    "sub" => "-",
                    _ => "*",
                };
                if ty == IntTy::Usize {
                    self.usize_w.set(true);
                }
                Ok(Val { s: format!("(Casts.checked_{} ({} {} {}))", ty.name(), recv.s, op, a.s), ty: Ty::Option(Box::new(same)) })
            }
            ("rem_euclid", 1) => {
                let a = arg(self, 0, &same)?;
                Ok(Val { s: format!("({} mod (Z.abs {}))", recv.s, a.s), ty: same })
            }
            ("div_euclid", 1) => {
                let a = arg(self, 0, &same)?;
                Ok(Val { s: format!("(Casts.div_euclid {} {})", recv.s, a.s), ty: same })
            }
            ("saturating_as", 0) => {
                let from = need("saturating_as")?;
                let to = match &m.turbofish {
                    Some(tf) if tf.args.len() == 1 => match &tf.args[0] {
                        GenericArgument::Type(x) => self.ty(x)?,
                        _ => return Err(unsupported(at, "turbofish of saturating_as")),
                    },
                    _ => match hint {
                        Some(Ty::Int(Some(t))) => Ty::int(*t),
                        _ => return Err(unsupported(at, "cannot infer the target type of `saturating_as()`")),
                    },
                };
                let to_i = match &to {
                    Ty::Int(Some(t)) => *t,
                    _ => return Err(unsupported(at, "saturating_as to a non-integer")),
                };
                let s = match (from, to_i) {
                    (IntTy::U32, IntTy::I32) => format!("(Prelude.sat_u32_to_i32 {})", recv.s),
                    (IntTy::I32, IntTy::U32) => format!("(Prelude.sat_i32_to_u32 {})", recv.s),
                    (f, t) if f == t => recv.s.clone(),
                    (_, t) => {
                        if t == IntTy::Usize {
                            self.usize_w.set(true);
                        }
                        format!("(Casts.sat_as_{} {})", t.name(), recv.s)
                    }
                };
                Ok(Val { s, ty: to })
            }
            ("into", 0) => match (t, hint) {
                (Some(f), Some(Ty::Int(Some(to)))) if f.widens_to(*to) => Ok(Val { s: recv.s, ty: Ty::int(*to) }),
                _ => Err(unsupported(at, "`.into()` on an integer without a known lossless integer target")),
            },
            ("clone", 0) => Ok(recv),
            _ => Err(unsupported(at, &format!("integer method `{}` (not in the whitelist)", name))),
        }
    }

    #[allow(clippy::too_many_arguments)]
    fn option_method(&mut self, name: &str, recv: Val, inner: &Ty, args: &[&Expr], env: &Env, hint: Option<&Ty>, at: &Expr) -> R<Val> {
        match (name, args.len()) {
            ("is_some", 0) => Ok(Val { s: format!("(match {} with | Some _ => true | None => false end)", recv.s), ty: Ty::Bool }),
            ("is_none", 0) => Ok(Val { s: format!("(match {} with | Some _ => false | None => true end)", recv.s), ty: Ty::Bool }),
            ("is_some_and", 1) => {
                let (p, b) = self.closure1(args[0], inner, env, Some(&Ty::Bool))?;
                if b.ty != Ty::Bool {
                    return Err(unsupported(at, "is_some_and closure does not return bool"));
                }
                Ok(Val { s: format!("(match {} with | Some {} => {} | None => false end)", recv.s, p, b.s), ty: Ty::Bool })
            }
            ("map", 1) if matches!(args[0], Expr::Path(p) if p.path.segments.len() == 2 && p.path.segments[0].ident == "Into" && p.path.segments[1].ident == "into") => {
                // `.map(Into::into)`: the `From<inner>` of the expected element type
                let target = match hint {
                    Some(Ty::Option(t)) => (**t).clone(),
                    _ => return Err(unsupported(at, "`.map(Into::into)` without a known target type")),
                };
                match &target {
                    Ty::Extern(xn) => {
                        let x = self.t.externs.get(xn).cloned().ok_or_else(|| unsupported(at, "unknown extern type"))?;
                        let c = x.statics.iter().find(|c| c.0 == "from" && c.1.len() == 1 && join(&c.1[0], inner).is_ok());
                        match c {
                            Some((_, _, _, f)) => {
                                let mut a = self.extern_row(&x, env, at)?;
                                a.push("v_".to_string());
                                Ok(Val { s: format!("(match {} with | Some v_ => Some {} | None => None end)", recv.s, app(f, &a)), ty: Ty::Option(Box::new(target.clone())) })
                            }
                            None => Err(unsupported(at, &format!("`.map(Into::into)` to `{}`: no `fn:from` member for {}", xn, inner.show()))),
                        }
                    }
                    Ty::Adt(n) => {
                        // the configured `impl From<inner> for n` (exactly one)
                        let fs: Vec<FnInfo> = self
                            .find_fns(Some(n), "from")
                            .into_iter()
                            .filter(|f| f.trait_name.as_deref().map_or(false, |t| t.starts_with("From<")) && f.params.len() == 1 && join(&f.params[0].1, inner).is_ok() && f.self_kind == SelfKind::None)
                            .collect();
                        if fs.len() != 1 {
                            return Err(unsupported(at, &format!("`.map(Into::into)` to `{}`: {} configured `From<{}>::from`", n, fs.len(), inner.show())));
                        }
                        let f = fs[0].clone();
                        if f.opt() || f.has_mut_params() || !f.assoc_params.is_empty() || !f.const_generics.is_empty() || !f.mvars.is_empty() {
                            return Err(unsupported(at, &format!("`.map(Into::into)` through `{}` (fuel / parameters)", f.key)));
                        }
                        Ok(Val { s: format!("(match {} with | Some v_ => Some ({} v_) | None => None end)", recv.s, f.coq), ty: Ty::Option(Box::new(target.clone())) })
                    }
                    _ => Err(unsupported(at, "`.map(Into::into)` to a type that is not an abstract/extern type or a configured struct")),
                }
            }
            ("map", 1) if matches!(args[0], Expr::Path(_)) => {
                // `.map(Type::function)`: the function applied to the payload
                let fresh = self.fresh("v");
                let mut env2 = env.clone();
                env2.push("r2c_map_arg", var(fresh.clone(), inner.clone()));
                let call: Expr = Expr::Call(ExprCall {
                    attrs: vec![],
                    func: Box::new(args[0].clone()),
                    paren_token: Default::default(),
                    args: std::iter::once::<Expr>(syn::parse_str("r2c_map_arg").unwrap()).collect(),
                });
                let ih = match hint {
                    Some(Ty::Option(t)) => Some((**t).clone()),
                    _ => None,
                };
                let b = self.pure(&call, &env2, ih.as_ref())?;
                Ok(Val { s: format!("(match {} with | Some {} => Some {} | None => None end)", recv.s, fresh, b.s), ty: Ty::Option(Box::new(b.ty)) })
            }
            ("map", 1) => {
                let ih = match hint {
                    Some(Ty::Option(t)) => Some((**t).clone()),
                    _ => None,
                };
                let (p, b) = self.closure1(args[0], inner, env, ih.as_ref())?;
                Ok(Val { s: format!("(match {} with | Some {} => Some {} | None => None end)", recv.s, p, b.s), ty: Ty::Option(Box::new(b.ty)) })
            }
            ("and_then", 1) => {
                let (p, b) = self.closure1(args[0], inner, env, hint)?;
                if !matches!(b.ty, Ty::Option(_)) {
                    return Err(unsupported(at, "and_then closure does not return Option"));
                }
                Ok(Val { s: format!("(match {} with | Some {} => {} | None => None end)", recv.s, p, b.s), ty: b.ty })
            }
            ("map_or", 2) => {
                let d = self.pure(args[0], env, hint)?;
                let (p, b) = self.closure1(args[1], inner, env, Some(&d.ty))?;
                let ty = join(&d.ty, &b.ty).map_err(|e| unsupported(at, &e))?;
                Ok(Val { s: format!("(match {} with | Some {} => {} | None => {} end)", recv.s, p, b.s, d.s), ty })
            }
            ("unwrap_or", 1) => {
                let d = self.pure(args[0], env, Some(inner))?;
                let ty = join(&d.ty, inner).map_err(|e| unsupported(at, &e))?;
                Ok(Val { s: format!("(match {} with | Some v_ => v_ | None => {} end)", recv.s, d.s), ty })
            }
            ("or", 1) => {
                let d = self.pure(args[0], env, Some(&recv.ty))?;
                let ty = join(&d.ty, &recv.ty).map_err(|e| unsupported(at, &e))?;
                Ok(Val { s: format!("(match {} with | Some v_ => Some v_ | None => {} end)", recv.s, d.s), ty })
            }
            ("filter", 1) => {
                let (p, b) = self.closure1(args[0], inner, env, Some(&Ty::Bool))?;
                if p != "_" && !p.chars().all(|c| c.is_alphanumeric() || c == '_' || c == '\'') {
                    return Err(unsupported(at, "`Option::filter` with a destructuring closure parameter"));
                }
                let keep = if p == "_" { recv.s.clone() } else { format!("Some {}", p) };
                Ok(Val { s: format!("(match {r} with | Some {p} => if {b} then {k} else None | None => None end)", r = recv.s, p = p, b = b.s, k = keep), ty: recv.ty.clone() })
            }
            ("copied", 0) | ("cloned", 0) | ("clone", 0) => Ok(recv),
            ("unwrap", 0) | ("expect", 1) if !self.partial => {
                // `unwrap()` panics on None: the function is partial (result in `option`, None = panic)
                self.needs_partial = true;
                Err(unsupported(at, "`unwrap()` (panics: retry as a partial function)"))
            }
            _ => Err(unsupported(at, &format!("Option method `{}` (not in the whitelist; unwrap/expect panic and are not translated)", name))),
        }
    }
}
