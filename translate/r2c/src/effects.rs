//! Round 2: effectful calls (`&mut self` / `&mut` parameters / fuelled callees) anywhere in an expression (hoisted in
//! evaluation order), `&mut` aliases selected by a match, `loop` / `while` as a local `fix` over explicit fuel.
use crate::expr::app;
use crate::tr::*;
use crate::types::*;
use proc_macro2::Span;
use syn::*;

pub fn pack(comps: &[String]) -> String {
    match comps.len() {
        0 => "tt".to_string(),
        1 => comps[0].clone(),
        _ => format!("({})", comps.join(", ")),
    }
}

pub fn let_pat(pat: &[String], v: &str, rest: &str) -> String {
    match pat.len() {
        0 => format!("let _ := {} in\n{}", v, rest),
        1 => {
            if rest.trim() == pat[0] {
                v.to_string()
            } else {
                format!("let {} := {} in\n{}", pat[0], v, rest)
            }
        }
        _ => format!("let '({}) := {} in\n{}", pat.join(", "), v, rest),
    }
}

fn strip_ref(e: &Expr) -> &Expr {
    match e {
        Expr::Reference(r) => strip_ref(&r.expr),
        Expr::Paren(p) => strip_ref(&p.expr),
        Expr::Group(p) => strip_ref(&p.expr),
        Expr::Unary(u) if matches!(u.op, UnOp::Deref(_)) => strip_ref(&u.expr),
        _ => e,
    }
}

fn children(e: &Expr) -> Vec<Expr> {
    match e {
        Expr::Call(c) => c.args.iter().cloned().collect(),
        Expr::MethodCall(m) => std::iter::once((*m.receiver).clone()).chain(m.args.iter().cloned()).collect(),
        Expr::Tuple(t) => t.elems.iter().cloned().collect(),
        Expr::Array(t) => t.elems.iter().cloned().collect(),
        Expr::Struct(s) => s.fields.iter().map(|f| f.expr.clone()).chain(s.rest.iter().map(|r| (**r).clone())).collect(),
        Expr::Binary(b) => vec![(*b.left).clone(), (*b.right).clone()],
        Expr::Unary(u) => vec![(*u.expr).clone()],
        Expr::Cast(c) => vec![(*c.expr).clone()],
        Expr::Paren(p) => vec![(*p.expr).clone()],
        Expr::Group(p) => vec![(*p.expr).clone()],
        Expr::Field(f) => vec![(*f.base).clone()],
        Expr::Reference(r) => vec![(*r.expr).clone()],
        Expr::Index(i) => vec![(*i.expr).clone(), (*i.index).clone()],
        Expr::Range(r) => r.start.iter().map(|x| (**x).clone()).chain(r.end.iter().map(|x| (**x).clone())).collect(),
        _ => vec![],
    }
}

fn with_child(e: &Expr, i: usize, new: Expr) -> Expr {
    let mut e = e.clone();
    match &mut e {
        Expr::Call(c) => *c.args.iter_mut().nth(i).unwrap() = new,
        Expr::MethodCall(m) => {
            if i == 0 {
                *m.receiver = new
            } else {
                *m.args.iter_mut().nth(i - 1).unwrap() = new
            }
        }
        Expr::Tuple(t) => *t.elems.iter_mut().nth(i).unwrap() = new,
        Expr::Array(t) => *t.elems.iter_mut().nth(i).unwrap() = new,
        Expr::Struct(s) => {
            let n = s.fields.len();
            if i < n {
                s.fields.iter_mut().nth(i).unwrap().expr = new
            } else {
                s.rest = Some(Box::new(new))
            }
        }
        Expr::Binary(b) => {
            if i == 0 {
                *b.left = new
            } else {
                *b.right = new
            }
        }
        Expr::Unary(u) => *u.expr = new,
        Expr::Cast(c) => *c.expr = new,
        Expr::Paren(p) => *p.expr = new,
        Expr::Group(p) => *p.expr = new,
        Expr::Field(f) => *f.base = new,
        Expr::Reference(r) => *r.expr = new,
        Expr::Index(ix) => {
            if i == 0 {
                *ix.expr = new
            } else {
                *ix.index = new
            }
        }
        Expr::Range(r) => {
            if i == 0 && r.start.is_some() {
                r.start = Some(Box::new(new))
            } else {
                r.end = Some(Box::new(new))
            }
        }
        _ => {}
    }
    e
}

pub fn path_expr_of(name: &str) -> Expr {
    let id = Ident::new(name, Span::call_site());
    Expr::Path(ExprPath { attrs: vec![], qself: None, path: Path::from(id) })
}

impl<'a> Tr<'a> {
    /// the value of the function: new self (for `&mut self`), final values of `&mut` parameters, the result;
    /// wrapped in `Some` for fuelled functions
    pub fn finish(&mut self, v: Val, env: &Env) -> R<String> {
        let rt = self.ret_ty.clone();
        join(&v.ty, &rt).map_err(|m| format!("return value: {}", m))?;
        let mut comps = vec![];
        let _ = env;
        if self.mut_self {
            comps.push(self.self_coq.clone());
        }
        // the parameters' own Coq names: assignments rebind exactly these names, a shadowing local gets another one
        for c in self.mut_param_coq.clone() {
            comps.push(c);
        }
        if rt != Ty::Unit {
            comps.push(v.s);
        }
        let s = pack(&comps);
        Ok(if self.partial { format!("(Some {})", s) } else { s })
    }

    /// read `base.path`
    pub fn read_path(&self, base: &Val, path: &[Member], at: &Expr) -> R<Val> {
        let mut v = base.clone();
        for m in path {
            v = self.field_of(&v, m, at)?;
        }
        Ok(v)
    }

    pub fn read_alias(&self, a: &Alias, env: &Env, at: &Expr) -> R<Val> {
        let _ = env;
        let base = Val { s: a.root_coq.clone(), ty: a.root_ty.clone() };
        if a.arms.len() == 1 && a.arms[0].0 == "_" {
            return self.read_path(&base, &a.arms[0].1, at);
        }
        let mut ty = Ty::Infer;
        let mut s = format!("(match {} with", a.scrut);
        for (p, path) in a.arms.iter() {
            let v = self.read_path(&base, path, at)?;
            ty = join(&ty, &v.ty).map_err(|m| unsupported(at, &m))?;
            s.push_str(&format!(" | {} => {}", p, v.s));
        }
        s.push_str(" end)");
        Ok(Val { s, ty })
    }

    /// place expression (possibly behind `&mut` / `*`) -> (root variable, field path)
    pub fn target_of(&self, e: &Expr) -> R<(String, Vec<Member>)> {
        match strip_ref(e) {
            Expr::Path(p) if p.path.segments.len() == 1 => Ok((p.path.segments[0].ident.to_string(), vec![])),
            Expr::Field(f) => {
                let (r, mut p) = self.target_of(&f.base)?;
                p.push(f.member.clone());
                Ok((r, p))
            }
            x => Err(unsupported(x, "mutated place that is not a local variable or a field path of one")),
        }
    }

    /// `let root := <root with path := new> in rest` (through the alias if root is one)
    pub fn write_place_force(&mut self, root: &str, path: &[Member], env: &Env, new: &str, rest: &str, at: &Expr) -> R<String> {
        self.write_place(root, path, env, new, rest, at)
    }

    pub fn write_place(&mut self, root: &str, path: &[Member], env: &Env, new: &str, rest: &str, at: &Expr) -> R<String> {
        let v = env.get(root).cloned().ok_or_else(|| unsupported(at, &format!("assignment to `{}` which is not a local variable", root)))?;
        if !v.mutable && v.alias.is_none() {
            return Err(unsupported(at, &format!("write to `{}`, which is not declared `mut`: in Rust this is a write through a reference binding (destructured `&mut`, default binding mode), which is not modelled", root)));
        }
        if let Some(a) = &v.alias {
            let rv = Var { coq: a.root_coq.clone(), ty: a.root_ty.clone(), alias: None, mutable: true };
            let base = Val { s: rv.coq.clone(), ty: rv.ty.clone() };
            let upd = if a.arms.len() == 1 && a.arms[0].0 == "_" {
                let mut full = a.arms[0].1.clone();
                full.extend_from_slice(path);
                self.update(&base, &full, new, at)?
            } else {
                let mut s = format!("(match {} with", a.scrut);
                for (p, ap) in a.arms.iter() {
                    let mut full = ap.clone();
                    full.extend_from_slice(path);
                    s.push_str(&format!("\n| {} => {}", p, self.update(&base, &full, new, at)?));
                }
                s.push_str("\nend)");
                s
            };
            return Ok(let_pat(&[rv.coq.clone()], &upd, rest));
        }
        let base = Val { s: v.coq.clone(), ty: v.ty.clone() };
        let upd = self.update(&base, path, new, at)?;
        Ok(let_pat(&[v.coq.clone()], &upd, rest))
    }

    /// the variables really mutated by assignments to `names` (aliases resolved to their roots), innermost bindings, in env order
    pub fn mutated_vars(&self, names: &std::collections::BTreeSet<String>, env: &Env) -> Vec<(String, Var)> {
        // Coq names of the variables written (an alias writes its root)
        let mut real: std::collections::BTreeSet<String> = Default::default();
        for n in names {
            if let Some(v) = env.get(n) {
                match &v.alias {
                    Some(a) => {
                        real.insert(a.root_coq.clone());
                    }
                    None => {
                        real.insert(v.coq.clone());
                    }
                }
            }
        }
        let mut out: Vec<(String, Var)> = vec![];
        for (n, v) in env.vars.iter() {
            if v.alias.is_none() && real.contains(&v.coq) && !out.iter().any(|(_, x)| x.coq == v.coq) {
                out.push((n.clone(), v.clone()));
            }
        }
        out
    }

    fn arg_effects(&self, c: &Expr) -> Eff {
        match c {
            Expr::Reference(r) if r.mutability.is_some() => self.effects_expr(&r.expr),
            _ => self.effects_expr(c),
        }
    }

    fn new_tmp(&mut self) -> String {
        let c = self.counter.entry("r2c_tmp_counter".into()).or_insert(0);
        *c += 1;
        format!("r2c_t{}", *c)
    }

    /// bind an expression to a temporary: returns (new env, rust name of the temporary, coq name)
    pub fn bind_tmp(&mut self, env: &Env, v: &Val) -> (Env, String, String) {
        let rn = self.new_tmp();
        let cn = self.fresh("t");
        let mut env2 = env.clone();
        env2.push(&rn, var(cn.clone(), v.ty.clone()));
        (env2, rn, cn)
    }

    /// an expression with effects somewhere inside: evaluate its operands in order, binding them to temporaries, then the
    /// (possibly effectful) call itself
    pub fn hoist_k(&mut self, e: &Expr, env: &Env, hint: Option<&Ty>, k: K) -> R<String> {
        if let Expr::Binary(b) = e {
            if matches!(b.op, BinOp::And(_) | BinOp::Or(_)) && (self.effects_expr(&b.right).ret || !self.effects_expr(&b.right).assigned.is_empty()) {
                if !self.effects_expr(&b.right).assigned.is_empty() {
                    return Err(unsupported(e, "assignment in the right operand of `&&` / `||`"));
                }
                // short circuit: the right operand (which can exit / panic) is evaluated only when needed; the continuation
                // is emitted in both branches
                let is_and = matches!(b.op, BinOp::And(_));
                let right = (*b.right).clone();
                return self.expr_k(&b.left, env, Some(&Ty::Bool), &|tr, va| {
                    join(&va.ty, &Ty::Bool).map_err(|m| unsupported(e, &m))?;
                    let evald = tr.expr_k(&right, env, Some(&Ty::Bool), &|tr2, vb| {
                        join(&vb.ty, &Ty::Bool).map_err(|m| unsupported(e, &m))?;
                        k(tr2, vb)
                    })?;
                    let short = k(tr, Val { s: (if is_and { "false" } else { "true" }).to_string(), ty: Ty::Bool })?;
                    if is_and {
                        Ok(format!("if {} then\n{}\nelse\n{}", va.s, evald, short))
                    } else {
                        Ok(format!("if {} then\n{}\nelse\n{}", va.s, short, evald))
                    }
                });
            }
        }
        let cs = children(e);
        let effs: Vec<Eff> = cs.iter().map(|c| self.arg_effects(c)).collect();
        let has = |f: &Eff| f.ret || !f.assigned.is_empty();
        for i in 0..cs.len() {
            let later: Vec<&Eff> = effs[i + 1..].iter().filter(|f| has(f)).collect();
            if has(&effs[i]) {
                let c = cs[i].clone();
                return self.expr_k(&c, env, None, &|tr, v| {
                    if v.ty == Ty::Unit {
                        return Err(unsupported(e, "operand of type ()"));
                    }
                    let (env2, rn, cn) = tr.bind_tmp(env, &v);
                    let e2 = with_child(e, i, path_expr_of(&rn));
                    let rest = tr.expr_k(&e2, &env2, hint, k)?;
                    Ok(let_pat(&[cn], &v.s, &rest))
                });
            }
            if !later.is_empty() {
                // a pure operand evaluated before an effectful one: keep the order unless it is trivially stable
                let c = &cs[i];
                let trivial = match c {
                    Expr::Lit(_) => true,
                    Expr::Reference(r) if r.mutability.is_some() => true,
                    _ => match place_root(strip_ref(c)) {
                        Some(r) => !later.iter().any(|f| f.assigned.contains(&r)) && !matches!(strip_ref(c), Expr::MethodCall(_) | Expr::Call(_)),
                        None => false,
                    },
                };
                // the receiver of the call being built is a place that is read by the call itself
                let is_recv = i == 0 && matches!(e, Expr::MethodCall(_)) && self.recv_stays_place(e, env);
                if !trivial && !is_recv {
                    let v = self.pure(c, env, None)?;
                    let (env2, rn, cn) = self.bind_tmp(env, &v);
                    let e2 = with_child(e, i, path_expr_of(&rn));
                    let rest = self.expr_k(&e2, &env2, hint, k)?;
                    return Ok(let_pat(&[cn], &v.s, &rest));
                }
            }
        }
        // no operand has effects any more
        if matches!(e, Expr::Call(_) | Expr::MethodCall(_)) {
            if let Some(s) = self.call_k(e, env, hint, k)? {
                return Ok(s);
            }
        }
        if let Expr::Index(ix) = e {
            if !matches!(crate::expr::strip_parens(&ix.index), Expr::Range(_)) {
                if let Ok(Ty::Slice(_)) = self.pure(&ix.expr, env, None).map(|b| b.ty) {
                    return self.index_k(ix, env, e, k);
                }
            }
        }
        let v = self.pure(e, env, hint)?;
        k(self, v)
    }

    /// `list[i]`: Rust panics out of range; the function is partial (None)
    fn index_k(&mut self, ix: &ExprIndex, env: &Env, at: &Expr, k: K) -> R<String> {
        if !self.partial {
            self.needs_partial = true;
            return Err(unsupported(at, "slice index (panics out of range: retry as a partial function)"));
        }
        self.panic_sites.insert("slice index".to_string());
        let b = self.pure(&ix.expr, env, None)?;
        let elem = match &b.ty {
            Ty::Slice(t) => (**t).clone(),
            _ => unreachable!(),
        };
        let us = Ty::int(IntTy::Usize);
        let i = self.pure(&ix.index, env, Some(&us))?;
        join(&i.ty, &us).map_err(|m| unsupported(at, &m))?;
        let x = self.fresh("el");
        let rest = k(self, Val { s: x.clone(), ty: elem })?;
        Ok(format!("match (Casts.slice_get {} {}) with\n| Some {} =>\n{}\n| None => None\nend", b.s, i.s, x, rest))
    }

    /// the receiver of this method call must stay a place (a `&mut self` callee or a built-in mutating method); every other
    /// receiver is a value that Rust evaluates BEFORE the arguments
    fn recv_stays_place(&mut self, e: &Expr, env: &Env) -> bool {
        if let Expr::MethodCall(m) = e {
            let n = m.method.to_string();
            if n == "get_mut" {
                return true;
            }
            if (n == "next" || n == "last") && m.args.is_empty() {
                if let Ok(r) = self.pure(&m.receiver, env, None) {
                    if matches!(r.ty, Ty::Range(_)) {
                        return true;
                    }
                }
            }
            if let Ok(Some((f, _))) = self.resolve_effectful(e, env) {
                return f.self_kind == SelfKind::Mut;
            }
        }
        false
    }

    fn resolve_effectful(&mut self, e: &Expr, env: &Env) -> R<Option<(FnInfo, Option<Val>)>> {
        match e {
            Expr::MethodCall(m) => {
                let recv = match self.pure(&m.receiver, env, None) {
                    Ok(v) => v,
                    Err(_) => return Ok(None),
                };
                if let Ty::Adt(n) = &recv.ty {
                    let name = m.method.to_string();
                    let fs = self.find_fns(Some(n), &name);
                    if self.inst_traits.contains_key(n) {
                        // a value of an instantiated type parameter: resolved (by its trait bounds) in method_call only
                        return Ok(None);
                    }
                    let fs: Vec<FnInfo> = if fs.len() > 1 && fs.iter().filter(|f| f.trait_name.is_none()).count() == 1 { fs.into_iter().filter(|f| f.trait_name.is_none()).collect() } else { fs };
                    if fs.len() == 1 {
                        self.check_not_shadowed(&fs[0], e)?;
                        return Ok(Some((fs[0].clone(), Some(recv))));
                    }
                }
                Ok(None)
            }
            Expr::Call(c) => {
                let p = match &*c.func {
                    Expr::Path(p) if p.qself.is_none() => p,
                    _ => return Ok(None),
                };
                let segs: Vec<String> = p.path.segments.iter().map(|s| s.ident.to_string()).collect();
                if segs.len() == 1 {
                    if env.get(&segs[0]).is_some() {
                        return Ok(None);
                    }
                    let local_def = self.t.file_defs.get(&self.cur_file).map(|d| d.fns.contains(&segs[0])).unwrap_or(false);
                    let fs: Vec<FnInfo> = self.find_fns(None, &segs[0]).into_iter().filter(|f| !local_def || f.file == self.cur_file).collect();
                    return Ok(if fs.len() == 1 { Some((fs[0].clone(), None)) } else { None });
                }
                if let Some((f, vals)) = self.trait_static_target(&p.path, env, e)? {
                    *self.assoc_override.borrow_mut() = Some((f.key.clone(), vals));
                    return Ok(Some((f, None)));
                }
                if segs.len() == 2 || segs.len() == 3 {
                    let tn = if segs.len() == 3 && self.t.adts.contains_key(&format!("{}.{}", segs[0], segs[1])) { format!("{}.{}", segs[0], segs[1]) } else { self.resolve_type_name(&segs[segs.len() - 2]) };
                    let segs = vec![tn.clone(), segs[segs.len() - 1].clone()];
                    let mut fs = self.find_fns(Some(&tn), &segs[1]);
                    if fs.is_empty() && !self.t.adts.contains_key(&tn) {
                        fs = self.find_fns(None, &segs[1]);
                    }
                    return Ok(if fs.len() == 1 { Some((fs[0].clone(), None)) } else { None });
                }
                Ok(None)
            }
            _ => Ok(None),
        }
    }

    /// a call whose callee mutates its receiver / `&mut` arguments or needs fuel; None = an ordinary (pure) call
    pub fn call_k(&mut self, e: &Expr, env: &Env, _hint: Option<&Ty>, k: K) -> R<Option<String>> {
        // builtin: `range.next()` on a Range<integer> place
        if let Expr::MethodCall(m) = e {
            if m.method == "next" && m.args.is_empty() {
                if let Ok(recv) = self.pure(&m.receiver, env, None) {
                    if let Ty::Range(t) = &recv.ty {
                        let (root, path) = self.target_of(&m.receiver)?;
                        let r = self.fresh("rng");
                        let x = self.fresh("nx");
                        let rest = k(self, Val { s: x.clone(), ty: Ty::Option(t.clone()) })?;
                        let rest = self.write_place(&root, &path, env, &r, &rest, e)?;
                        let call = format!("(if fst {r0} <? snd {r0} then ((fst {r0} + 1, snd {r0}), Some (fst {r0})) else ({r0}, None))", r0 = recv.s);
                        return Ok(Some(let_pat(&[r, x], &call, &rest)));
                    }
                }
            }
        }
        // builtin: `it.next()` on a `str.chars()` / list iterator place: the head, the iterator moves on
        if let Expr::MethodCall(m) = e {
            if m.method == "next" && m.args.is_empty() {
                if let Ok(recv) = self.pure(&m.receiver, env, None) {
                    if let Ty::Iter(t) = &recv.ty {
                        let (root, path) = self.target_of(&m.receiver)?;
                        let r = self.fresh("itr");
                        let x = self.fresh("nx");
                        let rest = k(self, Val { s: x.clone(), ty: Ty::Option(t.clone()) })?;
                        let rest = self.write_place_force(&root, &path, env, &r, &rest, e)?;
                        return Ok(Some(let_pat(&[r, x], &format!("(Casts.list_next {})", recv.s), &rest)));
                    }
                }
            }
        }
        // builtin: `w.next()` on a `slice.windows(3)` place: the first three elements, the iterator moves on by one
        if let Expr::MethodCall(m) = e {
            if m.method == "next" && m.args.is_empty() {
                if let Ok(recv) = self.pure(&m.receiver, env, None) {
                    if let Ty::Windows(t) = &recv.ty {
                        let (root, path) = self.target_of(&m.receiver)?;
                        let r = self.fresh("win");
                        let x = self.fresh("nx");
                        let item = Ty::Tuple(vec![(**t).clone(); 3]);
                        let rest = k(self, Val { s: x.clone(), ty: Ty::Option(Box::new(item)) })?;
                        let rest = self.write_place(&root, &path, env, &r, &rest, e)?;
                        return Ok(Some(let_pat(&[r, x], &format!("(Casts.windows3_next {})", recv.s), &rest)));
                    }
                }
            }
        }
        // builtin: `<iterator>.fold(init, |acc, item| body)` on a value whose type has a configured `Iterator::next`
        if let Expr::MethodCall(m) = e {
            if m.method == "fold" && m.args.len() == 2 && matches!(&m.args[1], Expr::Closure(c) if c.inputs.len() == 2) {
                let cl = match &m.args[1] {
                    Expr::Closure(c) => c.clone(),
                    _ => unreachable!(),
                };
                let init_e = m.args[0].clone();
                // `slice.iter()[.map(|x| f)].fold(init, |acc, x| g)`: a pure List.fold_left
                {
                    let mut inner: &Expr = &m.receiver;
                    let mut mapc: Option<&ExprClosure> = None;
                    if let Expr::MethodCall(mm) = inner {
                        if mm.method == "map" && mm.args.len() == 1 {
                            if let Expr::Closure(c) = &mm.args[0] {
                                if c.inputs.len() == 1 {
                                    mapc = Some(c);
                                    inner = &mm.receiver;
                                }
                            }
                        }
                    }
                    if let Expr::MethodCall(it) = inner {
                        if it.method == "iter" && it.args.is_empty() {
                            if let Ok(sv) = self.pure(&it.receiver, env, None) {
                                if let Ty::Slice(et) = &sv.ty {
                                    let et = (**et).clone();
                                    let init = self.pure(&init_e, env, None)?;
                                    let mut lets = String::new();
                                    let item: Val = match mapc {
                                        Some(c) => {
                                            let mut envm = env.clone();
                                            let pm = self.bind_pat(&c.inputs[0], &et, &mut envm)?;
                                            lets.push_str(&format!("let '{} := x_ in ", pm));
                                            self.pure(&c.body, &envm, None)?
                                        }
                                        None => Val { s: "x_".into(), ty: et.clone() },
                                    };
                                    let mut envf = env.clone();
                                    let pa = self.bind_pat(&cl.inputs[0], &init.ty, &mut envf)?;
                                    let pi = self.bind_pat(&cl.inputs[1], &item.ty, &mut envf)?;
                                    let body = self.pure(&cl.body, &envf, Some(&init.ty))?;
                                    let acc_ty = join(&init.ty, &body.ty).map_err(|m| unsupported(e, &m))?;
                                    let v = Val { s: format!("(fold_left (fun acc_ x_ => {}let '{} := {} in let '{} := acc_ in {}) {} {})", lets, pi, item.s, pa, body.s, sv.s, init.s), ty: acc_ty };
                                    return k(self, v).map(Some);
                                }
                            }
                        }
                    }
                }
                let s = self.expr_k(&m.receiver, env, None, &|tr, recv| {
                    if let Ty::Slice(et) = &recv.ty {
                        // a list of items: List.fold_left
                        let et = (**et).clone();
                        let init = tr.pure(&init_e, env, None)?;
                        let mut envf = env.clone();
                        let pa = tr.bind_pat(&cl.inputs[0], &init.ty, &mut envf)?;
                        let pi = tr.bind_pat(&cl.inputs[1], &et, &mut envf)?;
                        let body = tr.pure(&cl.body, &envf, Some(&init.ty))?;
                        let acc_ty = join(&init.ty, &body.ty).map_err(|m| unsupported(e, &m))?;
                        return k(tr, Val { s: format!("(fold_left (fun (acc_ : {}) (x_ : {}) => let '{} := x_ in let '{} := acc_ in {}) {} {})", tr.t.coq_ty(&acc_ty)?, tr.t.coq_ty(&et)?, pi, pa, body.s, recv.s, init.s), ty: acc_ty });
                    }
                    let n = match &recv.ty {
                        Ty::Adt(n) => n.clone(),
                        t => return Err(unsupported(e, &format!("`fold` on a value of type {} (only a type with a configured `Iterator::next`)", t.show()))),
                    };
                    let nf: Vec<FnInfo> = tr.find_fns(Some(&n), "next").into_iter().filter(|f| f.self_kind == SelfKind::Mut && f.params.is_empty() && !f.has_mut_params()).collect();
                    if nf.len() != 1 {
                        return Err(unsupported(e, &format!("`fold` on `{}`, which has no configured `Iterator::next`", n)));
                    }
                    let f = nf[0].clone();
                    let item = match &f.ret {
                        Ty::Option(t) => (**t).clone(),
                        _ => return Err(unsupported(e, "`fold` on a type whose `next` does not return Option")),
                    };
                    if !tr.fuel {
                        tr.needs_fuel = true;
                        return Err(unsupported(e, "`fold` over an iterator (retry with fuel)"));
                    }
                    if f.partial {
                        return Err(unsupported(e, "a driver over an `Iterator::next` that can panic"));
                    }
                    let init = tr.pure(&init_e, env, None)?;
                    // the closure: a pure function of (accumulator, item)
                    let mut env2 = env.clone();
                    let pa = tr.bind_pat(&cl.inputs[0], &init.ty, &mut env2)?;
                    let pi = tr.bind_pat(&cl.inputs[1], &item, &mut env2)?;
                    let body = tr.pure(&cl.body, &env2, Some(&init.ty))?;
                    let acc_ty = join(&init.ty, &body.ty).map_err(|m| unsupported(e, &m))?;
                    tr.loop_counter += 1;
                    let id = format!("{}_fold{}", tr.fn_coq, tr.loop_counter);
                    let st = tr.t.coq_ty(&recv.ty)?;
                    let it = tr.t.coq_ty(&item)?;
                    let at = tr.t.coq_ty(&acc_ty)?;
                    let (fn_binder, fn_arg, call_next) = if f.fuel {
                        let outer = match tr.t.fuel_consts.get(&f.key) {
                            Some(c) => c.clone(),
                            None => tr.fuel_var.clone(),
                        };
                        (" (fn_ : nat)".to_string(), format!(" {}", outer), format!("match {} fn_ it_ with\n| None => None\n| Some (_, None) => Some acc_\n| Some (it1_, Some v_) => {} fuel_ fn_ step_ it1_ (step_ acc_ v_)\nend", f.coq, id))
                    } else {
                        (String::new(), String::new(), format!("match {} it_ with\n| (_, None) => Some acc_\n| (it1_, Some v_) => {} fuel_ step_ it1_ (step_ acc_ v_)\nend", f.coq, id))
                    };
                    tr.aux_defs.push(format!(
                        "Fixpoint {id} (fuel0_ : nat){fb} (step_ : {at} -> {it} -> {at}) (it_ : {st}) (acc_ : {at}) {{struct fuel0_}} : option {at} :=\nmatch fuel0_ with\n| O => None\n| Datatypes.S fuel_ =>\n{step}\nend.",
                        id = id, fb = fn_binder, at = at, it = it, st = st, step = call_next
                    ));
                    let r = tr.fresh("fld");
                    let rest = k(tr, Val { s: r.clone(), ty: acc_ty })?;
                    Ok(format!("match {} {}{} (fun acc_ item_ => let '{} := acc_ in let '{} := item_ in {}) {} {} with\n| Some {} =>\n{}\n| None => None\nend", id, tr.fuel_var, fn_arg, pa, pi, body.s, recv.s, init.s, r, rest))
                })?;
                return Ok(Some(s));
            }
        }
        // builtin: `it.last()` on a value whose type has a configured `Iterator::next`: a driver over fuel
        if let Expr::MethodCall(m) = e {
            if m.method == "last" && m.args.is_empty() {
                if let Ok(recv) = self.pure(&m.receiver, env, None) {
                    if let Ty::Adt(n) = &recv.ty {
                        let nf: Vec<FnInfo> = self.find_fns(Some(n), "next").into_iter().filter(|f| f.self_kind == SelfKind::Mut && f.params.is_empty() && !f.has_mut_params()).collect();
                        if nf.len() == 1 {
                            let f = nf[0].clone();
                            let item = match &f.ret {
                                Ty::Option(t) => (**t).clone(),
                                _ => return Err(unsupported(e, "`last()` on a type whose `next` does not return Option")),
                            };
                            if !self.fuel {
                                self.needs_fuel = true;
                                return Err(unsupported(e, "`last()` (retry with fuel)"));
                            }
                            self.loop_counter += 1;
                            let id = format!("{}_last{}", self.fn_coq, self.loop_counter);
                            let st = self.t.coq_ty(&recv.ty)?;
                            let it = self.t.coq_ty(&item)?;
                            let inner_fuel = match self.t.fuel_consts.get(&f.key) {
                                Some(c) => c.clone(),
                                None => "fuel_".to_string(),
                            };
                            let step = if f.fuel {
                                format!("match {} {} it_ with\n| None => None\n| Some (it1_, None) => Some acc_\n| Some (it1_, Some v_) => {} fuel_ it1_ (Some v_)\nend", f.coq, inner_fuel, id)
                            } else {
                                format!("match {} it_ with\n| (it1_, None) => Some acc_\n| (it1_, Some v_) => {} fuel_ it1_ (Some v_)\nend", f.coq, id)
                            };
                            self.aux_defs.push(format!(
                                "Fixpoint {id} (fuel0_ : nat) (it_ : {st}) (acc_ : option {it}) {{struct fuel0_}} : option (option {it}) :=\nmatch fuel0_ with\n| O => None\n| Datatypes.S fuel_ =>\n{step}\nend.",
                                id = id,
                                st = st,
                                it = it,
                                step = step
                            ));
                            let r = self.fresh("lst");
                            let rest = k(self, Val { s: r.clone(), ty: Ty::Option(Box::new(item)) })?;
                            return Ok(Some(format!("match {} {} {} None with\n| Some {} =>\n{}\n| None => None\nend", id, self.fuel_var, recv.s, r, rest)));
                        }
                    }
                }
            }
        }
        // a `&mut self` method of a generic type parameter (`assoc <name> fnmut(..)`): a function parameter of the
        // translated definition that returns the new receiver next to the result
        if let Expr::MethodCall(m) = e {
            let name = m.method.to_string();
            if self.t.assoc_mut.contains(&name) {
                if let Ok(recv) = self.pure(&m.receiver, env, None) {
                    if let Ty::Param(g) = &recv.ty {
                        let key = format!("{}::{}", g, name);
                        if let Some(v) = env.get(&key).cloned() {
                            if let Ty::Fn(ptys, rty) = &v.ty {
                                if ptys.len() != m.args.len() + 1 {
                                    return Err(unsupported(e, &format!("call of `{}` with {} arguments", key, m.args.len())));
                                }
                                let ret = match &**rty {
                                    Ty::Tuple(ts) if ts.len() == 2 => ts[1].clone(),
                                    _ => return Err(unsupported(e, "fnmut assoc type")),
                                };
                                let (root, path) = self.target_of(&m.receiver)?;
                                let mut a = vec![recv.s.clone()];
                                for (x, pt) in m.args.iter().zip(ptys.iter().skip(1)) {
                                    let av = self.pure(x, env, Some(pt))?;
                                    join(&av.ty, pt).map_err(|mm| unsupported(e, &mm))?;
                                    a.push(av.s);
                                }
                                let st = self.fresh("it");
                                let x = self.fresh("nx");
                                let rest = k(self, Val { s: x.clone(), ty: ret })?;
                                let rest = self.write_place(&root, &path, env, &st, &rest, e)?;
                                return Ok(Some(let_pat(&[st, x], &app(&v.coq, &a), &rest)));
                            }
                        }
                    }
                }
            }
        }
        let (f, recv) = match self.resolve_effectful(e, env)? {
            Some(x) => x,
            None => return Ok(None),
        };
        if !(f.opt() || f.has_mut_params() || f.self_kind == SelfKind::Mut) {
            return Ok(None);
        }
        if f.fuel && !self.fuel {
            self.needs_fuel = true;
            return Err(unsupported(e, &format!("call of the fuelled function `{}` (retry with fuel)", f.key)));
        }
        if f.partial && !self.partial {
            self.needs_partial = true;
            return Err(unsupported(e, &format!("call of `{}`, which can panic (retry as a partial function)", f.key)));
        }
        if !f.panic_sites.is_empty() {
            self.panic_sites.insert(format!("call of {}", f.coq));
        }
        if f.usize_w {
            self.usize_w.set(true);
        }
        let inherited = self.inherited_assoc(&f, env);
        if (!f.assoc_params.is_empty() && inherited.is_none()) || !f.const_generics.is_empty() {
            return Err(unsupported(e, &format!("effectful call of `{}`, which has const generic / associated-constant parameters", f.key)));
        }
        let (recv_expr, args): (Option<&Expr>, Vec<&Expr>) = match e {
            Expr::MethodCall(m) => (Some(&*m.receiver), m.args.iter().collect()),
            Expr::Call(c) => (None, c.args.iter().collect()),
            _ => unreachable!(),
        };
        let mut a: Vec<String> = vec![];
        if f.fuel {
            a.push(match self.t.fuel_consts.get(&f.key) {
                Some(c) => c.clone(),
                None => self.fuel_var.clone(),
            });
        }
        a.extend(self.mvar_args(&f.mvars, env, e)?);
        if let Some(inh) = inherited {
            a.extend(inh);
        }
        let mut writebacks: Vec<(String, Vec<Member>)> = vec![];
        let mut args = args;
        if f.self_kind != SelfKind::None {
            match (&recv, recv_expr) {
                (Some(r), Some(re)) => {
                    a.push(r.s.clone());
                    if f.self_kind == SelfKind::Mut {
                        if matches!(crate::expr::strip_parens(re), Expr::Call(_) | Expr::MethodCall(_) | Expr::Struct(_)) {
                            // a `&mut self` method on a temporary: the updated temporary is dropped
                            writebacks.push(("@@TEMP@@".to_string(), vec![]));
                        } else {
                            writebacks.push(self.target_of(re)?);
                        }
                    }
                }
                _ => {
                    // `Type::method(self_arg, ..)`
                    if args.is_empty() {
                        return Err(unsupported(e, "missing self argument"));
                    }
                    let sa = args.remove(0);
                    let v = self.pure(strip_ref(sa), env, None)?;
                    a.push(v.s);
                    if f.self_kind == SelfKind::Mut {
                        writebacks.push(self.target_of(sa)?);
                    }
                }
            }
        }
        if args.len() != f.params.len() {
            return Err(unsupported(e, &format!("call of `{}` with {} arguments, {} expected", f.key, args.len(), f.params.len())));
        }
        for ((x, (_, pt)), is_mut) in args.iter().zip(f.params.iter()).zip(f.mut_params.iter()) {
            if *is_mut {
                let tgt = self.target_of(x)?;
                let v = self.pure(strip_ref(x), env, Some(pt))?;
                join(&v.ty, pt).map_err(|m| unsupported(e, &format!("`&mut` argument of `{}`: {}", f.key, m)))?;
                a.push(v.s);
                writebacks.push(tgt);
            } else {
                let v = self.pure(x, env, Some(pt))?;
                let v = crate::calls::coerce_array_to_slice(v, pt);
                join(&v.ty, pt).map_err(|m| unsupported(e, &format!("argument of `{}`: {}", f.key, m)))?;
                a.push(v.s);
            }
        }
        let call = app(&f.coq, &a);
        let rtys = f.result_tys();
        let temps: Vec<String> = rtys.iter().map(|_| self.fresh("t")).collect();
        let ret_val = if f.ret != Ty::Unit { Val { s: temps.last().unwrap().clone(), ty: f.ret.clone() } } else { unit() };
        if !f.opt() && temps.len() == 1 && writebacks.len() == 1 && writebacks[0].1.is_empty() {
            // `x.m(..)` / `f(&mut x)` with nothing else returned: rebind x directly
            if let Some(v) = env.get(&writebacks[0].0) {
                if v.alias.is_none() {
                    let rest = k(self, unit())?;
                    return Ok(Some(let_pat(&[v.coq.clone()], &call, &rest)));
                }
            }
        }
        let mut rest = k(self, ret_val)?;
        for ((root, path), tmp) in writebacks.iter().zip(temps.iter()).rev() {
            if root == "@@TEMP@@" {
                continue;
            }
            rest = self.write_place(root, path, env, tmp, &rest, e)?;
        }
        if f.opt() {
            let pat = match temps.len() {
                0 => "_".to_string(),
                _ => pack(&temps),
            };
            Ok(Some(format!("match {} with\n| Some {} =>\n{}\n| None => None\nend", call, pat, rest)))
        } else {
            Ok(Some(let_pat(&temps, &call, &rest)))
        }
    }

    /// an iterator value (a type with a configured `Iterator::next`) as the list of the items it yields: a driver over fuel
    pub fn collect_iter(&mut self, recv: &Val, at: &Expr) -> R<(String, Ty)> {
        let n = match &recv.ty {
            Ty::Adt(n) => n.clone(),
            t => return Err(unsupported(at, &format!("a value of type {} used as an iterator", t.show()))),
        };
        let nf: Vec<FnInfo> = self.find_fns(Some(&n), "next").into_iter().filter(|f| f.self_kind == SelfKind::Mut && f.params.is_empty() && !f.has_mut_params()).collect();
        if nf.len() != 1 {
            return Err(unsupported(at, &format!("`{}` has no configured `Iterator::next`", n)));
        }
        let f = nf[0].clone();
        let item = match &f.ret {
            Ty::Option(t) => (**t).clone(),
            _ => return Err(unsupported(at, "an iterator whose `next` does not return Option")),
        };
        if !f.assoc_params.is_empty() {
            return Err(unsupported(at, "collecting an iterator whose `next` abstracts generic items"));
        }
        if !self.fuel {
            self.needs_fuel = true;
            return Err(unsupported(at, "an iterator used as a list (retry with fuel)"));
        }
        self.loop_counter += 1;
        let id = format!("{}_collect{}", self.fn_coq, self.loop_counter);
        let st = self.t.coq_ty(&recv.ty)?;
        let it = self.t.coq_ty(&item)?;
        let (fb, fa, step) = if f.fuel {
            let outer = match self.t.fuel_consts.get(&f.key) {
                Some(c) => c.clone(),
                None => self.fuel_var.clone(),
            };
            (" (fn_ : nat)".to_string(), format!(" {}", outer), format!("match {} fn_ it_ with\n| None => None\n| Some (_, None) => Some []\n| Some (it1_, Some v_) => option_map (cons v_) ({} fuel_ fn_ it1_)\nend", f.coq, id))
        } else {
            (String::new(), String::new(), format!("match {} it_ with\n| (_, None) => Some []\n| (it1_, Some v_) => option_map (cons v_) ({} fuel_ it1_)\nend", f.coq, id))
        };
        self.aux_defs.push(format!(
            "Fixpoint {id} (fuel0_ : nat){fb} (it_ : {st}) {{struct fuel0_}} : option (list {it}) :=\nmatch fuel0_ with\n| O => None\n| Datatypes.S fuel_ =>\n{step}\nend.",
            id = id, fb = fb, st = st, it = it, step = step
        ));
        Ok((format!("({} {}{} {})", id, self.fuel_var, fa, recv.s), Ty::Slice(Box::new(item))))
    }

    /// `loop { body }` / `while cond { body }`: a local fix over fuel; the variables assigned in the body are its arguments
    pub fn loop_k(&mut self, cond: Option<&Expr>, body: &Block, env: &Env, at: &Expr, k: K) -> R<String> {
        if !self.loops.is_empty() {
            return Err(unsupported(at, "a loop nested inside another loop (or inside an unrolled `for`)"));
        }
        if !self.fuel {
            self.needs_fuel = true;
            return Err(unsupported(at, "loop (retry with fuel)"));
        }
        let mut eff = self.effects_stmts(&body.stmts);
        if let Some(c) = cond {
            let ce = self.effects_expr(c);
            if ce.ret || !ce.assigned.is_empty() {
                return Err(unsupported(c, "loop condition with effects"));
            }
            eff.assigned.extend(ce.assigned);
        }
        if eff.assigned.contains("<complex place>") {
            return Err(unsupported(at, "assignment to something that is not a local variable or a field path of one"));
        }
        let _ = self.mutated_vars(&eff.assigned, env);
        // the loop becomes a top-level Fixpoint over fuel whose parameters are all variables in scope
        let mut all: Vec<(String, String)> = vec![];
        for (n, v) in env.vars.iter() {
            if v.alias.is_some() || n.starts_with("r2c_t") && false {
                continue;
            }
            let cur = env.get(n).unwrap();
            if cur.coq != v.coq || cur.alias.is_some() {
                continue; // shadowed
            }
            if all.iter().any(|(c, _)| *c == v.coq) {
                continue;
            }
            all.push((v.coq.clone(), self.t.coq_ty(&v.ty)?));
        }
        self.loop_counter += 1;
        let id = format!("{}_loop{}", self.fn_coq, self.loop_counter);
        let f_outer = self.fuel_var.clone();
        let f_in = self.fresh("fuel");
        let names: Vec<String> = all.iter().map(|(c, _)| c.clone()).collect();
        let cont = if names.is_empty() { format!("({} {})", id, f_in) } else { format!("({} {} {})", id, f_in, names.join(" ")) };
        let brk = format!("@@BREAK_{}@@", id);
        self.fuel_var = f_in.clone();
        self.loops.push((cont.clone(), brk.clone()));
        let res: R<String> = (|| {
            let c2 = cont.clone();
            let body_s = self.stmts_k(&body.stmts, env, None, &|_tr, _v| Ok(c2.clone()))?;
            let need_after = cond.is_some() || body_s.contains(&brk);
            let frame = self.loops.pop();
            let after = if need_after { k(self, unit()) } else { Ok(String::new()) };
            if let Some(f) = frame {
                self.loops.push(f);
            }
            let after = after?;
            let inner = match cond {
                Some(c) => {
                    let cv = self.pure(c, env, Some(&Ty::Bool))?;
                    format!("if {} then\n{}\nelse\n{}", cv.s, body_s, after)
                }
                None => body_s,
            };
            Ok(inner.replace(&brk, &after))
        })();
        self.loops.pop();
        self.fuel_var = f_outer.clone();
        let inner = res?;
        let mut binders = String::new();
        for (c, t) in all.iter() {
            binders.push_str(&format!(" ({} : {})", c, t));
        }
        let f0 = format!("{}_", f_in);
        self.aux_defs.push(format!(
            "Fixpoint {id} ({f0} : nat){binders} {{struct {f0}}} : option {ret} :=\nmatch {f0} with\n| O => None\n| Datatypes.S {f_in} =>\n{inner}\nend.",
            id = id,
            f0 = f0,
            binders = binders,
            ret = self.ret_coq,
            f_in = f_in,
            inner = inner
        ));
        Ok(format!("({} {}{})", id, f_outer, names.iter().map(|n| format!(" {}", n)).collect::<String>()))
    }

    /// `let r = &mut place;` / `let (r, x) = match s { A => (&mut p1, e1), B => (&mut p2, e2) };`
    /// returns None when no component is a `&mut` (ordinary let)
    pub fn alias_let(&mut self, pat: &Pat, init: &Expr, env: &Env, fn_assigned: &std::collections::BTreeSet<String>) -> R<Option<(Env, Vec<(String, String)>)>> {
        let is_mut_ref = |x: &Expr| matches!(x, Expr::Reference(r) if r.mutability.is_some());
        // arms: (coq pattern, component expressions)
        let (scrut, arms): (String, Vec<(String, Vec<Expr>)>) = match init {
            Expr::Reference(r) if r.mutability.is_some() => ("tt".into(), vec![("_".into(), vec![init.clone()])]),
            Expr::Match(m) => {
                let any = m.arms.iter().any(|a| match &*a.body {
                    Expr::Tuple(t) => t.elems.iter().any(is_mut_ref),
                    b => is_mut_ref(b),
                });
                if !any {
                    return Ok(None);
                }
                let sroot = place_root(&m.expr).ok_or_else(|| unsupported(init, "`&mut` selected by a match whose scrutinee is not a variable"))?;
                if fn_assigned.contains(&sroot) {
                    return Err(unsupported(init, "`&mut` selected by a match on a variable that is assigned in this function"));
                }
                let sc = self.pure(&m.expr, env, None)?;
                let mut arms = vec![];
                for arm in m.arms.iter() {
                    if arm.guard.is_some() {
                        return Err(unsupported(arm, "match guard"));
                    }
                    let mut e2 = env.clone();
                    let ps = self.bind_pat(&arm.pat, &sc.ty, &mut e2)?;
                    if e2.vars.len() != env.vars.len() {
                        return Err(unsupported(arm, "`&mut` selected by a match arm that binds variables"));
                    }
                    let comps = match &*arm.body {
                        Expr::Tuple(t) => t.elems.iter().cloned().collect(),
                        b => vec![b.clone()],
                    };
                    arms.push((ps, comps));
                }
                (sc.s, arms)
            }
            _ => return Ok(None),
        };
        let n = arms[0].1.len();
        if arms.iter().any(|a| a.1.len() != n) {
            return Err(unsupported(init, "match arms with tuples of different sizes"));
        }
        let pats: Vec<&Pat> = match pat {
            Pat::Tuple(t) if t.elems.len() == n => t.elems.iter().collect(),
            p if n == 1 => vec![p],
            _ => return Err(unsupported(pat, "pattern does not fit the tuple of the match arms")),
        };
        let mut env2 = env.clone();
        let mut lets: Vec<(String, String)> = vec![];
        for j in 0..n {
            let name = match pats[j] {
                Pat::Ident(i) if i.subpat.is_none() => i.ident.to_string(),
                _ => return Err(unsupported(pat, "component pattern that is not an identifier")),
            };
            let all_ref = arms.iter().all(|a| is_mut_ref(&a.1[j]));
            let none_ref = arms.iter().all(|a| !is_mut_ref(&a.1[j]));
            if all_ref {
                let mut root: Option<String> = None;
                let mut aarms = vec![];
                let mut ty = Ty::Infer;
                for (p, comps) in arms.iter() {
                    let (r, path) = self.target_of(&comps[j])?;
                    let rv = env.get(&r).ok_or_else(|| unsupported(init, "`&mut` of something that is not a local"))?;
                    if rv.alias.is_some() {
                        return Err(unsupported(init, "`&mut` through another alias"));
                    }
                    if let Some(r0) = &root {
                        if *r0 != r {
                            return Err(unsupported(init, "`&mut` arms rooted in different variables"));
                        }
                    }
                    root = Some(r.clone());
                    let v = self.read_path(&Val { s: rv.coq.clone(), ty: rv.ty.clone() }, &path, init)?;
                    ty = join(&ty, &v.ty).map_err(|m| unsupported(init, &m))?;
                    aarms.push((p.clone(), path));
                }
                let rname = root.unwrap();
                let rv = env.get(&rname).unwrap().clone();
                if !rv.mutable {
                    return Err(unsupported(init, &format!("`&mut` of `{}`, which is not declared `mut` (a reference binding)", rname)));
                }
                env2.push(&name, Var { coq: format!("<alias {}>", name), ty, alias: Some(Alias { scrut: scrut.clone(), arms: aarms, root: rname, root_coq: rv.coq.clone(), root_ty: rv.ty.clone() }), mutable: true });
            } else if none_ref {
                let mut ty = Ty::Infer;
                let mut s = format!("(match {} with", scrut);
                for (p, comps) in arms.iter() {
                    let v = self.pure(&comps[j], env, None)?;
                    ty = join(&ty, &v.ty).map_err(|m| unsupported(init, &m))?;
                    s.push_str(&format!(" | {} => {}", p, v.s));
                }
                s.push_str(" end)");
                let c = self.fresh(&name);
                env2.push(&name, var(c.clone(), ty));
                lets.push((c, s));
            } else {
                return Err(unsupported(init, "tuple component that is a `&mut` in some arms only"));
            }
        }
        Ok(Some((env2, lets)))
    }
}
