//! Pure expressions: literals, operators, casts, paths, fields, calls, struct literals, tuples, ranges.
use crate::tr::*;
use crate::types::*;
use syn::*;

fn paren(s: &str) -> String {
    if s.contains('\n') {
        format!("({})", s)
    } else {
        format!("({})", s)
    }
}

pub fn strip_parens(e: &Expr) -> &Expr {
    match e {
        Expr::Paren(p) => strip_parens(&p.expr),
        Expr::Group(p) => strip_parens(&p.expr),
        _ => e,
    }
}

pub fn app(f: &str, args: &[String]) -> String {
    if f.is_empty() && args.len() == 1 {
        // newtype over its only field
        return args[0].clone();
    }
    if args.is_empty() {
        f.to_string()
    } else {
        format!("({} {})", f, args.join(" "))
    }
}

impl<'a> Tr<'a> {
    pub fn pure(&mut self, e: &Expr, env: &Env, hint: Option<&Ty>) -> R<Val> {
        match e {
            Expr::Lit(l) => match &l.lit {
                Lit::Int(i) => {
                    let n = i.base10_parse::<i128>().map_err(|m| unsupported(e, &m.to_string()))?;
                    let ty = if i.suffix().is_empty() {
                        match hint {
                            Some(Ty::Int(Some(t))) => Ty::Int(Some(*t)),
                            _ => Ty::Int(None),
                        }
                    } else {
                        match IntTy::from_name(i.suffix()) {
                            Some(t) => Ty::Int(Some(t)),
                            None => return Err(unsupported(e, &format!("literal suffix `{}`", i.suffix()))),
                        }
                    };
                    Ok(Val { s: lit(n), ty })
                }
                Lit::Bool(b) => Ok(Val { s: if b.value { "true".into() } else { "false".into() }, ty: Ty::Bool }),
                // a `char` is its code point (a u32 whose values are the scalar values)
                Lit::Char(c) => Ok(Val { s: lit(c.value() as i128), ty: Ty::int(IntTy::U32) }),
                _ => Err(unsupported(e, "literal that is not an integer or bool")),
            },
            Expr::Paren(p) => self.pure(&p.expr, env, hint),
            Expr::Group(p) => self.pure(&p.expr, env, hint),
            Expr::Reference(r) => {
                if r.mutability.is_some() {
                    return Err(unsupported(e, "`&mut` borrow"));
                }
                self.pure(&r.expr, env, hint)
            }
            Expr::Unary(u) => match u.op {
                UnOp::Deref(_) => self.pure(&u.expr, env, hint),
                UnOp::Neg(_) => {
                    let v = self.pure(&u.expr, env, hint)?;
                    match &v.ty {
                        Ty::Int(t) => {
                            if let Some(t) = t {
                                if !t.signed() {
                                    return Err(unsupported(e, "negation of an unsigned value"));
                                }
                            }
                            Ok(Val { s: format!("(- {})", v.s), ty: v.ty })
                        }
                        Ty::Adt(_) => self.overloaded_unary("neg", v, e),
                        _ => Err(unsupported(e, &format!("negation of {}", v.ty.show()))),
                    }
                }
                UnOp::Not(_) => {
                    let v = self.pure(&u.expr, env, hint)?;
                    match &v.ty {
                        Ty::Bool => Ok(Val { s: format!("(negb {})", v.s), ty: Ty::Bool }),
                        Ty::Int(Some(t)) => {
                            if t.signed() {
                                Ok(Val { s: format!("(Z.lnot {})", v.s), ty: v.ty })
                            } else {
                                Ok(Val { s: format!("({} - {})", lit(t.max_val()), v.s), ty: v.ty })
                            }
                        }
                        _ => Err(unsupported(e, &format!("`!` on {}", v.ty.show()))),
                    }
                }
                _ => Err(unsupported(e, "unary operator")),
            },
            Expr::Binary(b) => self.binary(b, env, hint),
            Expr::Cast(c) => {
                let target = self.ty(&c.ty)?;
                let v = self.pure(&c.expr, env, None)?;
                if matches!(v.ty, Ty::Int(None)) && !matches!(strip_parens(&c.expr), Expr::Lit(_) | Expr::Unary(_)) {
                    return Err(unsupported(e, "cast of an integer whose type is not known (a local initialised with an unsuffixed literal): annotate its type"));
                }
                match (&v.ty, &target) {
                    (Ty::Int(f), Ty::Int(Some(t))) => {
                        let f = f.unwrap_or(IntTy::I32);
                        if f == *t {
                            Ok(Val { s: v.s, ty: target })
                        } else {
                            if *t == IntTy::Usize {
                                // `x as usize` wraps at the width of usize
                                self.usize_w.set(true);
                            }
                            Ok(Val { s: format!("(Casts.cast_{}_{} {})", f.name(), t.name(), v.s), ty: target })
                        }
                    }
                    (Ty::Bool, Ty::Int(Some(_))) => Ok(Val { s: format!("(if {} then 1 else 0)", v.s), ty: target }),
                    _ => Err(unsupported(e, &format!("cast from {} to {}", v.ty.show(), target.show()))),
                }
            }
            Expr::Path(p) => self.path_expr(p, env, hint),
            Expr::Field(f) => {
                let b = self.pure(&f.base, env, None)?;
                self.field_of(&b, &f.member, e)
            }
            Expr::Call(c) => self.call(c, env, hint),
            Expr::MethodCall(m) => self.method_call(m, env, hint),
            Expr::Struct(s) => self.struct_lit(s, env),
            Expr::Tuple(t) => {
                if t.elems.is_empty() {
                    return Ok(unit());
                }
                let hints: Vec<Option<Ty>> = match hint {
                    Some(Ty::Tuple(ts)) if ts.len() == t.elems.len() => ts.iter().cloned().map(Some).collect(),
                    _ => vec![None; t.elems.len()],
                };
                let mut vs = vec![];
                for (x, h) in t.elems.iter().zip(hints.iter()) {
                    vs.push(self.pure(x, env, h.as_ref())?);
                }
                Ok(Val {
                    s: format!("({})", vs.iter().map(|v| v.s.clone()).collect::<Vec<_>>().join(", ")),
                    ty: Ty::Tuple(vs.into_iter().map(|v| v.ty).collect()),
                })
            }
            Expr::Array(a) if a.elems.is_empty() => Ok(Val { s: "[]".into(), ty: Ty::Slice(Box::new(Ty::Infer)) }),
            Expr::Array(a) => {
                if a.elems.len() < 2 {
                    return Err(unsupported(e, "array literal with fewer than 2 elements"));
                }
                let hints: Vec<Option<Ty>> = match hint {
                    Some(Ty::Tuple(ts)) if ts.len() == a.elems.len() => ts.iter().cloned().map(Some).collect(),
                    _ => vec![None; a.elems.len()],
                };
                let mut vs = vec![];
                for (x, h) in a.elems.iter().zip(hints.iter()) {
                    vs.push(self.pure(x, env, h.as_ref())?);
                }
                Ok(Val {
                    s: format!("({})", vs.iter().map(|v| v.s.clone()).collect::<Vec<_>>().join(", ")),
                    ty: Ty::Tuple(vs.into_iter().map(|v| v.ty).collect()),
                })
            }
            Expr::Repeat(r) => {
                // `[e; N]` with a literal N and a literal e: the N-tuple
                let n = match &*r.len {
                    Expr::Lit(ExprLit { lit: Lit::Int(i), .. }) => i.base10_parse::<usize>().map_err(|x| unsupported(e, &x.to_string()))?,
                    len => {
                        // a computed length (a const generic): the array is a list
                        if !matches!(strip_parens(&r.expr), Expr::Lit(_)) {
                            return Err(unsupported(e, "array repeat expression of a non-literal element"));
                        }
                        let us = Ty::int(IntTy::Usize);
                        let lv = self.pure(len, env, Some(&us))?;
                        join(&lv.ty, &us).map_err(|m| unsupported(e, &m))?;
                        let eh = match hint {
                            Some(Ty::Slice(t)) => Some((**t).clone()),
                            _ => None,
                        };
                        let v = self.pure(&r.expr, env, eh.as_ref())?;
                        return Ok(Val { s: format!("(List.repeat {} (Z.to_nat {}))", v.s, lv.s), ty: Ty::Slice(Box::new(v.ty)) });
                    }
                };
                if !(2..=8).contains(&n) || !matches!(strip_parens(&r.expr), Expr::Lit(_)) {
                    return Err(unsupported(e, "array repeat expression (only `[literal; 2..8]`)"));
                }
                let eh = match hint {
                    Some(Ty::Tuple(ts)) if ts.len() == n => Some(ts[0].clone()),
                    _ => None,
                };
                let v = self.pure(&r.expr, env, eh.as_ref())?;
                Ok(Val { s: format!("({})", vec![v.s.clone(); n].join(", ")), ty: Ty::Tuple(vec![v.ty; n]) })
            }
            Expr::Index(ix) if matches!(self.pure(&ix.expr, env, None).map(|b| b.ty), Ok(Ty::Slice(_))) => {
                // `s[i]` on a list panics out of range: only translated where the check can be sequenced (statement level)
                if true {
                    return Err(unsupported(e, "slice index in a position where its bounds check cannot be sequenced (inside a closure or a pure operand): bind it with `let` first"));
                }
                let b = self.pure(&ix.expr, env, None)?;
                let elem = match &b.ty {
                    Ty::Slice(t) => (**t).clone(),
                    _ => unreachable!(),
                };
                let us = Ty::int(IntTy::Usize);
                let i = self.pure(&ix.index, env, Some(&us))?;
                join(&i.ty, &us).map_err(|m| unsupported(e, &m))?;
                match &elem {
                    t if t.is_int() => Ok(Val { s: format!("(Casts.slice_idx {} {})", b.s, i.s), ty: elem }),
                    Ty::Option(_) => Ok(Val { s: format!("(Casts.slice_nth None {} {})", b.s, i.s), ty: elem }),
                    Ty::Bool => Ok(Val { s: format!("(Casts.slice_nth false {} {})", b.s, i.s), ty: elem }),
                    t => match self.t.default_of(t) {
                        // Rust panics out of range; the default inhabitant here
                        Some(d) => Ok(Val { s: format!("(Casts.slice_nth {} {} {})", d, b.s, i.s), ty: elem.clone() }),
                        None => Err(unsupported(e, &format!("indexing a slice of {} (no default inhabitant for the out-of-range case)", t.show()))),
                    },
                }
            }
            Expr::Index(ix) if matches!(strip_parens(&ix.index), Expr::Range(_)) => {
                // `array[a..b]` with literal bounds: the sub-array
                let b = self.pure(&ix.expr, env, None)?;
                let ts = match &b.ty {
                    Ty::Tuple(ts) => ts.clone(),
                    t => return Err(unsupported(e, &format!("range index on a value of type {} (only arrays with literal bounds)", t.show()))),
                };
                let r = match strip_parens(&ix.index) {
                    Expr::Range(r) if matches!(r.limits, RangeLimits::HalfOpen(_)) => r,
                    _ => return Err(unsupported(e, "inclusive range index")),
                };
                let lit_of = |x: &Option<Box<Expr>>, d: usize| -> R<usize> {
                    match x.as_deref() {
                        None => Ok(d),
                        Some(Expr::Lit(ExprLit { lit: Lit::Int(i), .. })) => i.base10_parse::<usize>().map_err(|m| unsupported(e, &m.to_string())),
                        Some(_) => Err(unsupported(e, "range index whose bounds are not literals")),
                    }
                };
                let (lo, hi) = (lit_of(&r.start, 0)?, lit_of(&r.end, ts.len())?);
                if lo > hi || hi > ts.len() || hi - lo < 2 {
                    return Err(unsupported(e, "range index outside the array / of fewer than 2 elements"));
                }
                let names: Vec<String> = (0..ts.len()).map(|i| format!("a{}_", i)).collect();
                Ok(Val { s: format!("(let '({}) := {} in ({}))", names.join(", "), b.s, names[lo..hi].join(", ")), ty: Ty::Tuple(ts[lo..hi].to_vec()) })
            }
            Expr::Index(ix) => {
                let b = self.pure(&ix.expr, env, None)?;
                match &*ix.index {
                    Expr::Lit(ExprLit { lit: Lit::Int(i), .. }) => {
                        let m: Member = syn::parse_str(i.base10_digits()).map_err(|x| x.to_string())?;
                        self.field_of(&b, &m, e)
                    }
                    _ => Err(unsupported(e, "index expression whose index is not an integer literal")),
                }
            }
            Expr::Range(r) => {
                let (a, b) = match (&r.start, &r.end) {
                    (Some(a), Some(b)) => (a, b),
                    _ => return Err(unsupported(e, "half-open range without both bounds")),
                };
                let ih = match hint {
                    Some(Ty::Range(t)) | Some(Ty::RangeIncl(t)) => Some((**t).clone()),
                    _ => None,
                };
                let mut va = self.pure(a, env, ih.as_ref())?;
                let vb = self.pure(b, env, Some(&va.ty))?;
                let t = join(&va.ty, &vb.ty).map_err(|m| unsupported(e, &m))?;
                va.ty = t.clone();
                let s = format!("({}, {})", va.s, vb.s);
                Ok(match r.limits {
                    RangeLimits::HalfOpen(_) => Val { s, ty: Ty::Range(Box::new(t)) },
                    RangeLimits::Closed(_) => Val { s, ty: Ty::RangeIncl(Box::new(t)) },
                })
            }
            Expr::If(_) | Expr::Match(_) | Expr::Block(_) => self.pure_via_k(e, env, hint),
            Expr::Macro(m) => self.macro_expr(m, env, hint),
            Expr::Return(_) | Expr::Assign(_) | Expr::Try(_) => {
                Err(unsupported(e, &format!("{} nested inside an expression (only statement-level control flow is translated)", kind_of(e))))
            }
            _ => Err(unsupported(e, kind_of(e))),
        }
    }

    pub fn pure_via_k(&mut self, e: &Expr, env: &Env, hint: Option<&Ty>) -> R<Val> {
        let eff = self.effects_expr(e);
        // assignments to variables declared inside `e` itself (names unknown outside) stay inside
        if eff.ret || eff.assigned.iter().any(|n| n.starts_with('<') || env.get(n).is_some()) {
            return Err(unsupported(e, &format!("{} with control flow / assignments in an operand position that is not hoisted", kind_of(e))));
        }
        let cell: std::cell::RefCell<Option<Ty>> = std::cell::RefCell::new(None);
        let s = self.expr_k(e, env, hint, &|_tr, v| {
            let mut c = cell.borrow_mut();
            let nt = match &*c {
                Some(old) => join(old, &v.ty)?,
                None => v.ty.clone(),
            };
            *c = Some(nt);
            Ok(v.s)
        })?;
        let ty = cell.into_inner().ok_or_else(|| unsupported(e, "expression whose every branch diverges"))?;
        Ok(Val { s: paren(&s), ty })
    }

    pub fn field_of<T: syn::spanned::Spanned>(&self, b: &Val, m: &Member, at: &T) -> R<Val> {
        match (&b.ty, m) {
            (Ty::Adt(n), _) => {
                let s = self.t.struct_info(n).ok_or_else(|| unsupported(at, &format!("field access on non-struct `{}`", n)))?;
                let fname = match m {
                    Member::Named(i) => i.to_string(),
                    Member::Unnamed(i) => i.index.to_string(),
                };
                let f = s.fields.iter().find(|f| f.name == fname).ok_or_else(|| unsupported(at, &format!("`{}` has no field `{}`", n, fname)))?;
                if f.proj.is_empty() {
                    return Ok(Val { s: b.s.clone(), ty: f.ty.clone() });
                }
                if f.proj == "-" {
                    return Err(unsupported(at, &format!("field `{}` of `{}` has no projection in the configured mapping", fname, n)));
                }
                Ok(Val { s: format!("({} {})", f.proj, b.s), ty: f.ty.clone() })
            }
            (Ty::Tuple(ts), Member::Unnamed(i)) => {
                let k = i.index as usize;
                if k >= ts.len() {
                    return Err(unsupported(at, "tuple index out of range"));
                }
                if ts.len() == 2 {
                    Ok(Val { s: format!("({} {})", if k == 0 { "fst" } else { "snd" }, b.s), ty: ts[k].clone() })
                } else {
                    let names: Vec<String> = (0..ts.len()).map(|j| if j == k { "t_".to_string() } else { "_".to_string() }).collect();
                    Ok(Val { s: format!("(let '({}) := {} in t_)", names.join(", "), b.s), ty: ts[k].clone() })
                }
            }
            (Ty::Range(t), Member::Named(i)) | (Ty::RangeIncl(t), Member::Named(i)) if i == "start" || i == "end" => {
                Ok(Val { s: format!("({} {})", if i == "start" { "fst" } else { "snd" }, b.s), ty: (**t).clone() })
            }
            _ => Err(unsupported(at, &format!("field access on a value of type {}", b.ty.show()))),
        }
    }

    fn int_binop(&self, op: &BinOp, l: &Val, r: &Val, ty: &Ty, at: &Expr) -> R<String> {
        let need = |what: &str| -> R<IntTy> {
            match ty {
                Ty::Int(Some(t)) => Ok(*t),
                _ => Err(unsupported(at, &format!("cannot infer the integer type of the operands of `{}` (its Coq meaning depends on signedness or width); annotate a type", what))),
            }
        };
        Ok(match op {
            BinOp::Add(_) | BinOp::AddAssign(_) => format!("({} + {})", l.s, r.s),
            BinOp::Sub(_) | BinOp::SubAssign(_) => format!("({} - {})", l.s, r.s),
            BinOp::Mul(_) | BinOp::MulAssign(_) => format!("({} * {})", l.s, r.s),
            BinOp::Div(_) | BinOp::DivAssign(_) => {
                if need("/")?.signed() {
                    format!("(Z.quot {} {})", l.s, r.s)
                } else {
                    format!("({} / {})", l.s, r.s)
                }
            }
            BinOp::Rem(_) | BinOp::RemAssign(_) => {
                if need("%")?.signed() {
                    format!("(Z.rem {} {})", l.s, r.s)
                } else {
                    format!("({} mod {})", l.s, r.s)
                }
            }
            BinOp::BitAnd(_) | BinOp::BitAndAssign(_) => format!("(Z.land {} {})", l.s, r.s),
            BinOp::BitOr(_) | BinOp::BitOrAssign(_) => format!("(Z.lor {} {})", l.s, r.s),
            BinOp::BitXor(_) | BinOp::BitXorAssign(_) => format!("(Z.lxor {} {})", l.s, r.s),
            // Rust drops the bits shifted out of the type silently (no overflow check on the value): truncate like Rust
            BinOp::Shl(_) | BinOp::ShlAssign(_) => {
                let t = need("<<")?;
                format!("(Casts.shl_{} {} {})", t.name(), l.s, r.s)
            }
            BinOp::Shr(_) | BinOp::ShrAssign(_) => format!("(Z.shiftr {} {})", l.s, r.s),
            _ => return Err(unsupported(at, "binary operator on integers")),
        })
    }

    fn op_trait(op: &BinOp) -> Option<(&'static str, &'static str)> {
        Some(match op {
            BinOp::Add(_) => ("Add", "add"),
            BinOp::Sub(_) => ("Sub", "sub"),
            BinOp::Mul(_) => ("Mul", "mul"),
            BinOp::Div(_) => ("Div", "div"),
            BinOp::Rem(_) => ("Rem", "rem"),
            BinOp::AddAssign(_) => ("AddAssign", "add_assign"),
            BinOp::SubAssign(_) => ("SubAssign", "sub_assign"),
            BinOp::MulAssign(_) => ("MulAssign", "mul_assign"),
            BinOp::DivAssign(_) => ("DivAssign", "div_assign"),
            _ => return None,
        })
    }

    /// the translated function implementing an overloaded operator for (self type, rhs type)
    pub fn find_op_fn(&self, op: &BinOp, lty: &str, rty: Option<&Ty>, at: &Expr) -> R<FnInfo> {
        let (tr, name) = Self::op_trait(op).ok_or_else(|| unsupported(at, "this operator on a struct value"))?;
        let cands: Vec<&FnInfo> = self
            .t
            .fns
            .iter()
            .filter(|f| f.self_ty.as_deref() == Some(lty) && f.name == name && f.trait_name.as_deref().map(|t| t.split('<').next().unwrap() == tr).unwrap_or(false))
            .collect();
        let cands: Vec<&FnInfo> = match rty {
            Some(rt) => cands.into_iter().filter(|f| f.params.len() == 1 && join(&f.params[0].1, rt).is_ok()).collect(),
            None => cands,
        };
        match cands.len() {
            1 => Ok(cands[0].clone()),
            0 => Err(unsupported(at, &format!("operator `{}` on `{}`{}: no translated `impl {}` (add it to functions.txt before this function)", name, lty, rty.map(|t| format!(" with right operand {}", t.show())).unwrap_or_default(), tr))),
            _ => Err(unsupported(at, &format!("operator `{}` on `{}`: ambiguous", name, lty))),
        }
    }

    fn overloaded_unary(&mut self, name: &str, v: Val, at: &Expr) -> R<Val> {
        let n = match &v.ty {
            Ty::Adt(n) => n.clone(),
            _ => unreachable!(),
        };
        let f = self.t.fns.iter().find(|f| f.self_ty.as_deref() == Some(&n) && f.name == name && f.params.is_empty());
        match f {
            Some(f) => Ok(Val { s: format!("({} {})", f.coq, v.s), ty: f.ret.clone() }),
            None => Err(unsupported(at, &format!("unary operator `{}` on `{}`: no translated impl", name, n))),
        }
    }

    pub fn binary(&mut self, b: &ExprBinary, env: &Env, hint: Option<&Ty>) -> R<Val> {
        let at = &Expr::Binary(b.clone());
        if is_compound(&b.op) {
            return Err(unsupported(at, "compound assignment nested inside an expression"));
        }
        match &b.op {
            BinOp::And(_) | BinOp::Or(_) => {
                let l = self.pure(&b.left, env, Some(&Ty::Bool))?;
                let r = self.pure(&b.right, env, Some(&Ty::Bool))?;
                if l.ty != Ty::Bool || r.ty != Ty::Bool {
                    return Err(unsupported(at, "`&&`/`||` on non-bool"));
                }
                let o = if matches!(b.op, BinOp::And(_)) { "&&" } else { "||" };
                Ok(Val { s: format!("({} {} {})", l.s, o, r.s), ty: Ty::Bool })
            }
            BinOp::Eq(_) | BinOp::Ne(_) | BinOp::Lt(_) | BinOp::Le(_) | BinOp::Gt(_) | BinOp::Ge(_) => {
                let mut l = self.pure(&b.left, env, None)?;
                let r = self.pure(&b.right, env, Some(&l.ty))?;
                if matches!(l.ty, Ty::Int(None)) && !matches!(r.ty, Ty::Int(None)) {
                    l = self.pure(&b.left, env, Some(&r.ty))?;
                }
                let t = join(&l.ty, &r.ty).map_err(|m| unsupported(at, &m))?;
                let s = match (&t, &b.op) {
                    (Ty::Int(_), BinOp::Eq(_)) => format!("({} =? {})", l.s, r.s),
                    (Ty::Int(_), BinOp::Ne(_)) => format!("(negb ({} =? {}))", l.s, r.s),
                    (Ty::Int(_), BinOp::Lt(_)) => format!("({} <? {})", l.s, r.s),
                    (Ty::Int(_), BinOp::Le(_)) => format!("({} <=? {})", l.s, r.s),
                    // a > b is written b < a (the convention of the hand-written models)
                    (Ty::Int(_), BinOp::Gt(_)) => format!("({} <? {})", r.s, l.s),
                    (Ty::Int(_), BinOp::Ge(_)) => format!("({} <=? {})", r.s, l.s),
                    (Ty::Bool, BinOp::Eq(_)) => format!("(Bool.eqb {} {})", l.s, r.s),
                    (Ty::Bool, BinOp::Ne(_)) => format!("(negb (Bool.eqb {} {}))", l.s, r.s),
                    (Ty::Adt(n), BinOp::Eq(_)) | (Ty::Adt(n), BinOp::Ne(_)) => {
                        let eqb = match self.t.adts.get(n) {
                            Some(Adt::Struct(s)) => s.eqb.clone(),
                            Some(Adt::Enum(e)) => e.eqb.clone(),
                            None => None,
                        }
                        .ok_or_else(|| unsupported(at, &format!("`==` on `{}`: no `eqb=` given in functions.txt", n)))?;
                        if matches!(b.op, BinOp::Eq(_)) {
                            format!("({} {} {})", eqb, l.s, r.s)
                        } else {
                            format!("(negb ({} {} {}))", eqb, l.s, r.s)
                        }
                    }
                    _ => return Err(unsupported(at, &format!("comparison on {}", t.show()))),
                };
                Ok(Val { s, ty: Ty::Bool })
            }
            BinOp::Shl(_) | BinOp::Shr(_) => {
                let l = self.pure(&b.left, env, hint.filter(|h| h.is_int()))?;
                let r = self.pure(&b.right, env, None)?;
                if !l.ty.is_int() || !r.ty.is_int() {
                    return Err(unsupported(at, "shift on non-integers"));
                }
                let s = self.int_binop(&b.op, &l, &r, &l.ty, at)?;
                Ok(Val { s, ty: l.ty })
            }
            _ => {
                let ih = hint.filter(|h| h.is_int());
                let mut l = self.pure(&b.left, env, ih)?;
                if let Ty::Adt(n) = &l.ty {
                    let n = n.clone();
                    // overloaded operator: pick the impl by the right operand's type
                    let r0 = self.pure(&b.right, env, None);
                    let (f, r) = match r0 {
                        Ok(r) => (self.find_op_fn(&b.op, &n, Some(&r.ty), at)?, r),
                        Err(_) => {
                            let f = self.find_op_fn(&b.op, &n, None, at)?;
                            let pt = f.params[0].1.clone();
                            let r = self.pure(&b.right, env, Some(&pt))?;
                            (f, r)
                        }
                    };
                    let r = if matches!(r.ty, Ty::Int(None)) { self.pure(&b.right, env, Some(&f.params[0].1))? } else { r };
                    return Ok(Val { s: format!("({} {} {})", f.coq, l.s, r.s), ty: f.ret.clone() });
                }
                let r = self.pure(&b.right, env, Some(&l.ty))?;
                if matches!(l.ty, Ty::Int(None)) && !matches!(r.ty, Ty::Int(None)) {
                    l = self.pure(&b.left, env, Some(&r.ty))?;
                }
                let t = join(&l.ty, &r.ty).map_err(|m| unsupported(at, &m))?;
                match &t {
                    Ty::Int(_) => {
                        let s = self.int_binop(&b.op, &l, &r, &t, at)?;
                        Ok(Val { s, ty: t })
                    }
                    Ty::Bool => {
                        let s = match &b.op {
                            BinOp::BitAnd(_) => format!("({} && {})", l.s, r.s),
                            BinOp::BitOr(_) => format!("({} || {})", l.s, r.s),
                            BinOp::BitXor(_) => format!("(xorb {} {})", l.s, r.s),
                            _ => return Err(unsupported(at, "arithmetic on bool")),
                        };
                        Ok(Val { s, ty: Ty::Bool })
                    }
                    _ => Err(unsupported(at, &format!("binary operator on {}", t.show()))),
                }
            }
        }
    }

    pub fn path_expr(&mut self, p: &ExprPath, env: &Env, hint: Option<&Ty>) -> R<Val> {
        let at = &Expr::Path(p.clone());
        let mut segs: Vec<String> = p.path.segments.iter().map(|s| s.ident.to_string()).collect();
        if let Some(q) = &p.qself {
            // `<Self as Trait>::ITEM` is `Self::ITEM` (the trait only disambiguates)
            let is_self = matches!(&*q.ty, Type::Path(tp) if tp.qself.is_none() && tp.path.is_ident("Self"));
            // `<Type>::ITEM` (no trait): `Type::ITEM`
            let plain: Option<String> = match crate::strip_group(&q.ty) {
                Type::Path(tp) if tp.qself.is_none() && q.position == 0 && tp.path.segments.len() == 1 && matches!(tp.path.segments[0].arguments, PathArguments::None) => Some(tp.path.segments[0].ident.to_string()),
                _ => None,
            };
            if let Some(tn) = plain {
                let mut s2 = vec![tn];
                s2.extend(segs.iter().cloned());
                segs = s2;
            } else {
                if !is_self || q.position == 0 || q.position >= segs.len() {
                    return Err(unsupported(at, "qualified path `<T as Trait>::..` (only `<Self as Trait>::ITEM` and `<Type>::ITEM`)"));
                }
                let mut s2 = vec!["Self".to_string()];
                s2.extend(segs[q.position..].iter().cloned());
                segs = s2;
            }
        }
        if segs.len() == 3 && segs[0] == "Self" {
            // `Self::Assoc::MAX` where `type Assoc = <integer type>;`
            if let Some(t) = self.t.assoc_int(&self.cur_file, self.self_ty.as_deref(), &segs[1]) {
                segs = vec![t.name().to_string(), segs[2].clone()];
            }
        }
        if segs.len() >= 2 && p.qself.is_none() && self.generic_tys.contains(&segs[0]) {
            return match env.get(&generic_item_key(&p.path)) {
                Some(v) => Ok(Val { s: v.coq.clone(), ty: v.ty.clone() }),
                None => Err(unsupported(at, &format!("associated item `{}` of a generic parameter", segs.join("::")))),
            };
        }
        if segs.len() == 1 {
            let n = &segs[0];
            if let Some(v) = env.get(n) {
                if let Some(a) = &v.alias {
                    return self.read_alias(a, env, at);
                }
                return Ok(Val { s: v.coq.clone(), ty: v.ty.clone() });
            }
            if n == "None" {
                let ty = match hint {
                    Some(Ty::Option(t)) => Ty::Option(t.clone()),
                    _ => Ty::Option(Box::new(Ty::Infer)),
                };
                return Ok(Val { s: "None".into(), ty });
            }
            {
                let rn = self.resolve_type_name(n);
                if let Some(st) = self.t.struct_info(&rn) {
                    if st.fields.is_empty() {
                        return Ok(Val { s: st.ctor.clone(), ty: Ty::Adt(rn) });
                    }
                }
            }
            let local_const = self.t.file_defs.get(&self.cur_file).map(|d| d.consts.contains(n)).unwrap_or(false);
            if local_const && !self.t.consts.iter().any(|c| c.key == *n && c.file == self.cur_file) {
                return Err(unsupported(at, &format!("`{}`: this file defines its own constant of that name, which is not configured", n)));
            }
            let cands: Vec<&ConstInfo> = self.t.consts.iter().filter(|c| c.key == *n && (!local_const || c.file == self.cur_file)).collect();
            if cands.len() > 1 {
                return Err(unsupported(at, &format!("`{}`: several configured constants of that name (of different files), none of them defined in this file", n)));
            }
            if let Some(c) = cands.first() {
                let c = (*c).clone();
                let ma = self.mvar_args(&c.mvars, env, at)?;
                return Ok(Val { s: app(&c.coq, &ma), ty: c.ty.clone() });
            }
            return Err(unsupported(at, &format!("name `{}` is not a local variable, parameter or configured const", n)));
        }
        if segs.len() == 2 {
            if let Some(t) = IntTy::from_name(&segs[0]) {
                return match segs[1].as_str() {
                    "MAX" => Ok(Val { s: lit(t.max_val()), ty: Ty::int(t) }),
                    "MIN" => Ok(Val { s: lit(t.min_val()), ty: Ty::int(t) }),
                    "BITS" => Ok(Val { s: lit(t.bits() as i128), ty: Ty::int(IntTy::U32) }),
                    _ => Err(unsupported(at, &format!("`{}::{}`", segs[0], segs[1]))),
                };
            }
            let tn = self.resolve_type_name(&segs[0]);
            let key = format!("{}::{}", tn, segs[1]);
            if let Some(c) = self.t.consts.iter().find(|c| c.key == key) {
                let c = c.clone();
                let ma = self.mvar_args(&c.mvars, env, at)?;
                return Ok(Val { s: app(&c.coq, &ma), ty: c.ty.clone() });
            }
            if let Some(x) = self.t.externs.get(&tn) {
                if let Some((_, ty, f)) = x.consts.iter().find(|c| c.0 == segs[1]) {
                    let row = self.extern_row(x, env, at)?;
                    let ty = if *ty == Ty::Extern("Self".into()) { Ty::Extern(tn.clone()) } else { ty.clone() };
                    return Ok(Val { s: app(f, &row), ty });
                }
            }
            if let Some(e) = self.t.enum_info(&tn) {
                if let Some(v) = e.variants.iter().find(|v| v.name == segs[1]) {
                    if !v.fields.is_empty() {
                        return Err(unsupported(at, "variant with fields used as a value"));
                    }
                    return Ok(Val { s: v.ctor.clone(), ty: Ty::Adt(tn) });
                }
            }
            return Err(unsupported(at, &format!("path `{}` is not a configured const or enum variant", segs.join("::"))));
        }
        Err(unsupported(at, &format!("path `{}`", segs.join("::"))))
    }

    /// the variables bound to the macro parameters a callee depends on
    pub fn mvar_args<T: syn::spanned::Spanned>(&self, mvars: &[String], env: &Env, at: &T) -> R<Vec<String>> {
        let mut out = vec![];
        for m in mvars {
            match env.get(m) {
                Some(v) => out.push(v.coq.clone()),
                None => return Err(unsupported(at, &format!("macro parameter `{}` needed by the callee is not in scope", m))),
            }
        }
        Ok(out)
    }

    pub fn extern_row<T: syn::spanned::Spanned>(&self, x: &ExternInfo, env: &Env, at: &T) -> R<Vec<String>> {
        match &x.row {
            Some(r) => self.mvar_args(&[r.clone()], env, at),
            None => Ok(vec![]),
        }
    }

    pub fn struct_lit(&mut self, s: &ExprStruct, env: &Env) -> R<Val> {
        let at = &Expr::Struct(s.clone());
        let segs: Vec<String> = s.path.segments.iter().map(|x| x.ident.to_string()).collect();
        let (ctor, ftys, ty) = if segs.len() == 1 {
            let sn = self.resolve_type_name(&segs[0]);
            let (c, f) = self.variant_or_struct(&s.path, &Ty::Infer, at)?;
            (c, f, Ty::Adt(sn))
        } else {
            let en = self.resolve_type_name(&segs[0]);
            let (c, f) = self.variant_or_struct(&s.path, &Ty::Infer, at)?;
            (c, f, Ty::Adt(en))
        };
        let rest = match &s.rest {
            Some(r) => Some(self.pure(r, env, Some(&ty))?),
            None => None,
        };
        let mut args = vec![];
        for (fname, fty) in ftys.iter() {
            let fname = fname.clone().ok_or_else(|| unsupported(at, "struct literal for a tuple variant"))?;
            let fv = s.fields.iter().find(|f| match &f.member {
                Member::Named(i) => *i == fname,
                Member::Unnamed(i) => i.index.to_string() == fname,
            });
            match fv {
                Some(f) => {
                    let v = self.pure(&f.expr, env, Some(fty))?;
                    join(&v.ty, fty).map_err(|m| unsupported(at, &format!("field `{}`: {}", fname, m)))?;
                    args.push(v.s);
                }
                None => match &rest {
                    Some(r) => {
                        let m: Member = syn::parse_str(&fname).map_err(|e| e.to_string())?;
                        args.push(self.field_of(r, &m, at)?.s)
                    }
                    None => return Err(unsupported(at, &format!("field `{}` missing in struct literal", fname))),
                },
            }
        }
        // `field: PhantomData` of a PhantomData field carries no data
        let mut phantoms = 0;
        if let Ty::Adt(n) = &ty {
            if let Some(si) = self.t.struct_info(n) {
                for f in si.fields.iter().filter(|f| is_phantom(&f.ty)) {
                    let fv = s.fields.iter().find(|x| matches!(&x.member, Member::Named(i) if *i == f.name));
                    match fv {
                        Some(x) if matches!(strip_parens(&x.expr), Expr::Path(p) if p.path.segments.last().map(|s| s.ident == "PhantomData").unwrap_or(false)) => phantoms += 1,
                        Some(_) => return Err(unsupported(at, &format!("field `{}` (PhantomData) initialised with something else than `PhantomData`", f.name))),
                        None if rest.is_some() => {}
                        None => return Err(unsupported(at, &format!("field `{}` missing in struct literal", f.name))),
                    }
                }
            }
        }
        if s.fields.len() > ftys.len() + phantoms {
            return Err(unsupported(at, "unknown field in struct literal"));
        }
        Ok(Val { s: app(&ctor, &args), ty })
    }

    pub fn macro_expr(&mut self, m: &ExprMacro, env: &Env, _hint: Option<&Ty>) -> R<Val> {
        let at = &Expr::Macro(m.clone());
        let name = m.mac.path.segments.last().map(|s| s.ident.to_string()).unwrap_or_default();
        if name == "matches" {
            let parsed = m.mac.parse_body_with(|input: syn::parse::ParseStream| {
                let e: Expr = input.parse()?;
                let _: Token![,] = input.parse()?;
                let p = Pat::parse_multi_with_leading_vert(input)?;
                if !input.is_empty() {
                    let _: Option<Token![,]> = input.parse()?;
                }
                if !input.is_empty() {
                    return Err(input.error("guard in matches!"));
                }
                Ok((e, p))
            });
            let (e, p) = parsed.map_err(|x| unsupported(at, &format!("matches! form: {}", x)))?;
            let v = self.pure(&e, env, None)?;
            let mut env2 = env.clone();
            let ps = self.bind_pat(&p, &v.ty, &mut env2)?;
            return Ok(Val { s: format!("(match {} with | {} => true | _ => false end)", v.s, ps), ty: Ty::Bool });
        }
        if name == "assert" || name == "debug_assert" {
            // `assert!(..)` as an expression of type (): it only panics
            return Ok(unit());
        }
        Err(unsupported(at, &format!("macro `{}!`", name)))
    }
}
